"""C25 - standard types are applied completely and consistently.

Cases 0 .. N_BUILTIN-1 enumerate EVERY built-in line / line_dc / trafo / trafo3w / fuse standard type of a fresh network,
all later cases draw a random standard type.  One case = one type + one seeded scenario (test network, tap position, df,
parallel, calculation options).  The same scenario is built several times with the real creators

    single   create_line / create_transformer / create_transformer3w / create_line_dc / Fuse(fuse_type=...)
    batch    create_lines / create_transformers / create_transformers3w / create_lines_dc  (std_type as str and as list)
    changed  created from a different type, then change_std_type(...)
    explicit create_*_from_parameters(**type parameters)      <- the reference element of the property statement

Oracles: (a) every judged type parameter (see JUDGED) equals the type's value in the created / changed row, nothing else in the
table moves; (b) runpp / rundcpp / calc_sc results of single, batch and changed nets equal those of the explicit net;
(c) a set model of the type library for create / copy / rename / delete / load_std_type; (d) creators never mutate the type.
"""
import copy
import inspect

import numpy as np
import pandas as pd
import pandapower as pp
import pandapower.shortcircuit as sc

from .. import common
from ..gen import netgen

PROPERTY = "C25"
READY = True
LEVEL = "exploration"
TECHNIQUE = ("runtime monitoring: exhaustive enumeration of the built-in standard types + seeded random types; differential "
             "oracle (element from type vs element from explicit parameters under runpp/rundcpp/calc_sc) and a set model of the "
             "type library")
CASES = {"quick": 420, "thorough": 12000}
BUDGET = {"quick": 60, "thorough": 1500}
FLOORS = {"quick": {"nontrivial": 210, "max_skip_frac": 0.1,
                    "tags": {"el:line": 75, "el:trafo": 55, "el:trafo3w": 30, "el:fuse": 40, "el:line_dc": 20, "builtin": 106,
                             "random_type": 150, "zero_seq_type": 50, "sc_1ph": 25, "tap_off_neutral": 50, "tap2": 12,
                             "changed_compared": 90, "alpha_col": 12, "rename_with_elements": 150, "parameter_from_std_type": 120,
                             "copy_keep": 90, "copy_overwrite": 90, "fuse_printed": 8},
                    "extras": {"builtin_types": 106, "row_params_checked": 7000, "calc_pairs": 1900, "library_ops": 3800,
                               "changed_rows": 150}},
          "thorough": {"nontrivial": 5000, "max_skip_frac": 0.1,
                       "tags": {"el:line": 2000, "el:trafo": 2000, "el:trafo3w": 1000, "el:fuse": 600, "builtin": 106, "sc_1ph": 700},
                       "extras": {"builtin_types": 106, "calc_pairs": 50000}}}
RULE = ("case k < 106: the k-th built-in standard type (sorted by element, name) - exhaustive; case k >= 106: random type of a "
        "random element kind with optional tap / second tap / zero-sequence / extra parameters. non-trivial = at least one "
        "row check and (for line/trafo/trafo3w) one converged twin calculation; distinct = digest of type data + scenario")
ASSUMPTIONS = ["judged parameters = type keys that are columns of the pandapower element table (default columns plus the "
               "documented zero-sequence / second tap changer columns); other keys are 'additional parameters' that "
               "create_std_type documents as loadable through parameter_from_std_type and are not judged",
               "alpha is judged only when the alpha column already exists (documented in doc/std_types/basic.rst)",
               "twin calculations take identical inputs, results compared with 1e-9*(1+|x|) (measured: bitwise equal)",
               "change_std_type is documented to change only parameters given by the new type; behaviour is compared with a "
               "directly created element only when the new type defines every judged parameter the old one set"]

_CACHE = {}


def template():
    if "net" not in _CACHE:
        net = pp.create_empty_network()
        _CACHE["net"] = net
        _CACHE["builtin"] = [(el, n) for el in ["fuse", "line", "line_dc", "trafo", "trafo3w"] for n in sorted(net.std_types[el])]
        _CACHE["sig"] = {el: set(inspect.signature(f).parameters) - {"net", "kwargs", "name", "index"} for el, f in [
            ("line", pp.create_line_from_parameters), ("trafo", pp.create_transformer_from_parameters),
            ("trafo3w", pp.create_transformer3w_from_parameters), ("line_dc", pp.create_line_dc_from_parameters)]}
        _CACHE["defcols"] = {el: set(net[el].columns) for el in ["line", "trafo", "trafo3w", "line_dc"]}
    return _CACHE


def setup(tier):
    template()


TAP = ["tap_neutral", "tap_max", "tap_min", "tap_side", "tap_step_percent", "tap_step_degree", "tap_changer_type"]
TAP2 = [t.replace("tap_", "tap2_") for t in TAP]
ZERO_T = ["vk0_percent", "vkr0_percent", "mag0_percent", "mag0_rx", "si0_hv_partial", "vector_group"]
ZERO_L = ["r0_ohm_per_km", "x0_ohm_per_km", "c0_nf_per_km"]
STRUCT = {"line": {"from_bus", "to_bus", "length_km", "df", "parallel", "in_service", "std_type", "name", "geo"},
          "line_dc": {"from_bus_dc", "to_bus_dc", "length_km", "df", "parallel", "in_service", "std_type", "name", "geo"},
          "trafo": {"hv_bus", "lv_bus", "df", "parallel", "in_service", "std_type", "name", "tap_pos", "tap2_pos",
                    "id_characteristic_table", "tap_dependency_table"},
          "trafo3w": {"hv_bus", "mv_bus", "lv_bus", "in_service", "std_type", "name", "tap_pos", "tap_at_star_point",
                      "id_characteristic_table", "tap_dependency_table"}}


def judged(el, tdata, cols_before):
    """type keys that must show up in the created row"""
    c = template()
    j = (c["defcols"][el] - STRUCT[el]) & set(tdata)
    if el == "line":
        if "r0_ohm_per_km" in tdata:    # create_std_type docstring: "Three phase line creation"
            j |= set(ZERO_L) & set(tdata)
    if el == "trafo":
        j |= (set(ZERO_T) | set(TAP2)) & set(tdata)   # create_transformer docstring (zero sequence parameters, tap2_pos)
    if el in ("line", "line_dc") and "alpha" in tdata and "alpha" in cols_before:
        j.add("alpha")
    return j


# ------------------------------------------------------------------------------------------------ random types
def rnd_type(g, el):
    R, B, I, C = g.R, g.B, g.I, g.C
    if el == "line":
        d = {"r_ohm_per_km": R(0.01, 1.5), "x_ohm_per_km": R(0.05, 0.5), "c_nf_per_km": R(0, 400), "max_i_ka": R(0.1, 1.5)}
        if B(0.5):
            d["g_us_per_km"] = R(0, 5)
        if B(0.7):
            d["type"] = C(["cs", "ol"])
        if B(0.45):
            d.update(r0_ohm_per_km=d["r_ohm_per_km"] * R(1, 4), x0_ohm_per_km=d["x_ohm_per_km"] * R(1, 4), c0_nf_per_km=d["c_nf_per_km"] * R(0.3, 1))
            if B(0.3):
                d["g0_us_per_km"] = R(0, 1)
        if B(0.6):
            d["alpha"] = C([4.03e-3, 3.93e-3, R(0.001, 0.006)])
        if B(0.4):
            d["q_mm2"] = I(10, 600)
        if B(0.3):
            d["endtemp_degree"] = R(60, 250)
        d["voltage_rating"] = C(["LV", "MV", "HV"])
    elif el == "line_dc":
        d = {"r_ohm_per_km": R(0.01, 1.5), "max_i_ka": R(0.1, 1.5)}
        if B(0.5):
            d["g_us_per_km"] = R(0, 5)
        if B(0.7):
            d["type"] = C(["cs", "ol"])
        if B(0.6):
            d["alpha"] = R(0.001, 0.006)
    elif el == "trafo":
        vh, vl = C([(110., 20.), (110., 10.), (20., 0.4), (10., 0.4), (380., 110.), (220., 110.)])
        sn = R(0.1, 1.) * (vh if vh > 30 else 2.)
        vk = R(4, 18)
        i0 = R(0.02, 1.)
        d = {"sn_mva": sn, "vn_hv_kv": vh * R(0.95, 1.05), "vn_lv_kv": vl * R(0.95, 1.05), "vk_percent": vk, "vkr_percent": R(0.05, 0.3) * vk,
             "pfe_kw": R(0, 0.8) * i0 / 100. * sn * 1e3, "i0_percent": i0, "shift_degree": float(C([0, 0, 30, 150, 180, 330]))}
        if B(0.1):
            del d["shift_degree"]
        if B(0.8):
            d.update(_rnd_tap(g, "tap"))
        if "tap_side" in d and B(0.3):
            d.update(_rnd_tap(g, "tap2"))
        if B(0.45):
            d.update(vk0_percent=vk * R(0.8, 1.1), vkr0_percent=d["vkr_percent"] * R(0.8, 1.1), mag0_percent=R(10, 100), mag0_rx=R(0, 0.5),
                     si0_hv_partial=R(0.1, 0.9), vector_group=C(["Dyn", "YNyn", "Yzn", "YNd", "Dyn5", "YNy"]))
        elif B(0.5):
            d["vector_group"] = C(["Dyn5", "YNd5", "Yy0"])
        if B(0.3):
            d["trafo_characteristic_table"] = False
    elif el == "trafo3w":
        vh, vm, vl = C([(110., 20., 10.), (220., 110., 20.), (380., 110., 30.)])
        sh = R(20, 200)
        sm, sl = sh * R(0.3, 1), sh * R(0.3, 1)
        d = {"sn_hv_mva": sh, "sn_mv_mva": sm, "sn_lv_mva": sl, "vn_hv_kv": vh * R(0.95, 1.05), "vn_mv_kv": vm * R(0.95, 1.05),
             "vn_lv_kv": vl * R(0.95, 1.05)}
        for s in ("hv", "mv", "lv"):
            d["vk_%s_percent" % s] = R(6, 18)
            d["vkr_%s_percent" % s] = R(0.1, 0.6)
        i0 = R(0.05, 1.)
        d.update(pfe_kw=R(0, 0.8) * i0 / 100. * sh * 1e3, i0_percent=i0, shift_mv_degree=float(C([0, 0, 30, 150])),
                 shift_lv_degree=float(C([0, 0, 30, 150])))
        if B(0.1):
            del d["shift_lv_degree"]
        if B(0.8):
            t = _rnd_tap(g, "tap")
            t["tap_side"] = C(["hv", "mv", "lv"])
            if t["tap_changer_type"] == "Ideal":
                t["tap_changer_type"] = "Ratio"
            d.update(t)
        if B(0.5):
            d["vector_group"] = C(["YN0yn0yn0", "YN0yn0d5"])
    else:  # fuse
        n = I(3, 9)
        x = np.cumsum([R(20, 200) for _ in range(n)]) + R(5, 100)
        t = np.sort([10 ** R(-2, 3) for _ in range(n)])[::-1]
        d = {"fuse_type": "rnd fuse", "i_rated_a": float(I(5, 600))}
        if B(0.5):
            d.update(t_avg=[float(v) for v in t], x_avg=[float(v) for v in x], t_min=0, x_min=0, t_total=0, x_total=0)
        else:
            d.update(t_avg=0, x_avg=0, t_min=[float(v) for v in t], x_min=[float(v) for v in x],
                     t_total=[float(v * 1.3) for v in t], x_total=[float(v * 1.5) for v in x])
    if B(0.3):
        d["my_extra_param"] = C(["abc", 7, 1.25])
    return d


def _rnd_tap(g, p):
    R, I, C = g.R, g.I, g.C
    nt = I(-1, 1)
    tct = C(["Ratio", "Ratio", "Symmetrical", "Ideal"])
    d = {p + "_side": C(["hv", "lv"]), p + "_neutral": nt, p + "_min": nt - I(1, 9), p + "_max": nt + I(1, 9),
         p + "_step_percent": R(0.3, 2.5), p + "_step_degree": 0., p + "_changer_type": tct}
    if tct == "Ideal":
        if g.B(0.5):
            d[p + "_step_percent"], d[p + "_step_degree"] = 0., R(0.1, 1.)
    elif tct == "Ratio" and g.B(0.3):
        d[p + "_step_degree"] = R(1, 30)
    if g.B(0.15):
        for k in (p + "_neutral", p + "_min", p + "_max"):
            d[k] = float(d[k])
    return d


# ------------------------------------------------------------------------------------------------ scenarios
def scenario(g, el, name, tdata, lib):
    """JSON-able description of the test network around the element under test"""
    R, B, I, C = g.R, g.B, g.I, g.C
    s = {"el": el, "name": name, "df": R(0.5, 1.) if B(0.5) else 1., "parallel": I(1, 3) if B(0.4) else 1, "sn_mva": C([1., 1., 10., 100.]),
         "eg_vm": R(0.98, 1.04), "eg_va": R(-20, 20) if B(0.4) else 0., "eg_sc": 10 ** R(1.5, 3.5), "eg_rx": R(0.05, 0.5),
         "pf": {"calculate_voltage_angles": B(0.75), "trafo_model": C(["t", "pi"]), "numba": not B(0.2)},
         "sc": {"case": C(["max", "max", "min"]), "ip": B(0.5), "ith": B(0.5), "lv_tol_percent": C([10, 6])}}
    others = sorted(n for n in lib[el] if n != name) if el != "fuse" else []
    s["old_type"] = C(others) if others else None
    if el == "line":
        vr = tdata.get("voltage_rating")
        s["vn"] = {"LV": 0.4, "MV": C([10., 20.]), "HV": C([110., 220., 380.])}.get(vr, C([0.4, 20., 110.]))
        s["length"] = R(0.05, 0.5) if s["vn"] < 1 else (R(0.5, 8) if s["vn"] < 100 else R(5, 60))
        s["load"] = [3 ** 0.5 * s["vn"] * tdata["max_i_ka"] * R(0.1, 0.6), R(-0.2, 0.4)]
        s["alpha_col"] = B(0.3)
        s["temp"] = R(25, 90) if s["alpha_col"] else None
        if s["alpha_col"] and "alpha" in tdata:
            s["pf"]["consider_line_temperature"] = True
    elif el == "trafo":
        s["tap_pos"] = None
        if "tap_min" in tdata and "tap_max" in tdata and B(0.75):
            s["tap_pos"] = I(int(tdata["tap_min"]), int(tdata["tap_max"]))
        s["tap2_pos"] = None
        if "tap2_min" in tdata and "tap2_max" in tdata and B(0.75):
            s["tap2_pos"] = I(int(tdata["tap2_min"]), int(tdata["tap2_max"]))
        s["float_tap"] = B(0.2)
        s["load"] = [tdata["sn_mva"] * R(0.1, 0.8), R(-0.2, 0.4)]
        s["vbus"] = [R(0.97, 1.03), R(0.97, 1.03)]
    elif el == "trafo3w":
        s["tap_pos"] = None
        if "tap_min" in tdata and "tap_max" in tdata and B(0.75):
            s["tap_pos"] = I(int(tdata["tap_min"]), int(tdata["tap_max"]))
        s["star"] = B(0.3)
        s["load"] = [tdata["sn_mv_mva"] * R(0.1, 0.6), tdata["sn_lv_mva"] * R(0.1, 0.6), R(-0.2, 0.4)]
    return s


def _zero_seq_ok(el, tdata):
    if el == "line":
        return all(k in tdata for k in ZERO_L)
    if el == "trafo":
        return all(k in tdata for k in ZERO_T)
    return False


def base_net(s, tdata, lib_extra):
    """network without the element under test"""
    c = template()
    net = copy.deepcopy(c["net"])
    net.sn_mva = s["sn_mva"]
    for el, name, data in lib_extra:
        pp.create_std_type(net, copy.deepcopy(data), name, el, check_required=False)
    el = s["el"]
    eg = dict(vm_pu=s["eg_vm"], va_degree=s["eg_va"], s_sc_max_mva=s["eg_sc"], s_sc_min_mva=s["eg_sc"] * 0.7, rx_max=s["eg_rx"], rx_min=s["eg_rx"],
              x0x_max=1., r0x0_max=0.1, x0x_min=1., r0x0_min=0.1)
    if el == "line":
        b = pp.create_buses(net, 3, s["vn"])
        pp.create_ext_grid(net, b[0], **eg)
        pp.create_load(net, b[1], s["load"][0] * 0.7, s["load"][0] * s["load"][1])
        pp.create_load(net, b[2], s["load"][0] * 0.3, 0.)
    elif el == "trafo":
        b = [pp.create_bus(net, tdata["vn_hv_kv"] * s["vbus"][0]), pp.create_bus(net, tdata["vn_lv_kv"] * s["vbus"][1]),
             pp.create_bus(net, tdata["vn_lv_kv"] * s["vbus"][1])]
        pp.create_ext_grid(net, b[0], **eg)
        pp.create_load(net, b[1], s["load"][0] * 0.5, s["load"][0] * s["load"][1])
        pp.create_load(net, b[2], s["load"][0] * 0.5, 0.)
    elif el == "trafo3w":
        b = [pp.create_bus(net, tdata["vn_hv_kv"]), pp.create_bus(net, tdata["vn_mv_kv"]), pp.create_bus(net, tdata["vn_lv_kv"])]
        pp.create_ext_grid(net, b[0], **eg)
        pp.create_load(net, b[1], s["load"][0], s["load"][0] * s["load"][2])
        pp.create_load(net, b[2], s["load"][1], 0.)
    return net, [int(x) for x in b]


def _second_branch(net, b, s, tdata):
    """a neighbour element from explicit parameters (with zero sequence data), so that tables have a row that must not move"""
    el = s["el"]
    if el == "line":
        kw = dict(alpha=0.00393, temperature_degree_celsius=35.) if s["alpha_col"] else {}   # makes alpha an existing (float) column
        pp.create_line_from_parameters(net, b[1], b[2], s["length"] * 0.5, r_ohm_per_km=0.2, x_ohm_per_km=0.3, c_nf_per_km=50., max_i_ka=5.,
                                       r0_ohm_per_km=0.5, x0_ohm_per_km=0.9, c0_nf_per_km=20., name="neighbour", **kw)
    elif el == "trafo":
        z = float(net.bus.vn_kv.at[b[1]]) ** 2 / max(tdata["sn_mva"], 1e-3)
        pp.create_line_from_parameters(net, b[1], b[2], 1., r_ohm_per_km=0.01 * z, x_ohm_per_km=0.02 * z, c_nf_per_km=0., max_i_ka=100.,
                                       r0_ohm_per_km=0.03 * z, x0_ohm_per_km=0.06 * z, c0_nf_per_km=0., name="neighbour")
    return net


def build(s, tdata, lib_extra, how):
    """build the scenario with the element under test created by `how`; returns (net, index of the element)"""
    el, name = s["el"], s["name"]
    net, b = base_net(s, tdata, lib_extra)
    _second_branch(net, b, s, tdata)
    cols_before = set(net[el].columns)
    common_kw = {"name": "under_test"}
    if el == "line":
        kw = dict(df=s["df"], parallel=s["parallel"])
        if s["temp"] is not None:
            kw["temperature_degree_celsius"] = s["temp"]
        if how == "single":
            i = pp.create_line(net, b[0], b[1], s["length"], name, **kw, **common_kw)
        elif how == "batch":
            i = pp.create_lines(net, [b[0]], [b[1]], s["length"], name, **kw)[0]
        elif how == "batch_list":
            i = pp.create_lines(net, [b[0]], [b[1]], [s["length"]], [name], **kw)[0]
        elif how == "changed":
            i = pp.create_line(net, b[0], b[1], s["length"], s["old_type"], **kw, **common_kw)
        else:
            par = {k: v for k, v in tdata.items() if k in s["_params"]}
            i = pp.create_line_from_parameters(net, b[0], b[1], s["length"], **par, **kw, **common_kw)
    elif el == "trafo":
        kw = dict(df=s["df"], parallel=s["parallel"])
        for k in ("tap_pos", "tap2_pos"):
            if s[k] is not None:
                kw[k] = float(s[k]) if s["float_tap"] else s[k]
        if how == "single":
            i = pp.create_transformer(net, b[0], b[1], name, **kw, **common_kw)
        elif how in ("batch", "batch_list"):
            i = pp.create_transformers(net, [b[0]], [b[1]], name, **kw)[0]
        elif how == "changed":
            i = pp.create_transformer(net, b[0], b[1], s["old_type"], **kw, **common_kw)
        else:
            par = {k: v for k, v in tdata.items() if k in s["_params"]}
            par.setdefault("shift_degree", 0)
            i = pp.create_transformer_from_parameters(net, b[0], b[1], **par, **kw, **common_kw)
    elif el == "trafo3w":
        kw = dict(tap_at_star_point=s["star"])
        if s["tap_pos"] is not None:
            kw["tap_pos"] = s["tap_pos"]
        if how == "single":
            i = pp.create_transformer3w(net, b[0], b[1], b[2], name, **kw, **common_kw)
        elif how in ("batch", "batch_list"):
            i = pp.create_transformers3w(net, [b[0]], [b[1]], [b[2]], name, **kw)[0]
        elif how == "changed":
            i = pp.create_transformer3w(net, b[0], b[1], b[2], s["old_type"], **kw, **common_kw)
        else:
            par = {k: v for k, v in tdata.items() if k in s["_params"]}
            par.setdefault("shift_mv_degree", 0)
            par.setdefault("shift_lv_degree", 0)
            i = pp.create_transformer3w_from_parameters(net, b[0], b[1], b[2], **par, **kw, **common_kw)
    return net, int(i), cols_before


# ------------------------------------------------------------------------------------------------ comparisons
def _same(a, b):
    """value equality of a type value and a table cell"""
    if isinstance(a, (list, tuple, np.ndarray)) or isinstance(b, (list, tuple, np.ndarray)):
        try:
            return len(a) == len(b) and all(_same(x, y) for x, y in zip(a, b))
        except TypeError:
            return False
    try:
        if pd.isna(a) and pd.isna(b):
            return True
    except (TypeError, ValueError):
        pass
    if isinstance(a, str) or isinstance(b, str) or a is None or b is None:
        return a == b
    try:
        return bool(float(a) == float(b))
    except (TypeError, ValueError):
        return a == b


def row_check(net, el, idx, tdata, jset, how, name):
    """[(param, expected, found)] for judged type parameters that are missing / different in the row"""
    out = []
    row = net[el].loc[idx]
    for k in sorted(jset):
        if k not in net[el].columns:
            out.append((k, tdata[k], "<no column>"))
        elif not _same(tdata[k], row[k]):
            out.append((k, tdata[k], row[k]))
    if not _same(row["std_type"], name):
        out.append(("std_type", name, row["std_type"]))
    return out


RES = ["res_bus", "res_line", "res_trafo", "res_trafo3w", "res_ext_grid", "res_load", "res_bus_sc", "res_line_sc", "res_trafo_sc",
       "res_trafo3w_sc"]


def res_diff(a, b):
    """first difference between the result tables of two nets, None if equal"""
    for t in RES:
        if t not in a and t not in b:
            continue
        if t not in a or t not in b:
            return "%s only in one net" % t
        x, y = a[t], b[t]
        if len(x) != len(y) or list(x.columns) != list(y.columns):
            return "%s: shape/columns differ: %s vs %s" % (t, list(x.columns), list(y.columns))
        if not len(x):
            continue
        xv, yv = x.values.astype(float), y.values.astype(float)
        bad = ~((np.abs(xv - yv) <= 1e-9 * (1 + np.abs(xv))) | (np.isnan(xv) & np.isnan(yv)) | ((xv == yv)))
        if bad.any():
            r, c = np.argwhere(bad)[0]
            return "%s.%s[%s]: %r vs %r" % (t, x.columns[c], x.index[r], xv[r, c], yv[r, c])
    return None


def run_calcs(net, s, tdata, want_1ph):
    """run the calculation list on a net; returns {calc: status}; results stay in net copies"""
    out = {}
    snaps = {}
    for calc in ["runpp", "rundcpp", "sc3ph"] + (["sc1ph"] if want_1ph else []):
        n = copy.deepcopy(net) if calc != "runpp" else net
        try:
            if calc == "runpp":
                pp.runpp(n, tolerance_mva=1e-9, **s["pf"])
            elif calc == "rundcpp":
                pp.rundcpp(n, calculate_voltage_angles=s["pf"]["calculate_voltage_angles"], trafo_model=s["pf"]["trafo_model"])
            elif calc == "sc3ph":
                sc.calc_sc(n, fault="3ph", branch_results=True, **s["sc"])
            else:
                sc.calc_sc(n, fault="1ph", case=s["sc"]["case"], branch_results=True)
            out[calc] = "ok"
        except Exception as e:  # noqa
            out[calc] = "exc:%s:%s" % (type(e).__name__, str(e)[:120])
        snaps[calc] = n
    return out, snaps


# ------------------------------------------------------------------------------------------------ known mechanisms
def mech_row(el, how, missing, net, idx):
    """mechanism name if *all* wrong row entries are explained by a known defect of a batch creator"""
    keys = {k for k, _, _ in missing}
    if el == "trafo" and how in ("batch", "batch_list") and keys and keys <= set(TAP) | set(TAP2) | {"shift_degree"}:
        # create_transformers forwards only the impedance / zero sequence parameters of the type: every tap column of the
        # row then holds the create_transformers_from_parameters default (NaN / None), shift_degree its default 0
        row = net.trafo.loc[idx].reindex(sorted(keys))
        if all((k == "shift_degree" and row[k] == 0) or (k != "shift_degree" and _empty(row[k])) for k in keys):
            return "create_transformers_drops_shift_and_tap"
    if el in ("line", "line_dc") and how in ("batch", "batch_list") and keys and keys <= set(ZERO_L) | {"alpha"}:
        # create_lines / create_lines_dc copy r, x, c, max_i, g and type only; create_line also copies the zero sequence
        # triple and (when the column exists) alpha.  The row then holds the empty default.
        if all(k not in net[el].columns or _empty(net[el].at[idx, k]) for k in keys):
            return "batch_line_creators_drop_optional_type_params"
    if el == "line_dc" and how == "single" and keys == {"alpha"} and "alpha" in net.line_dc.columns and "alpha" not in net.line.columns \
            and _empty(net.line_dc.at[idx, "alpha"]):
        # create_line_dc looks for the alpha column in net.line instead of net.line_dc
        return "create_line_dc_checks_alpha_in_line_table"
    return None


def _empty(v):
    try:
        return v is None or v in ("", "nan") or bool(pd.isna(v))
    except (TypeError, ValueError):
        return False


def repair_row(net, el, idx, tdata, missing):
    """write the dropped type parameters into the row (used to *explain* a behavioural difference by the known defect)"""
    for k, exp, _ in missing:
        if k not in net[el].columns:
            net[el][k] = np.nan if not isinstance(exp, str) else None
        if isinstance(exp, str) and net[el][k].dtype != object:
            net[el][k] = net[el][k].astype(object)
        net[el].at[idx, k] = exp
    return net


# ------------------------------------------------------------------------------------------------ the element part
def element_case(g, el, name, tdata, builtin, tags, ex, viols):
    c = template()
    lib = c["net"].std_types
    lib_extra = [] if builtin else [(el, name, tdata)]
    s = scenario(g, el, name, tdata, lib)
    frozen = copy.deepcopy(tdata)
    if el == "line_dc":
        return line_dc_case(g, name, tdata, lib_extra, s, tags, ex, viols)
    nontrivial = False
    # ---- creation by every creator
    nets = {}
    jset = None
    for how in ["single", "batch", "batch_list" if el == "line" else None]:
        if how is None:
            continue
        try:
            net, idx, cols_before = build(s, tdata, lib_extra, how)
        except Exception as e:  # noqa
            viols.append(common.viol("creator (%s, %s) raised %s: %s" % (el, how, type(e).__name__, str(e)[:200]), element=el, std_type=name,
                                     type_data=tdata, how=how))
            continue
        jset = judged(el, tdata, cols_before)
        missing = row_check(net, el, idx, tdata, jset, how, name)
        ex["row_params_checked"] += len(jset)
        if how == "single" and el in ("trafo", "trafo3w"):
            # documented default: tap_pos defaults to the medium position (tap_neutral) of the type
            for p in (["tap", "tap2"] if el == "trafo" else ["tap"]):
                if s.get(p + "_pos") is None and p + "_neutral" in tdata and not _same(net[el].at[idx, p + "_pos"], tdata[p + "_neutral"]):
                    missing.append((p + "_pos", tdata[p + "_neutral"], net[el].at[idx, p + "_pos"]))
        m = mech_row(el, how, missing, net, idx) if missing else None
        if missing:
            viols.append(common.viol("%s(%s): type parameters not applied to the row: %s" % (
                {"single": "create", "batch": "batch create", "batch_list": "batch create (list of types)"}[how], el,
                ", ".join("%s expected %r found %r" % x for x in missing[:6])), mechanism=m, element=el, std_type=name, type_data=tdata, how=how))
        nets[how] = (net, idx, missing, m)
        unapplied = (set(tdata) & c["sig"][el]) - jset - {"alpha"}
        if unapplied and how == "single":
            tags.add("unjudged_optional_param")
    if jset is None:
        return False
    s["_params"] = sorted(jset | ({"alpha"} & set(tdata) & {"alpha"} if (el == "line" and s["alpha_col"]) else set()))
    # ---- reference: explicit parameters
    try:
        ref, ridx, _ = build(s, tdata, lib_extra, "explicit")
    except Exception as e:  # noqa
        viols.append(common.viol("create_%s_from_parameters with the type's parameters raised %s: %s" % (el, type(e).__name__, str(e)[:200]),
                                 element=el, std_type=name, type_data=tdata))
        return False
    want_1ph = _zero_seq_ok(el, tdata)
    rstat, rsn = run_calcs(ref, s, tdata, want_1ph)
    if rstat["runpp"] != "ok":
        tags.add("ref_runpp_failed")
    if want_1ph:
        tags.add("zero_seq_type")
    # ---- changed
    if s["old_type"] is not None:
        try:
            net, idx, cols_before = build(s, tdata, lib_extra, "changed")
            old = pp.load_std_type(net, s["old_type"], el)
            before = net[el].copy(deep=True)
            pp.change_std_type(net, idx, name, el)
            cj = set(tdata) & set(before.columns) - STRUCT[el]
            missing = row_check(net, el, idx, tdata, cj, "changed", name)
            ex["changed_rows"] += 1
            ex["row_params_checked"] += len(cj)
            # nothing else moves: other rows, other columns of the row, no new columns
            moved = []
            if list(net[el].columns) != list(before.columns) or list(net[el].index) != list(before.index):
                moved.append("columns/index of net.%s changed" % el)
            else:
                for col in before.columns:
                    for r in before.index:
                        if (r != idx or (col not in tdata and col != "std_type")) and not _same(before.at[r, col], net[el].at[r, col]):
                            moved.append("%s[%s]: %r -> %r" % (col, r, before.at[r, col], net[el].at[r, col]))
            if missing or moved:
                viols.append(common.viol("change_std_type(%s): %s" % (el, "; ".join(["%s expected %r found %r" % x for x in missing[:5]] + moved[:5])),
                                         element=el, std_type=name, old_type=s["old_type"], type_data=tdata))
            stale = (judged(el, old, cols_before) - set(tdata)) & set(net[el].columns)
            # parameters the explicit twin defaults differently from an element that never had them are documented leftovers
            if not stale and set(s["_params"]) <= set(net[el].columns) | {"alpha"}:
                nets["changed"] = (net, idx, missing, None)
                tags.add("changed_compared")
            else:
                tags.add("changed_stale_params")
        except Exception as e:  # noqa
            viols.append(common.viol("change_std_type(%s) raised %s: %s" % (el, type(e).__name__, str(e)[:200]), element=el, std_type=name,
                                     old_type=s["old_type"], type_data=tdata))
    # ---- behaviour: every variant against the explicit twin
    for how, (net, idx, missing, m) in nets.items():
        if how == "changed":
            # tap positions are state, not type data: align them with the reference
            for p in ("tap_pos", "tap2_pos"):
                if p in net[el].columns and p in ref[el].columns:
                    net[el].at[idx, p] = ref[el].at[ridx, p]
        stat, sn = run_calcs(net, s, tdata, want_1ph)
        for calc in rstat:
            ex["calc_pairs"] += 1
            d = None
            if stat[calc] != rstat[calc]:
                d = "%s: %s, explicit twin: %s" % (calc, stat[calc], rstat[calc])
            elif stat[calc] == "ok":
                d = res_diff(sn[calc], rsn[calc])
                nontrivial = True
                if calc == "sc1ph":
                    tags.add("sc_1ph")
            if d is None:
                continue
            mech = None
            if m is not None:
                # explained iff restoring the dropped parameters makes the twin results equal
                fixed = repair_row(copy.deepcopy(net), el, idx, tdata, missing)
                for p in ("tap_pos", "tap2_pos"):
                    if p in fixed[el].columns and p in ref[el].columns:
                        fixed[el].at[idx, p] = ref[el].at[ridx, p]
                fstat, fsn = run_calcs(fixed, s, tdata, want_1ph)
                if fstat[calc] == rstat[calc] and (fstat[calc] != "ok" or res_diff(fsn[calc], rsn[calc]) is None):
                    mech = m
            viols.append(common.viol("%s from type (%s) behaves differently from its explicit twin: %s" % (el, how, d), mechanism=mech, element=el,
                                     std_type=name, how=how, type_data=tdata, scenario={k: v for k, v in s.items() if k != "_params"}))
            break
    if s.get("tap_pos") is not None and "tap_neutral" in tdata and s["tap_pos"] != tdata["tap_neutral"]:
        tags.add("tap_off_neutral")
    if "tap2_side" in tdata:
        tags.add("tap2")
    if s.get("alpha_col") and "alpha" in tdata:
        tags.add("alpha_col")
    if tdata != frozen:
        viols.append(common.viol("the standard type dict was modified by creators / change_std_type", element=el, std_type=name,
                                 before=frozen, after=tdata))
    return nontrivial


def line_dc_case(g, name, tdata, lib_extra, s, tags, ex, viols):
    c = template()
    rows, mechs = {}, {}
    alpha_col = g.B(0.5)
    for how in ("single", "batch", "explicit"):
        net = copy.deepcopy(c["net"])
        for el, n, data in lib_extra:
            pp.create_std_type(net, copy.deepcopy(data), n, el, check_required=False)
        b = pp.create_buses_dc(net, 2, 320.)
        if alpha_col:
            pp.create_line_dc_from_parameters(net, b[0], b[1], 1., r_ohm_per_km=0.1, max_i_ka=1., alpha=0.004, name="neighbour")
        cols_before = set(net.line_dc.columns)
        j = judged("line_dc", tdata, cols_before)
        try:
            if how == "single":
                i = pp.create_line_dc(net, b[0], b[1], 3.5, name, df=s["df"], parallel=s["parallel"])
            elif how == "batch":
                i = pp.create_lines_dc(net, [b[0]], [b[1]], 3.5, name, df=s["df"], parallel=s["parallel"])[0]
            else:
                i = pp.create_line_dc_from_parameters(net, b[0], b[1], 3.5, df=s["df"], parallel=s["parallel"],
                                                      **{k: v for k, v in tdata.items() if k in j})
        except Exception as e:  # noqa
            viols.append(common.viol("line_dc creator (%s) raised %s: %s" % (how, type(e).__name__, str(e)[:200]), std_type=name, type_data=tdata))
            continue
        if how != "explicit":
            missing = row_check(net, "line_dc", i, tdata, j, how, name)
            ex["row_params_checked"] += len(j)
            mechs[how] = (mech_row("line_dc", how, missing, net, i), {k for k, _, _ in missing}) if missing else (None, set())
            if missing:
                viols.append(common.viol("create line_dc (%s): type parameters not applied to the row: %s" % (
                    how, ", ".join("%s expected %r found %r" % x for x in missing[:6])), mechanism=mechs[how][0], element="line_dc",
                    std_type=name, type_data=tdata, how=how, alpha_in_line_dc=alpha_col))
        rows[how] = net.line_dc.loc[i]
    if "explicit" in rows:
        for how in ("single", "batch"):
            if how in rows:
                for col in rows["explicit"].index:
                    if col in j | {"length_km", "df", "parallel", "in_service", "from_bus_dc", "to_bus_dc"} and col in rows[how].index \
                            and not _same(rows[how][col], rows["explicit"][col]):
                        viols.append(common.viol("line_dc from type (%s) differs from explicit twin in %s: %r vs %r" % (
                            how, col, rows[how][col], rows["explicit"][col]), mechanism=mechs[how][0] if col in mechs[how][1] else None,
                            element="line_dc", std_type=name, type_data=tdata))
    return len(rows) == 3


# ------------------------------------------------------------------------------------------------ fuses
def fuse_case(g, name, tdata, builtin, tags, ex, viols):
    from pandapower.protection.protection_devices.fuse import Fuse
    c = template()
    frozen = copy.deepcopy(tdata)
    curve_select = g.I(0, 1)
    if tdata["t_avg"] != 0:
        xs, ts, which = tdata["x_avg"], tdata["t_avg"], "avg"
    elif curve_select == 0:
        xs, ts, which = tdata["x_min"], tdata["t_min"], "min"
    else:
        xs, ts, which = tdata["x_total"], tdata["t_total"], "total"
    tags.add("fuse_curve:" + which)
    printed = g.B(0.35)
    devs = {}
    for how in ("type", "explicit"):
        net = copy.deepcopy(c["net"])
        if not builtin:
            pp.create_std_type(net, copy.deepcopy(tdata), name, "fuse")
        b = pp.create_buses(net, 3, 0.4)
        pp.create_ext_grid(net, b[0], s_sc_max_mva=g.R(1, 20) if how == "type" else 5., rx_max=0.3)
        pp.create_line(net, b[0], b[1], 0.1, "NAYY 4x150 SE")
        pp.create_line(net, b[1], b[2], 0.1, "NAYY 4x150 SE")
        if g.B(0.5) and how == "type":
            # an unrelated characteristic first, so that the fuse's curve does not sit at index 0
            from pandapower.control.util.characteristic import Characteristic
            Characteristic(net, [0, 1], [0, 1])
        sw = pp.create_switch(net, b[1], 1, "l")
        try:
            if how == "type":
                f = Fuse(net, sw, fuse_type=name, curve_select=curve_select)
            else:
                f = Fuse(net, sw, rated_i_a=tdata["i_rated_a"])
                f.create_characteristic(net, xs, ts)
        except Exception as e:  # noqa
            viols.append(common.viol("Fuse (%s) raised %s: %s" % (how, type(e).__name__, str(e)[:200]), element="fuse", std_type=name))
            return False
        devs[how] = (net, f, sw)
    net, f, sw = devs["type"]
    ci0 = f.characteristic_index
    wrong = []
    if not _same(f.rated_i_a, tdata["i_rated_a"]):
        wrong.append(("rated_i_a", tdata["i_rated_a"], f.rated_i_a))
    if not _same(f.i_start_a, min(xs)) or not _same(f.i_stop_a, max(xs)):
        wrong.append(("i_start_a/i_stop_a", (min(xs), max(xs)), (f.i_start_a, f.i_stop_a)))
    if f.fuse_type != name:
        wrong.append(("fuse_type", name, f.fuse_type))
    ex["row_params_checked"] += 4
    try:
        ch = net.characteristic.object.at[f.characteristic_index]
        got = np.asarray(ch(np.asarray(xs, dtype=float)), dtype=float)
        if not np.allclose(got, np.asarray(ts, dtype=float), rtol=1e-9, atol=0):
            wrong.append(("curve %s" % which, list(ts), got.tolist()))
        ex["row_params_checked"] += len(xs)
    except Exception as e:  # noqa
        wrong.append(("characteristic", "callable at index %r" % (f.characteristic_index,), "%s: %s" % (type(e).__name__, e)))
    if wrong:
        viols.append(common.viol("Fuse(fuse_type=%r): type data not applied: %s" % (name, "; ".join("%s expected %r found %r" % w for w in wrong)),
                                 element="fuse", std_type=name, type_data=tdata))
    if printed:
        tags.add("fuse_printed")
        str(net.protection)     # looking at the table must not change the device
        str(f)
        if not _same(f.characteristic_index, ci0):
            ok_after_restore = False
            bad = f.characteristic_index
            viols.append(common.viol("printing the fuse (str(net.protection)) changed its characteristic_index from %r to %r" % (ci0, bad),
                                     mechanism="fuse_str_resets_characteristic_index" if bad == 1 else None, element="fuse", std_type=name))
            f.characteristic_index = ci0
    # behaviour: trip decision and melting time for a sweep of currents equal those of an explicitly parameterised fuse
    try:
        sc.calc_sc(net, bus=2, branch_results=True)
        base = float(net.res_switch_sc.ikss_ka.at[sw])
        n2, f2, sw2 = devs["explicit"]
        sc.calc_sc(n2, bus=2, branch_results=True)
        sweep = [base] + [float(v) / 1e3 for v in np.geomspace(min(xs) * 0.5, max(xs) * 2, 14)] + [min(xs) / 1e3, max(xs) / 1e3]
        for i_ka in sweep:
            net.res_switch_sc.loc[sw, "ikss_ka"] = i_ka
            n2.res_switch_sc.loc[sw2, "ikss_ka"] = i_ka
            r1, r2 = f.protection_function(net, "sc"), f2.protection_function(n2, "sc")
            ex["calc_pairs"] += 1
            t1, t2 = float(r1["trip_melt_time_s"]), float(r2["trip_melt_time_s"])
            if r1["trip_melt"] != r2["trip_melt"] or not (t1 == t2 or abs(t1 - t2) <= 1e-9 * abs(t2)):
                viols.append(common.viol("fuse from type and fuse from explicit curve disagree at %.4g kA: %r vs %r" % (i_ka, r1, r2), element="fuse",
                                         std_type=name, type_data=tdata))
                break
            # documented contract of the curve: no trip below the first point, time of the curve inside, immediate above
            a = i_ka * 1e3
            exp_trip = a >= min(xs)
            if r1["trip_melt"] != exp_trip:
                viols.append(common.viol("fuse trip decision at %.6g A: %r, curve starts at %r A" % (a, r1["trip_melt"], min(xs)), element="fuse", std_type=name))
                break
    except Exception as e:  # noqa
        viols.append(common.viol("fuse protection_function / calc_sc raised %s: %s" % (type(e).__name__, str(e)[:200]), element="fuse", std_type=name,
                                 type_data=tdata))
    if tdata != frozen:
        viols.append(common.viol("the fuse standard type dict was modified", std_type=name, before=frozen, after=tdata))
    return True


# ------------------------------------------------------------------------------------------------ the library model
def library_case(g, el, name, tdata, tags, ex, viols):
    """create / load / copy / rename / delete against a dict model; `net` holds one element using the type where possible"""
    c = template()
    net = copy.deepcopy(c["net"])
    model = {e: copy.deepcopy(v) for e, v in net.std_types.items()}
    data0 = copy.deepcopy(tdata)
    ident = dict(element=el, std_type=name)

    def check(what):
        ex["library_ops"] += 1
        lib = net.std_types
        if set(lib) != set(model) or any(set(lib[e]) != set(model[e]) for e in model):
            viols.append(common.viol("after %s: set of standard types differs from the model: %s" % (
                what, {e: sorted(set(lib[e]) ^ set(model[e])) for e in model if set(lib.get(e, {})) != set(model[e])}), **ident))
            return False
        for e in model:
            for n in model[e]:
                got = pp.load_std_type(net, n, e)
                if not _deq(got, model[e][n]):
                    viols.append(common.viol("after %s: load_std_type(%r, %r) returns %r, expected %r" % (what, n, e, got, model[e][n]), **ident))
                    return False
                if not pp.std_type_exists(net, n, e):
                    viols.append(common.viol("after %s: std_type_exists(%r, %r) is False" % (what, n, e), **ident))
                    return False
        return True

    def raises(fn, what):
        ex["library_ops"] += 1
        try:
            fn()
        except UserWarning:
            return True
        except Exception as e:  # noqa
            viols.append(common.viol("%s raised %s instead of the documented UserWarning: %s" % (what, type(e).__name__, e), **ident))
            return True
        viols.append(common.viol("%s did not raise" % what, **ident))
        return False

    n1 = name + g.C(["", " copy", "_ü", " (2)"])
    pp.create_std_type(net, copy.deepcopy(tdata), n1, el, check_required=False)
    model[el][n1] = copy.deepcopy(data0)
    if not check("create_std_type"):
        return
    # overwrite=False keeps the existing entry, overwrite=True (default) replaces it
    other = rnd_type(g, el)
    pp.create_std_type(net, copy.deepcopy(other), n1, el, overwrite=False, check_required=False)
    check("create_std_type(overwrite=False) on an existing name")
    n2 = "second " + n1
    pp.create_std_types(net, {n2: copy.deepcopy(other), n1: copy.deepcopy(tdata)}, el, check_required=False)
    model[el][n2] = copy.deepcopy(other)
    check("create_std_types")
    # required parameters
    req = pp.std_types.required_std_type_parameters(el)
    if all(r in tdata for r in req):
        k = g.C(req)
        broken = {a: b for a, b in tdata.items() if a != k}
        raises(lambda: pp.create_std_type(net, broken, "broken", el), "create_std_type without required %r" % k)
        check("rejected create_std_type")
    raises(lambda: pp.create_std_type(net, [1, 2], "notadict", el), "create_std_type with a non-dict")
    raises(lambda: pp.load_std_type(net, "no such type ", el), "load_std_type of an unknown type")
    # an element using the type, then rename
    idx = None
    if el in ("line", "trafo", "trafo3w"):
        try:
            if el == "line":
                b = pp.create_buses(net, 3, 20.)
                idx = pp.create_line(net, b[0], b[1], 1., n1)
                pp.create_line(net, b[1], b[2], 1., n2)
                pp.create_line_from_parameters(net, b[0], b[2], 1., 0.1, 0.1, 0., 1.)
            elif el == "trafo":
                b = pp.create_buses(net, 2, 20.)
                idx = pp.create_transformer(net, b[0], b[1], n1)
                pp.create_transformer(net, b[0], b[1], n2)
            else:
                b = pp.create_buses(net, 3, 20.)
                idx = pp.create_transformer3w(net, b[0], b[1], b[2], n1)
                pp.create_transformer3w(net, b[0], b[1], b[2], n2)
        except Exception as e:  # noqa
            viols.append(common.viol("creating a %s from the new type raised %s: %s" % (el, type(e).__name__, str(e)[:200]), type_data=tdata, **ident))
            idx = None
    # copy to another net
    net_b = copy.deepcopy(c["net"])
    keep = rnd_type(g, el)
    pp.create_std_type(net_b, copy.deepcopy(keep), n1, el, check_required=False)
    ow = g.B(0.5)
    try:
        pp.copy_std_types(net_b, net, el, overwrite=ow)
        ex["library_ops"] += 1
        for n in model[el]:
            exp = keep if (n == n1 and not ow) else model[el][n]
            if not _deq(pp.load_std_type(net_b, n, el), exp):
                viols.append(common.viol("copy_std_types(overwrite=%s): type %r arrives as %r, expected %r" % (ow, n, pp.load_std_type(net_b, n, el), exp), **ident))
                break
        tags.add("copy_overwrite" if ow else "copy_keep")
    except Exception as e:  # noqa
        if isinstance(e, UserWarning) and not all(r in t for t in model[el].values() for r in req):
            tags.add("copy_refused_incomplete_type")    # copy_std_types re-checks required parameters
        else:
            viols.append(common.viol("copy_std_types raised %s: %s" % (type(e).__name__, str(e)[:200]), **ident))
    # available_std_types
    try:
        av = pp.available_std_types(net, el)
        ex["library_ops"] += 1
        if set(av.index) != set(model[el]) or any(not _same(av.at[n1, k], v) for k, v in data0.items() if not isinstance(v, (list, dict))):
            viols.append(common.viol("available_std_types does not show the type %r unchanged" % n1, row=av.loc[n1].to_dict() if n1 in av.index else None, **ident))
    except Exception as e:  # noqa
        viols.append(common.viol("available_std_types raised %s: %s" % (type(e).__name__, str(e)[:200]), **ident))
    # parameter_from_std_type loads an additional parameter for exactly the rows of that type
    if idx is not None:
        extra_k = [k for k in data0 if k not in net[el].columns and not isinstance(data0[k], (list, dict))]
        if extra_k:
            k = g.C(sorted(extra_k))
            before = net[el].copy(deep=True)
            try:
                pp.parameter_from_std_type(net, k, el, fill=g.C([None, -1]))
                ex["library_ops"] += 1
                tags.add("parameter_from_std_type")
                col = net[el][k]
                for r in net[el].index:
                    st = net[el].std_type.at[r]
                    has = st is not None and not pd.isna(st) and k in model[el].get(st, {})
                    if has and not _same(col.at[r], model[el][st][k]):
                        viols.append(common.viol("parameter_from_std_type(%r): row %s of type %r got %r, type says %r" % (k, r, st, col.at[r], model[el][st][k]), **ident))
                        break
                if any(not _same(before.at[r, cc], net[el].at[r, cc]) for r in before.index for cc in before.columns):
                    viols.append(common.viol("parameter_from_std_type(%r) changed other columns" % k, **ident))
            except Exception as e:  # noqa
                viols.append(common.viol("parameter_from_std_type raised %s: %s" % (type(e).__name__, str(e)[:200]), **ident))
    # find_std_type_by_parameter with the type's own required values
    if el != "fuse" and all(r in t for t in model[el].values() for r in req):
        sub = {k: data0[k] for k in req[:3]}
        try:
            found = pp.find_std_type_by_parameter(net, sub, el)
            ex["library_ops"] += 1
            exp = sorted(n for n, t in model[el].items() if all(_same(t[k], v) for k, v in sub.items()))
            if sorted(found) != exp:
                viols.append(common.viol("find_std_type_by_parameter(%r) = %r, model says %r" % (sub, sorted(found), exp), **ident))
        except Exception as e:  # noqa
            viols.append(common.viol("find_std_type_by_parameter raised %s: %s" % (type(e).__name__, str(e)[:200]), **ident))
    # rename
    n3 = "renamed " + n1
    raises(lambda: pp.rename_std_type(net, "no such type", n3, el), "rename_std_type of an unknown type")
    raises(lambda: pp.rename_std_type(net, n1, n2, el), "rename_std_type onto an existing name")
    check("rejected rename_std_type")
    before = net[el].copy(deep=True) if el != "fuse" else None
    try:
        pp.rename_std_type(net, n1, n3, el)
        model[el][n3] = model[el].pop(n1)
        check("rename_std_type")
        if pp.std_type_exists(net, n1, el):
            viols.append(common.viol("rename_std_type: old name still exists", **ident))
        if before is not None and len(before):
            exp_col = [n3 if v == n1 else v for v in before.std_type.values]
            same_rest = all(_same(before.at[r, cc], net[el].at[r, cc]) for r in before.index for cc in before.columns if cc != "std_type")
            if [v for v in net[el].std_type.values] != exp_col or not same_rest:
                viols.append(common.viol("rename_std_type: element table not renamed consistently: %r, expected %r" % (list(net[el].std_type.values), exp_col), **ident))
            tags.add("rename_with_elements")
    except Exception as e:  # noqa
        if isinstance(e, KeyError) and el not in net and e.args == (el,):
            # rename_std_type also rewrites net[element].std_type; there is no net.fuse table
            viols.append(common.viol("rename_std_type(element='fuse') raised %s: %s" % (type(e).__name__, e), mechanism="rename_std_type_needs_element_table", **ident))
            model[el][n3] = model[el].pop(n1)
            if not (n3 in net.std_types[el] and n1 not in net.std_types[el]):
                net.std_types[el][n3] = net.std_types[el].pop(n1)
        else:
            viols.append(common.viol("rename_std_type raised %s: %s" % (type(e).__name__, str(e)[:200]), **ident))
            return
    # delete
    pp.delete_std_type(net, n3, el)
    del model[el][n3]
    check("delete_std_type")
    if pp.std_type_exists(net, n3, el):
        viols.append(common.viol("delete_std_type: type still exists", **ident))
    raises(lambda: pp.load_std_type(net, n3, el), "load_std_type of a deleted type")
    raises(lambda: pp.delete_std_type(net, n3, el), "delete_std_type of a deleted type")
    check("rejected delete_std_type")
    if tdata != data0:
        viols.append(common.viol("library functions modified the caller's dict", **ident))


def _deq(a, b):
    if isinstance(a, dict) and isinstance(b, dict):
        return set(a) == set(b) and all(_deq(a[k], b[k]) for k in a)
    if type(a) is not type(b) and not (isinstance(a, (int, float)) and isinstance(b, (int, float))):
        return False
    return _same(a, b)


def run_case(seed, tier, case_no):
    g = netgen.G(seed)
    c = template()
    builtin = case_no < len(c["builtin"])
    if builtin:
        el, name = c["builtin"][case_no]
        tdata = c["net"].std_types[el][name]
    else:
        el = g.C(["line", "line", "line", "trafo", "trafo", "trafo", "trafo3w", "trafo3w", "fuse", "line_dc"])
        tdata = rnd_type(g, el)
        name = g.C(["rnd %s" % el, "123", "Tÿpe/1 x", "a" * 30])
    tdata_in = copy.deepcopy(tdata)
    tags = {"el:" + el, "builtin" if builtin else "random_type"}
    ex = {"builtin_types": int(builtin), "row_params_checked": 0, "calc_pairs": 0, "library_ops": 0, "changed_rows": 0}
    viols = []
    if el == "fuse":
        nontrivial = fuse_case(g, name, tdata_in, builtin, tags, ex, viols)
    else:
        nontrivial = element_case(g, el, name, tdata_in, builtin, tags, ex, viols)
    library_case(g, el, name, copy.deepcopy(tdata), tags, ex, viols)
    if builtin and not _deq(c["net"].std_types[el][name], tdata_in):
        viols.append(common.viol("built-in type data changed during the case", element=el, std_type=name))
    seen, out = set(), []
    for v in viols:       # one witness per (mechanism, first words)
        key = (v["mechanism"], v["what"][:40])
        if key not in seen:
            seen.add(key)
            v["witness"]["seed"] = seed
            out.append(v)
    digest = common.sha({"el": el, "name": name, "t": tdata, "seed": seed if not builtin else case_no})
    sample = {"element": el, "std_type": name, "builtin": builtin, "type_keys": sorted(tdata)}
    return common.case(digest, nontrivial=nontrivial, tags=tags, violations=out[:8], sample=sample,
                       evals=ex["row_params_checked"] + ex["calc_pairs"] + ex["library_ops"], extra=ex)
