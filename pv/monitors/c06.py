"""C06 - all power flow algorithms and back-ends agree on the solution (differential monitor)."""
import copy

import numpy as np
import pandapower as pp

from .. import common, pf
from ..gen import netgen
from ..oracles import balance, graph
from .c05 import scrub

PROPERTY = "C06"
READY = True
LEVEL = "exploration"
TECHNIQUE = "runtime monitoring: differential execution of every alternative solver configuration against the default Newton-Raphson run of the same tables; bfsw additionally judged on networks certified radial / weakly meshed by an independent graph model"
CASES = {"quick": 200, "thorough": 8000}
BUDGET = {"quick": 60, "thorough": 1200}
CONFIGS = ["iwamoto_nr", "bfsw", "gs", "fdbx", "fdxb", "lightsim2grid", "numba_off", "init_flat", "init_dc", "init_results"]
FLOORS = {"quick": {"nontrivial": 70, "tags": {("agree:" + c): 20 for c in CONFIGS if c not in ("lightsim2grid",)}, "extras": {"bfsw_certified": 60, "bfsw_core": 50, "bfsw_core_agree": 45},
                    "max_skip_frac": 0.4},
          "thorough": {"nontrivial": 3000, "tags": {("agree:" + c): 800 for c in CONFIGS if c not in ("lightsim2grid",)}, "max_skip_frac": 0.4}}
RULE = ("seeded random networks (dist_radial, weakly_meshed, multi_island, transmission); the default NR run is the reference; each of "
        "10 alternative configurations runs on a scrubbed copy; returned results must equal the reference (1e-5 p.u., flows "
        "1e-4*(1+|S|)); bfsw on nets certified radial/weakly meshed with exactly one slack per island must not fail; "
        "non-trivial = reference converged and >= 5 alternatives returned; distinct = digest of inputs")
ASSUMPTIONS = ["bfsw is judged completely only on its core domain (plain radial, one island, no gen / xward / trafo3w / impedance / open branch switch / impedance switch / phase-shifting tap); "
               "outside it the unchanged tree fails in many ways (known findings F6a-F6f): outcomes matched by a coded signature are reported, the rest is counted (bfsw_outside_core_unjudged)",
               "documented refusals (NotImplementedError) and LoadflowNotConverged of gs/fd/iwamoto are outcomes, not violations",
               "two differing results that both satisfy the nodal balance of the same tables are alternate roots (counted, not judged)",
               "gs / fdbx / fdxb are run with voltage_depend_loads=False (they ignore ZIP loads: known finding F1c of C01)"]


def config_kwargs(name):
    return {"iwamoto_nr": dict(algorithm="iwamoto_nr"), "bfsw": dict(algorithm="bfsw", max_iteration=200),
            "gs": dict(algorithm="gs", max_iteration=20000, voltage_depend_loads=False),
            "fdbx": dict(algorithm="fdbx", max_iteration=500, voltage_depend_loads=False),
            "fdxb": dict(algorithm="fdxb", max_iteration=500, voltage_depend_loads=False),
            "lightsim2grid": dict(lightsim2grid=True), "numba_off": dict(numba=False), "init_flat": dict(init="flat"), "init_dc": dict(init="dc"),
            "init_results": dict(init="results")}[name]


def certify_bfsw(net):
    """(ok, info): every energized island has exactly one slack bus group and at most 3 independent loops"""
    uf, isb = graph.energized_components(net)
    slack = [b for b in graph.slack_buses(net) if b in isb]
    comps = {}
    for b in isb:
        comps.setdefault(uf.find(b), set()).add(b)
    loops = 0
    for root, buses in comps.items():
        s = {b for b in slack if b in buses}
        if not s:
            continue
        fused = {tuple(g) for g in balance.fused_groups(net)}
        sg = {next(g for g in fused if b in g) for b in s}
        if len(sg) != 1:
            return False, "several slack buses in one island"
        # loops = edges - nodes + 1 over in-service closed branches of the island
        n_edges = 0
        for el, cols, et in (("line", ("from_bus", "to_bus"), "l"), ("trafo", ("hv_bus", "lv_bus"), "t"), ("impedance", ("from_bus", "to_bus"), None)):
            t = net[el][net[el].in_service.values] if len(net[el]) else net[el]
            for i, r in t.iterrows():
                a, c = int(r[cols[0]]), int(r[cols[1]])
                if a in buses and c in buses:
                    op = et is not None and len(net.switch) and ((net.switch.et == et) & (net.switch.element == i) & ~net.switch.closed).any()
                    n_edges += 0 if op else 1
        n_edges += sum(2 for _, r in net.trafo3w[net.trafo3w.in_service.values].iterrows() if int(r.hv_bus) in buses) if len(net.trafo3w) else 0
        if len(net.switch):
            sw = net.switch[(net.switch.et == "b") & net.switch.closed]
            n_edges += sum(1 for a, c in zip(sw.bus.values, sw.element.values) if a in buses and c in buses)
        n_nodes = len(buses) + (sum(1 for _, r in net.trafo3w[net.trafo3w.in_service.values].iterrows() if int(r.hv_bus) in buses) if len(net.trafo3w) else 0)
        loops = max(loops, n_edges - n_nodes + 1)
    return loops <= 3, {"loops": loops}


def compare(ref, alt, tol_v, tol_s):
    a, b = ref.res_bus, alt.res_bus
    if (np.isnan(a.vm_pu.values) != np.isnan(b.vm_pu.values)).any():
        return "NaN pattern of res_bus differs"
    if not a.vm_pu.notna().any():
        return None
    d = np.nanmax(np.abs(a.vm_pu.values - b.vm_pu.values))
    dva = np.nanmax(np.abs((a.va_degree.values - b.va_degree.values + 180) % 360 - 180))
    if d > tol_v or dva > 100 * tol_v:
        return "res_bus differs: max dvm %.3e p.u., max dva %.3e deg" % (d, dva)
    for el, cols in (("line", ["p_from_mw", "q_from_mvar", "p_to_mw"]), ("trafo", ["p_hv_mw", "q_hv_mvar"]), ("ext_grid", ["p_mw", "q_mvar"]),
                     ("gen", ["p_mw", "q_mvar"])):
        if len(ref[el]):
            x, y = ref["res_" + el][cols].values.astype(float), alt["res_" + el][cols].values.astype(float)
            bad = ~((np.abs(x - y) <= tol_s * (1 + np.abs(x))) | (np.isnan(x) & np.isnan(y)))
            if bad.any():
                r, c = np.argwhere(bad)[0]
                return "res_%s.%s[%s]: reference %.9g, alternative %.9g" % (el, cols[c], ref[el].index[r], x[r, c], y[r, c])
    return None


def _bfsw_signature(net, ref, alt, kw):
    """known bfsw defects that explain a disagreement with Newton-Raphson"""
    a, b = ref.res_bus, alt.res_bus
    dvm = np.nanmax(np.abs(a.vm_pu.values - b.vm_pu.values))
    dva = np.abs((a.va_degree.values - b.va_degree.values + 180) % 360 - 180)
    dva = dva[~np.isnan(dva)]
    if dvm < 1e-6 and dva.max() > 1 and np.all(np.abs(dva / 30. - np.round(dva / 30.)) < 1e-4):
        # only the reported bus angles are off: every branch flow must still agree
        for el, cols in (("line", ["p_from_mw", "q_from_mvar", "p_to_mw", "q_to_mvar"]), ("trafo", ["p_hv_mw", "q_hv_mvar", "p_lv_mw", "q_lv_mvar"]),
                         ("ext_grid", ["p_mw", "q_mvar"])):
            if len(ref[el]):
                x, y = ref["res_" + el][cols].values.astype(float), alt["res_" + el][cols].values.astype(float)
                if (~((np.abs(x - y) <= 2e-4 * (1 + np.abs(x))) | (np.isnan(x) & np.isnan(y)))).any():
                    return None
        return "bfsw_bus_angle_off_by_vector_group_shift"
    t = net.trafo[net.trafo.in_service.values] if len(net.trafo) else net.trafo
    if len(t):
        phase = ((t.tap_step_degree.fillna(0) != 0) | (t.tap_changer_type == "Ideal")) & (t.tap_pos.fillna(0) != t.tap_neutral.fillna(0))
        if phase.any():
            # counterfactual: without the phase-shifting taps both solvers agree
            n0 = scrub(net)
            n0.trafo["tap_step_degree"] = 0.
            n0.trafo.loc[n0.trafo.tap_changer_type == "Ideal", "tap_pos"] = n0.trafo.tap_neutral
            r0, a0 = scrub(n0), scrub(n0)
            k0 = {k: v for k, v in kw.items() if k not in ("algorithm", "max_iteration")}
            if pf.try_run(pp.runpp, r0, **k0)[0] == "ok" and pf.try_run(pp.runpp, a0, **kw)[0] == "ok" and compare(r0, a0, 2e-5, 2e-4) is None:
                return "bfsw_ignores_phase_shifting_tap"
    return None


def balanced(net):
    try:
        return max(abs(m) for _g, m, _s, _k, e in balance.nodal_mismatch(net)[0] if e) < 1e-5
    except Exception:  # noqa
        return False


def run_case(seed, tier, case_no):
    g = netgen.G(seed)
    profile = g.C(["dist_radial", "dist_radial", "dist_radial", "dist_radial", "dist_radial", "weakly_meshed", "multi_island", "transmission"])
    over = {"dcline": 0.0, "tabular": 0.2}
    if profile in ("dist_radial", "weakly_meshed"):
        over.update(second_eg=0.0, slack_gen=0.0, gen=0.3, n_gen=(1, 2))
    if profile == "dist_radial" and g.B(0.75):
        # plain radial feeder nets: the core domain of the bfsw clause
        over.update(gen=0.0, xward=0.0, trafo3w=0.0, open_sw=0.0, oos=0.0, ptap=0.0, z_sw=0.0, imp=0.0, tabular=0.0, co_slack=0.0)
    net = netgen.rnd_net(seed, profile, over)
    if g.B(0.5):
        # bus numbering that does not follow the feed direction
        from .c05 import t_relabel_buses
        t_relabel_buses(net, g)
    base = {"tolerance_mva": 1e-9}
    if g.B(0.5):
        base["calculate_voltage_angles"] = g.B(0.7)
    if g.B(0.4):
        base["trafo_model"] = g.C(["t", "pi"])
    if g.B(0.2):
        base["enforce_q_lims"] = True
    ref = scrub(net)
    st, exc = pf.try_run(pp.runpp, ref, **base)
    digest = common.net_digest(net, base)
    sample = {"profile": profile, "net": netgen.describe(net), "options": base}
    if st != "ok":
        return common.case(digest, nontrivial=False, skipped="reference_" + st, sample=sample)
    cert, info = certify_bfsw(net)
    uf_, isb_ = graph.energized_components(net)
    n_isl = len({uf_.find(b) for b in graph.slack_buses(net) if b in isb_})
    tr = net.trafo[net.trafo.in_service.values] if len(net.trafo) else net.trafo
    phase_tap = bool(len(tr) and (((tr.tap_step_degree.fillna(0) != 0) | (tr.tap_changer_type == "Ideal")) & (tr.tap_pos.fillna(0) != tr.tap_neutral.fillna(0))).any())
    # core domain of the bfsw clause: plain radial, one island, no PV-like elements, no trafo3w / open-ended branches / phase taps.
    # Outside it bfsw fails in many ways on the unchanged tree (findings F6a-F6f); those outcomes are only reported when a coded
    # signature explains them and are otherwise counted as unjudged.
    core = bool(cert and isinstance(info, dict) and info["loops"] == 0 and n_isl == 1 and not phase_tap
                and not (len(net.gen) and net.gen.in_service.any()) and not (len(net.xward) and net.xward.in_service.any())
                and not (len(net.trafo3w) and net.trafo3w.in_service.any()) and not len(net.impedance)
                and not (len(net.switch) and (~net.switch.closed & (net.switch.et != "b")).any())
                and not (len(net.switch) and ((net.switch.et == "b") & net.switch.closed & (net.switch.z_ohm > 0)).any()))
    unjudged = 0
    tags, viols, returned, alt_roots = set(), [], 0, 0
    outcomes = {}
    for name in CONFIGS:
        kw = dict(base)
        kw.update(config_kwargs(name))
        if name == "init_results":
            n2 = copy.deepcopy(ref)       # previous results of the same state
        else:
            n2 = scrub(net)
        refn = ref
        if kw.get("voltage_depend_loads") is False and len(net.load) and (net.load[["const_z_p_percent", "const_i_p_percent", "const_z_q_percent",
                                                                                    "const_i_q_percent"]].values != 0).any():
            refn = scrub(net)
            if pf.try_run(pp.runpp, refn, **dict(base, voltage_depend_loads=False))[0] != "ok":
                continue
        st2, e2 = pf.try_run(pp.runpp, n2, **kw)
        outcomes[name] = st2
        if st2 == "ok":
            returned += 1
            loose = name in ("gs", "fdbx", "fdxb", "bfsw")
            msg = compare(refn, n2, 2e-5 if loose else 1e-6, 2e-4 if loose else 1e-5)
            if msg and balanced(n2) and balanced(refn):
                alt_roots += 1
                msg = None
            mech = None
            if msg and name == "bfsw":
                mech = _bfsw_signature(net, refn, n2, kw)
            if msg and msg.startswith("Sorry"):
                msg = None
            if msg and name == "bfsw" and mech is None and not core:
                unjudged += 1
                msg = None
            if msg:
                viols.append(common.viol("%s returned but disagrees with Newton-Raphson: %s" % (name, msg), mechanism=mech, options=kw, config=name))
            else:
                tags.add("agree:" + name)
        elif st2.startswith("refused") or st2 == "notconv" or (st2 == "error:ValueError" and str(e2).startswith("Sorry, pandapower cannot")):
            if name == "bfsw" and cert and st2 == "notconv":
                # bfsw treats PV buses (gens, xward internal sources) and the trafo3w star equivalent by an outer compensation
                # loop that frequently does not converge
                pv_like = bool((len(net.gen) and net.gen.in_service.any()) or (len(net.xward) and net.xward.in_service.any())
                               or (len(net.trafo3w) and net.trafo3w.in_service.any()))
                if pv_like or core:
                    viols.append(common.viol("bfsw did not converge on a certified radial / weakly meshed net that Newton-Raphson solves (%s)" % info,
                                             mechanism="bfsw_notconv_with_pv_or_trafo3w" if pv_like else None, options=kw, config=name))
                else:
                    unjudged += 1
            tags.add("%s:%s" % (st2.split(":")[0], name))
        else:
            mech = None
            if name == "bfsw":
                two_gens = bool(len(net.gen) and net.gen[net.gen.in_service].bus.duplicated().any())
                open_sw = bool(len(net.switch) and (~net.switch.closed & (net.switch.et != "b")).any())
                t3 = bool(len(net.trafo3w) and net.trafo3w.in_service.any())
                if st2 == "error:LinAlgError" and isinstance(info, dict) and (info.get("loops", 0) >= 1 or t3 or open_sw):
                    mech = "bfsw_linalgerror_with_loop"
                elif st2 == "error:ValueError" and two_gens:
                    mech = "bfsw_valueerror_two_gens_one_bus"
                elif st2 == "error:ValueError" and "negative axis" in str(e2):
                    uf, isb = graph.energized_components(net)
                    if len({uf.find(b) for b in graph.slack_buses(net) if b in isb}) >= 2:
                        mech = "bfsw_valueerror_several_islands"
            if name == "bfsw" and mech is None and not core:
                unjudged += 1
            elif name != "bfsw" or cert or mech:
                viols.append(common.viol("%s failed with an internal error %s: %r" % (name, st2, e2), mechanism=mech, options=kw, config=name,
                                         certified=bool(cert), info=info))
            tags.add("error:" + name)
    sample["outcomes"] = outcomes
    return common.case(digest, nontrivial=returned >= 5, tags=tags | {"profile:" + profile}, violations=viols[:5], sample=sample, evals=len(outcomes),
                       extra={"bfsw_certified": int(bool(cert)), "bfsw_core": int(core), "bfsw_core_agree": int(core and "agree:bfsw" in tags),
                              "bfsw_outside_core_unjudged": unjudged, "alternate_root": alt_roots, "returned": returned})
