"""C14 - run_contingency reports the true extremes over all N-1 cases, N-0 values, causes, causes_overloading, and
restores every in_service flag.  Re-execution model: an own N-1 loop on scrubbed copies."""
import copy

import numpy as np
import pandapower as pp
from pandapower.contingency import run_contingency

from .. import common
from ..gen import netgen
from ..oracles import nminus1 as nm
from ..probe import snapshot

PROPERTY = "C14"
READY = True
LEVEL = "exploration"
TECHNIQUE = "runtime monitoring: run_contingency's returned dict and result tables against an own N-1 loop on scrubbed copies"
CASES = {"quick": 400, "thorough": 12000}
BUDGET = {"quick": 60, "thorough": 1500}
FLOORS = {"quick": {"nontrivial": 150, "max_skip_frac": 0.3,
                    "tags": {"own_outage_first": 80, "unsolved_case": 10, "islanding_case": 40, "overloading_case": 80,
                             "trafo_cases": 60, "trafo3w_cases": 20, "oos_element_in_case_list": 20, "nminus1_limit_column": 30},
                    "extras": {"n1_cases": 1200, "cause_checked": 3000, "overload_flags_checked": 1500}},
          "thorough": {"nontrivial": 5000, "max_skip_frac": 0.3,
                       "tags": {"own_outage_first": 2000, "unsolved_case": 300, "trafo3w_cases": 500},
                       "extras": {"n1_cases": 60000, "cause_checked": 100000}}}
RULE = ("one case = one meshed network (netgen transmission / weakly_meshed / full_mix, perturbed pandapower.networks cases) "
        "with seeded ratings and limits x a random N-1 case dict over line / trafo / trafo3w (random subsets, permuted, random "
        "type order, with probability 1/2 an element's own outage first and the outage producing its maximum second) x random "
        "power flow options for N-0 and N-1; non-trivial = >= 2 N-1 cases solved and some branch maximum differs from N-0; "
        "distinct = digest of net + case dict + options")
ASSUMPTIONS = ["reference power flows run on deep copies with the same options; agreement bounds 1e-6 % loading, 1e-8 pu",
               "extremes of elements that are out of service in the base network are not judged (documented as in-service only)",
               "causes_overloading flags are not judged when a loading lies within 1e-6 % of its limit",
               "a reported cause is accepted if that outage's loading of the element is within 1e-6 % of the reported maximum"]

TOL = {"bus": 1e-8, "line": 1e-6, "trafo": 1e-6, "trafo3w": 1e-6}


def _neq(a, b, tol):
    a, b = np.asarray(a, dtype=float), np.asarray(b, dtype=float)
    with np.errstate(invalid="ignore"):
        return ~((np.abs(a - b) <= tol) | (np.isnan(a) & np.isnan(b)))


def rnd_options(g):
    kw = {}
    if g.B(0.3):
        kw["calculate_voltage_angles"] = g.B(0.7)
    if g.B(0.15):
        kw["numba"] = False
    kw0 = kw1 = None
    if g.B(0.25):
        kw1 = {"trafo_loading": g.C(["current", "power"])}
        if g.B(0.5):
            kw1["max_iteration"] = g.C([4, 6, 30])
    if g.B(0.15):
        kw0 = {"trafo_model": g.C(["t", "pi"])}
    return kw, kw0, kw1


def order_cases(net, g, cases, per, ext):
    """with probability 1/2: own outage of a random case element first, the case producing its maximum second"""
    if not g.B(0.5):
        return cases, None
    cand = [(el, i) for el, i in nm.flat(cases) if per.get((el, i)) is not None]
    if not cand:
        return cases, None
    el, i = cand[g.I(0, len(cand) - 1)]
    pos = int(np.flatnonzero(net[el].index.values == i)[0])
    best, bv = None, -np.inf
    for case, ok in ext[el][2].items():
        if ok[pos] and per[case][el][pos] > bv:
            best, bv = case, per[case][el][pos]
    lst = [i] + [j for j in cases[el] if j != i]
    if best is not None and best[0] == el:
        lst = [i, best[1]] + [j for j in cases[el] if j not in (i, best[1])]
    new = {el: lst}
    new.update({k: v for k, v in cases.items() if k != el})
    return new, (el, i)


def defect_model_cause(net, el, per, order, fixed=False):
    """replays contingency._update_contingency_results for one element table: cause per row (None = never assigned).
    fixed=True replaces the comparison against a NaN running maximum by 'first valid value wins'"""
    n = len(net[el])
    cause = [None] * n
    ins = net[el].in_service.values.astype(bool)
    M = None
    for case in order:
        res = per.get(case)
        if res is None:
            continue
        val = res[el]
        ok = ins & ~np.isnan(val)
        if case[0] == el:
            ok = ok & (net[el].index.values != case[1])
        cur = np.full(n, -1.0) if M is None else M
        with np.errstate(invalid="ignore"):
            mask = (val > cur) | (np.isnan(cur) & ok) if fixed else (val > cur)
        if fixed:
            mask &= ok
        for p in np.flatnonzero(mask):
            cause[p] = case
        if M is None:
            M = np.full(n, np.nan)
        M = np.where(ok, np.fmax(M, val), M)
    return cause


def check(net, before, cases, kw, kw0, kw1, res, n0, per, write_to_net=True):
    """returns (violations, counters, tags)"""
    viols, cnt, tags = [], {"cause_checked": 0, "overload_flags_checked": 0, "extreme_cells": 0}, set()
    ext = nm.extremes(before, per)
    order = [c for c in nm.flat(cases) if bool(before[c[0]].at[c[1], "in_service"])]
    solved = [c for c in order if per.get(c) is not None]
    # every in_service flag restored (and nothing else in the input tables touched)
    d = snapshot.diff(snapshot.snapshot(before), net)
    d = [x for x in d if ".in_service" in x] or d
    if d:
        viols.append(common.viol("input tables changed by run_contingency: %s" % d[:3], changed=d[:6]))
    for el, var in nm.VARS.items():
        if not len(before[el]):
            continue
        if el not in res:
            viols.append(common.viol("no results returned for %s" % el))
            continue
        r = res[el]
        if not np.array_equal(r["index"], before[el].index.values):
            viols.append(common.viol("%s: returned index differs from the element index" % el))
            continue
        ins = before[el].in_service.values.astype(bool)
        # N-0
        bad = _neq(r.get(var, np.full(len(ins), np.inf)), n0[el], TOL[el])
        if bad.any():
            p = int(np.flatnonzero(bad)[0])
            viols.append(common.viol("%s.%s (N-0) of %s %s is %r, a plain power flow gives %r" % (
                el, var, el, before[el].index[p], float(r[var][p]) if var in r else None, float(n0[el][p])), element=el, kind="n0"))
        if not solved:
            continue
        mx, mn, valid = ext[el]
        for key, e in (("max_" + var, mx), ("min_" + var, mn)):
            if key not in r:
                viols.append(common.viol("%s: key %s missing although %d N-1 cases solved" % (el, key, len(solved)), element=el))
                continue
            bad = _neq(r[key], e, TOL[el]) & ins
            cnt["extreme_cells"] += int(ins.sum())
            if bad.any():
                p = int(np.flatnonzero(bad)[0])
                viols.append(common.viol("%s.%s of %s %s is %r, the own N-1 loop over %d solved cases gives %r (%d rows differ)" % (
                    el, key, el, before[el].index[p], float(r[key][p]), len(solved), float(e[p]), int(bad.sum())),
                    element=el, kind="extreme", key=key))
        if el == "bus":
            continue
        # causes
        wrong = []
        for p in np.flatnonzero(ins & ~np.isnan(mx)):
            cnt["cause_checked"] += 1
            ce, ci = r["cause_element"][p], r["cause_index"][p]
            case = (ce, int(ci)) if isinstance(ce, str) else None
            okc = case in valid and bool(valid[case][p]) and abs(per[case][el][p] - mx[p]) <= TOL[el]
            if not okc:
                wrong.append((int(p), case, ce, int(ci)))
        if wrong:
            pred = defect_model_cause(before, el, per, order)
            fixed = defect_model_cause(before, el, per, order, fixed=True)
            explained = all((pred[p] == case if pred[p] is not None else ce is None) and fixed[p] in valid and
                            abs(per[fixed[p]][el][p] - mx[p]) <= TOL[el] for p, case, ce, ci in wrong)
            p, case, ce, ci = wrong[0]
            viols.append(common.viol(
                "cause of max_loading_percent of %s %s reported as (%r, %r); that outage %s; maximum %.4f %% is produced by %s "
                "(%d rows wrong; case order %s)" % (
                    el, before[el].index[p], ce, ci,
                    "is not a solved case valid for this element" if case not in valid or not valid[case][p]
                    else "gives %.4f %%" % per[case][el][p], mx[p], fixed[p], len(wrong), order[:6]),
                mechanism="cause_not_set_while_running_max_is_nan" if explained else None, element=el, kind="cause",
                rows=[w[0] for w in wrong[:8]]))
        # causes_overloading
        ov = nm.overloading(before, per)
        exp = np.zeros(len(ins), dtype=bool)
        judge = np.ones(len(ins), dtype=bool)
        for (ce, ci), flag in ov.items():
            if ce == el:
                p = int(np.flatnonzero(before[el].index.values == ci)[0])
                exp[p] = bool(flag)
                judge[p] = flag is not None
        got = np.asarray(r["causes_overloading"], dtype=bool)
        cnt["overload_flags_checked"] += int(judge.sum())
        bad = (got != exp) & judge
        if bad.any():
            p = int(np.flatnonzero(bad)[0])
            viols.append(common.viol("causes_overloading of %s %s is %s, the own N-1 loop says %s (%d rows differ)" % (
                el, before[el].index[p], bool(got[p]), bool(exp[p]), int(bad.sum())), element=el, kind="causes_overloading"))
        if exp.any():
            tags.add("overloading_case")
    # result tables carry the returned values
    if write_to_net:
        for el, r in res.items():
            tab = net["res_" + el]
            for key, val in r.items():
                if key == "index":
                    continue
                if key not in tab.columns:
                    viols.append(common.viol("res_%s has no column %s" % (el, key), kind="write_to_net"))
                    continue
                col = tab[key].values
                if val.dtype == object or col.dtype == object:
                    same = all((a == b) or (a is None and (b is None or b != b)) for a, b in zip(val, col))
                elif key == "cause_index":
                    okrows = np.array([isinstance(x, str) for x in r["cause_element"]])
                    same = np.array_equal(np.asarray(col)[okrows], val[okrows])
                else:
                    same = not _neq(col, val, 0).any()
                if not same:
                    viols.append(common.viol("res_%s.%s differs from the returned dict" % (el, key), kind="write_to_net"))
    return viols, cnt, tags


def run_case(seed, tier, case_no):
    g = netgen.G(seed)
    net, profile = nm.make_net(seed, g, tier)
    st = nm.set_limits(net, g)
    tags = {"profile:" + profile.split(":")[0]}
    sample = {"profile": profile, "net": netgen.describe(net)}
    if st != "ok":
        return common.case(common.net_digest(net), nontrivial=False, tags=tags, skipped="base_" + st, sample=sample)
    cases = nm.gen_cases(net, g, 12 if tier == "quick" else g.C([8, 16, 30]))
    kw, kw0, kw1 = rnd_options(g)
    before = copy.deepcopy(net)
    n0, per = nm.reference(before, cases, {**(kw0 or {}), **kw}, {**(kw1 or {}), **kw})
    ext = nm.extremes(before, per)
    cases, forced = order_cases(before, g, cases, per, ext)
    write_to_net = not g.B(0.15)
    sample.update({"cases": cases, "kwargs": kw, "pf_options": kw0, "pf_options_nminus1": kw1, "own_outage_first": forced})
    digest = common.net_digest(net, {"c": cases, "o": [kw, kw0, kw1]})
    if n0 is None:
        return common.case(digest, nontrivial=False, tags=tags, skipped="n0_not_solved", sample=sample)
    solved = [c for c, r in per.items() if r is not None]
    if forced:
        tags.add("own_outage_first")
    if any(r is None for r in per.values()):
        tags.add("unsolved_case")
    if any(r is not None and np.isnan(r["bus"][before.bus.in_service.values & ~np.isnan(n0["bus"])]).any() for r in per.values()):
        tags.add("islanding_case")
    for el in ("trafo", "trafo3w"):
        if cases.get(el):
            tags.add(el + "_cases")
    if any(not bool(before[el].at[i, "in_service"]) for el, i in nm.flat(cases)):
        tags.add("oos_element_in_case_list")
    if any("max_loading_percent_nminus1" in before[el].columns for el in nm.BRANCH):
        tags.add("nminus1_limit_column")
    try:
        res = run_contingency(net, {el: {"index": list(v)} for el, v in cases.items()}, pf_options=kw0, pf_options_nminus1=kw1, write_to_net=write_to_net, **kw)
    except Exception as e:  # noqa - observation
        v = common.viol("run_contingency raised %s(%s) although the N-0 power flow solves" % (type(e).__name__, str(e)[:100]),
                        exception=type(e).__name__, seed=seed)
        return common.case(digest, nontrivial=True, tags=tags | {"raised"}, violations=[v], sample=sample)
    viols, cnt, t2 = check(net, before, cases, kw, kw0, kw1, res, n0, per, write_to_net)
    for v in viols:
        v["witness"]["seed"] = seed
    nontrivial = len(solved) >= 2 and any(
        el in ext and np.nanmax(np.abs(ext[el][0] - n0[el]), initial=0.) > 1e-3 for el in nm.BRANCH)
    cnt["n1_cases"] = len(per)
    cnt["n1_solved"] = len(solved)
    return common.case(digest, nontrivial=nontrivial, tags=tags | t2, violations=viols, sample=sample, evals=len(per) + 1, extra=cnt)
