"""C04 - set-points and element response laws (post-condition evaluated at the return of every converged power flow)."""
import numpy as np
import pandapower as pp

from .. import common, pf
from ..gen import netgen
from ..oracles import balance

PROPERTY = "C04"
READY = True
LEVEL = "exploration"
TECHNIQUE = "runtime monitoring: post-condition (voltage set-points, q-limits, p*scaling, ZIP / shunt / motor / ward laws) evaluated on the result tables of every converged power flow of a seeded random workload"
CASES = {"quick": 900, "thorough": 40000}
BUDGET = {"quick": 60, "thorough": 1200}
FLOORS = {"quick": {"nontrivial": 200, "extras": {"ext_grid_vm": 300, "gen_setpoint_held": 150, "gen_limit_binding": 15, "zip_law": 300,
                                                  "shunt_law": 100, "shunt_foreign_vn": 20, "pq_setpoint": 2000, "motor_law": 50,
                                                  "ward_law": 80, "oos_zero": 100},
                    "tags": {"enforce_q_lims": 100, "two_gens_one_bus": 30}, "max_skip_frac": 0.4},
          "thorough": {"nontrivial": 8000, "extras": {"gen_limit_binding": 500, "zip_law": 10000}, "max_skip_frac": 0.4}}
RULE = ("seeded random networks (transmission / full_mix / weakly_meshed profiles: several gens per bus, tight and loose q-limits, "
        "scaling, ZIP loads, shunts with foreign vn and steps) x runpp options (enforce_q_lims, voltage_depend_loads on/off ...); "
        "every element row of a converged run is one oracle evaluation; non-trivial = converged and >= 10 rows judged")
ASSUMPTIONS = ["tolerances: vm 1e-7 p.u. (NR with tolerance_mva=1e-8), va 1e-6 deg, powers 1e-8 + 1e-9*|S|, q-limit 1e-6 Mvar",
               "the ext_grid angle clause is not applied to distributed_slack runs (one angle reference per island; the shares are C10's subject)",
               "slack gens, gens sharing a bus with an ext_grid and participants of distributed slack are exempt from the P set-point clause",
               "gs/fdbx/fdxb runs are judged with 2e-5 tolerances and are exempt from the ZIP law (known finding F1c of C01)"]


def _near(a, b, tol):
    return np.abs(np.asarray(a, float) - np.asarray(b, float)) <= tol


def check_setpoints(net, opts, cnt):
    viols = []
    alg = opts.get("algorithm", "nr")
    loose = alg not in ("nr", "iwamoto_nr")
    tv = 2e-5 if loose else 1e-7
    tp = 2e-5 if loose else 1e-8
    rb = net.res_bus
    vm, va = rb.vm_pu, rb.va_degree
    ds = bool(opts.get("distributed_slack"))
    qlim = bool(opts.get("enforce_q_lims"))
    vdl = bool(opts.get("voltage_depend_loads", True))
    # domain of the angle clause: "when angles are calculated" - read the effective option of this run
    angles = bool(net._options.get("calculate_voltage_angles", False))
    if ds:
        # with distributed slack only one angle reference exists per island (C10 fixes the power shares instead)
        angles = False

    def V(rule, what, **w):
        viols.append(common.viol("%s: %s" % (rule, what), options=opts, **w))

    # ---- ext_grid
    eg = net.ext_grid[net.ext_grid.in_service & net.bus.in_service.reindex(net.ext_grid.bus).values]
    for i, r in eg.iterrows():
        cnt["ext_grid_vm"] += 1
        if not _near(vm.at[r.bus], r.vm_pu, tv):
            V("ext_grid set-point", "ext_grid %s bus %s vm_pu=%.9f table %.9f" % (i, r.bus, vm.at[r.bus], r.vm_pu))
        if angles and not _near((va.at[r.bus] - r.va_degree + 180) % 360 - 180, 0, 1e-6):
            V("ext_grid angle", "ext_grid %s bus %s va=%.8f table %.8f" % (i, r.bus, va.at[r.bus], r.va_degree))
    eg_buses = set(eg.bus.values)
    # ---- gens
    g = net.gen
    if len(g):
        rg = net.res_gen
        sup = vm.reindex(g.bus).notna().values & g.in_service.values
        groups = {}
        for grp in balance.fused_groups(net):
            for b in grp:
                groups[b] = tuple(grp)
        by_group = {}
        for i in g.index[sup]:
            by_group.setdefault(groups[g.bus.at[i]], []).append(i)
        for grp, idx in by_group.items():
            has_ref = bool(set(grp) & eg_buses) or bool(g.slack.loc[idx].any())
            vset = g.vm_pu.loc[idx].values
            vbus = vm.loc[list(grp)].dropna().values
            q = rg.q_mvar.loc[idx].values
            qmin = g.min_q_mvar.loc[idx].values.astype(float)
            qmax = g.max_q_mvar.loc[idx].values.astype(float)
            held = bool(_near(vbus[0], vset, tv).all())
            if not qlim or has_ref:
                if not has_ref or len(set(np.round(vset, 12))) == 1:
                    cnt["gen_setpoint_held"] += 1
                    if not held:
                        V("gen voltage set-point", "gens %s at buses %s: vm=%.9f set-points %s (enforce_q_lims=%s)" % (idx, grp, vbus[0], vset, qlim))
            else:
                # limits enforced: nobody outside the limits, and either the set-point is held or every gen of the bus is at a limit
                over = (q > np.where(np.isnan(qmax), np.inf, qmax) + 1e-6) | (q < np.where(np.isnan(qmin), -np.inf, qmin) - 1e-6)
                if over.any():
                    V("gen q-limit exceeded", "gens %s q=%s limits [%s, %s]" % (idx, q, qmin, qmax))
                if held:
                    cnt["gen_setpoint_held"] += 1
                else:
                    at_max = _near(q, qmax, 1e-6)
                    at_min = _near(q, qmin, 1e-6)
                    if (at_max | at_min).all():
                        cnt["gen_limit_binding"] += 1
                        # direction: at Qmax the voltage can only be below the set-point, at Qmin above
                        dv = vbus[0] - vset[0]
                        if (at_max.all() and dv > tv) or (at_min.all() and dv < -tv):
                            V("gen at q-limit although the limit is not binding",
                              "gens %s at %s: q=%s at %s limit but vm-vset=%+.3e" % (idx, grp, q, "max" if at_max.all() else "min", dv),
                              mechanism_hint="qlim_no_backswitching")
                    else:
                        V("gen voltage set-point not held although a limit is not binding",
                          "gens %s at %s: vm=%.9f set %s q=%s limits [%s, %s]" % (idx, grp, vbus[0], vset, q, qmin, qmax))
        # P set-point of non-slack gens
        for i in g.index[sup]:
            if g.slack.at[i] or g.bus.at[i] in eg_buses:
                continue
            if ds and g.slack_weight.at[i] != 0:
                continue
            cnt["pq_setpoint"] += 1
            exp = g.p_mw.at[i] * g.scaling.at[i]
            if not _near(rg.p_mw.at[i], exp, tp + 1e-9 * abs(exp)):
                V("gen p set-point", "gen %s p_mw=%.9f expected p*scaling=%.9f" % (i, rg.p_mw.at[i], exp))
        oos = g.index[~g.in_service.values]
        for i in oos:
            cnt["oos_zero"] += 1
            if not (_near(rg.p_mw.at[i], 0, 0) and _near(np.nan_to_num(rg.q_mvar.at[i]), 0, 0)):
                V("out-of-service gen", "gen %s reports p=%s q=%s" % (i, rg.p_mw.at[i], rg.q_mvar.at[i]))
    # ---- sgen / storage / load: p*scaling (q*scaling)
    for el in ("sgen", "storage", "load"):
        t = net[el]
        if not len(t):
            continue
        r = net["res_" + el]
        v = vm.reindex(t.bus).values
        sup = ~np.isnan(v) & t.in_service.values
        p0 = t.p_mw.values * t.scaling.values
        q0 = t.q_mvar.values * t.scaling.values
        if el == "load" and vdl:
            if loose:
                zip_rows = (t[["const_z_p_percent", "const_i_p_percent", "const_z_q_percent", "const_i_q_percent"]].values != 0).any(axis=1)
                sup = sup & ~zip_rows  # exempt: known finding F1c (C01)
            fp = 1 + (t.const_i_p_percent.values * (v - 1) + t.const_z_p_percent.values * (v ** 2 - 1)) / 100.
            fq = 1 + (t.const_i_q_percent.values * (v - 1) + t.const_z_q_percent.values * (v ** 2 - 1)) / 100.
            p0, q0 = p0 * fp, q0 * fq
            cnt["zip_law"] += int((sup & ((fp != 1) | (fq != 1))).sum())
        if ds and "slack_weight" in t:
            sup = sup & (np.nan_to_num(t.slack_weight.values) == 0)
        cnt["pq_setpoint"] += int(sup.sum())
        bad = sup & ~(_near(r.p_mw.values, p0, tp + 1e-9 * np.abs(p0)) & _near(r.q_mvar.values, q0, tp + 1e-9 * np.abs(q0)))
        if bad.any():
            i = int(np.flatnonzero(bad)[0])
            V("%s response law" % el, "%s %s reports p=%.9f q=%.9f expected %.9f %.9f (vm=%.6f)" % (
                el, t.index[i], r.p_mw.values[i], r.q_mvar.values[i], p0[i], q0[i], v[i]))
        oos = ~t.in_service.values
        cnt["oos_zero"] += int(oos.sum())
        if (oos & ((np.nan_to_num(r.p_mw.values) != 0) | (np.nan_to_num(r.q_mvar.values) != 0))).any():
            V("out-of-service %s" % el, "reports non-zero power")
    # ---- motor
    t = net.motor
    if len(t):
        r = net.res_motor
        v = vm.reindex(t.bus).values
        sup = ~np.isnan(v) & t.in_service.values
        p0 = t.pn_mech_mw.values / (t.efficiency_percent.values / 100.) * (t.loading_percent.values / 100.) * t.scaling.values
        q0 = p0 * np.tan(np.arccos(t.cos_phi.values))
        cnt["motor_law"] += int(sup.sum())
        bad = sup & ~(_near(r.p_mw.values, p0, tp + 1e-9 * np.abs(p0)) & _near(r.q_mvar.values, q0, tp + 1e-8 * np.abs(q0)))
        if bad.any():
            i = int(np.flatnonzero(bad)[0])
            V("motor law", "motor %s reports p=%.9f q=%.9f expected %.9f %.9f" % (t.index[i], r.p_mw.values[i], r.q_mvar.values[i], p0[i], q0[i]))
    # ---- shunt: step * p * (v * vn_bus / vn_shunt)^2
    t = net.shunt
    if len(t):
        r = net.res_shunt
        v = vm.reindex(t.bus).values
        sup = ~np.isnan(v) & t.in_service.values
        ratio = (v * net.bus.vn_kv.reindex(t.bus).values / t.vn_kv.values) ** 2
        p0 = t.step.values * t.p_mw.values * ratio
        q0 = t.step.values * t.q_mvar.values * ratio
        cnt["shunt_law"] += int(sup.sum())
        cnt["shunt_foreign_vn"] += int((sup & (net.bus.vn_kv.reindex(t.bus).values != t.vn_kv.values) & (t.step.values > 0)).sum())
        bad = sup & ~(_near(r.p_mw.values, p0, tp + 1e-9 * np.abs(p0)) & _near(r.q_mvar.values, q0, tp + 1e-9 * np.abs(q0)))
        if bad.any():
            i = int(np.flatnonzero(bad)[0])
            V("shunt law", "shunt %s reports p=%.9f q=%.9f expected %.9f %.9f (vm=%.6f step=%s)" % (
                t.index[i], r.p_mw.values[i], r.q_mvar.values[i], p0[i], q0[i], v[i], t.step.values[i]))
    # ---- ward: ps + pz * v^2
    t = net.ward
    if len(t):
        r = net.res_ward
        v = vm.reindex(t.bus).values
        sup = ~np.isnan(v) & t.in_service.values
        p0 = t.ps_mw.values + t.pz_mw.values * v ** 2
        q0 = t.qs_mvar.values + t.qz_mvar.values * v ** 2
        cnt["ward_law"] += int(sup.sum())
        bad = sup & ~(_near(r.p_mw.values, p0, tp + 1e-9 * np.abs(p0)) & _near(r.q_mvar.values, q0, tp + 1e-9 * np.abs(q0)))
        if bad.any():
            i = int(np.flatnonzero(bad)[0])
            V("ward law", "ward %s reports p=%.9f q=%.9f expected %.9f %.9f" % (t.index[i], r.p_mw.values[i], r.q_mvar.values[i], p0[i], q0[i]))
    return viols


COUNTERS = ["ext_grid_vm", "gen_setpoint_held", "gen_limit_binding", "zip_law", "shunt_law", "shunt_foreign_vn", "pq_setpoint",
            "motor_law", "ward_law", "oos_zero"]


def run_case(seed, tier, case_no):
    g = netgen.G(seed)
    profile = g.C(["transmission", "transmission", "full_mix", "weakly_meshed"])
    over = {"n_gen": (2, 4), "gen": 1.0, "oos": 0.08, "dcline": 0.0}
    net = netgen.rnd_net(seed, profile, over)
    # tighten some q-limits so that enforce_q_lims has binding cases
    if len(net.gen) and g.B(0.7):
        for i in net.gen.index:
            if g.B(0.5):
                s = abs(net.gen.p_mw.at[i]) + 0.1
                net.gen.at[i, "max_q_mvar"] = g.R(0.01, 0.3) * s
                net.gen.at[i, "min_q_mvar"] = -g.R(0.01, 0.3) * s
    opts = pf.rnd_pf_options(g, net)
    if g.B(0.35):
        opts["enforce_q_lims"] = True
        opts.pop("distributed_slack", None)
    opts.setdefault("tolerance_mva", 1e-8)
    status, exc = pf.try_run(pp.runpp, net, **opts)
    digest = common.net_digest(net, {"o": opts})
    sample = {"profile": profile, "net": netgen.describe(net), "options": opts}
    tags = {"profile:" + profile}
    for k in ("enforce_q_lims", "distributed_slack"):
        if opts.get(k):
            tags.add(k)
    if "voltage_depend_loads" in opts:
        tags.add("vdl=%s" % opts["voltage_depend_loads"])
    if "algorithm" in opts:
        tags.add("algorithm=" + opts["algorithm"])
    if len(net.gen) and net.gen[net.gen.in_service].bus.duplicated().any():
        tags.add("two_gens_one_bus")
    if status != "ok":
        return common.case(digest, nontrivial=False, tags=tags, skipped=status, sample=sample)
    cnt = {k: 0 for k in COUNTERS}
    viols = check_setpoints(net, opts, cnt)
    for v in viols:
        if v["witness"].get("mechanism_hint") == "qlim_no_backswitching":
            v["mechanism"] = "qlim_no_backswitching"
    n = sum(cnt.values())
    return common.case(digest, nontrivial=n >= 10, tags=tags, violations=viols, sample=sample, evals=max(n, 1), extra=cnt)
