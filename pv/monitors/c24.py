"""C24 - creating elements in batch equals creating them one by one (differential monitor over all create pairs)."""
import copy
import inspect

import numpy as np
import pandas as pd
import pandapower as pp

from .. import common
from ..gen import netgen

PROPERTY = "C24"
READY = True
LEVEL = "exploration"
TECHNIQUE = ("runtime monitoring: differential execution of every batch create function against the sequence of its single "
             "counterpart on an identically prepared network (created rows, their index and the accept/reject decision compared)")
CASES = {"quick": 6000, "thorough": 200000}
BUDGET = {"quick": 60, "thorough": 1500}
CASE_TIMEOUT = 60
_FAMS = ["bus", "bus_dc", "line", "line_fp", "line_dc", "line_dc_fp", "trafo", "trafo_fp", "trafo3w", "trafo3w_fp", "load", "sgen", "gen",
         "storage", "shunt", "ward", "switch", "impedance", "poly_cost", "pwl_cost"]
_QT = {"both_accept": 1500, "both_reject": 700, "both_reject:bad_node": 300, "both_reject:dup_index_existing": 100,
       "both_reject:dup_index_within": 150, "scen:dup_cost_existing": 40, "scen:dup_cost_within": 15, "scen:bad_element": 10,
       "scen:not_connected": 10, "std_with_shift": 120, "std_with_tap_changer": 200, "std_with_tap_step_degree": 40,
       "std_with_zero_sequence": 80, "user_std_type": 250, "std_type_list": 80, "arg:tap_pos": 200, "arg:tap2_pos": 30, "arg:parallel": 300,
       "arg:df": 300, "arg:zip_percent": 100, "arg:controllable": 150, "arg:max_p_mw": 100, "arg:slack": 40, "arg:slack_weight": 40,
       "scalar_broadcast": 2000, "vector_arg": 2000, "partly_nan_vector": 400, "numpy_vectors": 600, "pre_rows": 1200,
       "explicit_index": 800, "existing_poly_cost": 150, "existing_pwl_cost": 150, "cost_et_list": 120, "cost_et_scalar": 80,
       "kwargs_column": 250}
_QT.update({"fam:" + f: 120 for f in _FAMS})
FLOORS = {"quick": {"nontrivial": 2500, "tags": _QT, "extras": {"cells": 70000}, "max_skip_frac": 0.1},
          "thorough": {"nontrivial": 80000, "tags": {k: 25 * v for k, v in _QT.items()}, "extras": {"cells": 2000000}, "max_skip_frac": 0.1}}
RULE = ("case k exercises create pair k mod 20 (bus, bus_dc, line, line_from_parameters, line_dc, line_dc_from_parameters, transformer, "
        "transformer_from_parameters, transformer3w, transformer3w_from_parameters, load, sgen, gen, storage, shunt, ward, switch, "
        "impedance, poly_cost, pwl_cost): a seeded network (buses with contiguous or gapped labels, dc buses, user std types with odd "
        "shift/tap/zero-sequence values, 0-3 existing rows of the target table, existing costs, rows in sibling tables) and a seeded "
        "argument vector for 1-5 elements (every optional argument absent, scalar-broadcast or per element, lists or numpy arrays, "
        "partly-NaN vectors, explicit index lists); 30 % of the cases add an input the documentation says must be rejected (unknown "
        "bus, duplicate index inside the batch / against existing rows, cost for an element that already has one / twice in the "
        "batch, switch at an unknown element or at a bus the element is not connected to). The batch call runs on one deep copy, the "
        "single calls on another. non-trivial = at least one side created rows or a rejection scenario was injected; distinct = "
        "digest of the argument vector and scenario")
ASSUMPTIONS = [
    "compared: accept/reject decision (any exception = reject; classes are recorded, not compared), labels of the created rows, and "
    "every column of the created rows except labels/documentation/plotting columns (name, std_type, geo, zone, curve_style; type of "
    "bus, line, line_dc, gen, storage, switch); existing rows and the state after a rejected call are not compared",
    "cells are equal when both are null (None/NaN/NA/'' = pandapower's empty default of text columns) or equal as numbers within "
    "1e-12 relative (dtype-insensitive) or equal as text; an optional column that is absent/null on one side equals its documented "
    "unset meaning on the other (controllable False, gen controllable True, min_vm_pu 0 / max_vm_pu 2, generator_type current_source, "
    "tap_dependency_table / oltc / step_dependency_table / reactive_capability_curve / tdpf False, g0_us_per_km 0)",
    "columns passed through **kwargs are compared like optional electrical columns (that is how zero-sequence, TDPF and short-circuit "
    "columns enter the tables)",
    "inputs outside the documented domain are not generated: std-type parameters overridden by keyword (documented to differ), "
    "df <= 0, partially specified zero-sequence line data, deprecated const_z_percent/const_i_percent",
]

nan = np.nan

# ------------------------------------------------------------------------------------------------ comparison rules
# columns that carry no electrical meaning (labels, plotting, documentation) per table; "type" of load/sgen (wye/delta) stays in
NON_ELECTRICAL = {"*": {"name", "geo", "zone", "std_type", "curve_style", "coords"},
                  "bus": {"type"}, "bus_dc": {"type"}, "line": {"type"}, "line_dc": {"type"}, "gen": {"type"},
                  "storage": {"type"}, "switch": {"type"}}
# documented meaning of "not set" (column absent / null) for optional columns: equal to this value
UNSET_EQUALS = {("load", "controllable"): False, ("sgen", "controllable"): False, ("storage", "controllable"): False,
                ("gen", "controllable"): True,
                ("bus", "min_vm_pu"): 0.0, ("bus", "max_vm_pu"): 2.0, ("bus_dc", "min_vm_pu"): 0.0, ("bus_dc", "max_vm_pu"): 2.0,
                ("gen", "min_vm_pu"): 0.0, ("gen", "max_vm_pu"): 2.0,
                ("sgen", "generator_type"): "current_source",
                ("trafo", "tap_dependency_table"): False, ("trafo3w", "tap_dependency_table"): False,
                ("trafo", "oltc"): False, ("shunt", "step_dependency_table"): False,
                ("gen", "reactive_capability_curve"): False, ("sgen", "reactive_capability_curve"): False,
                ("line", "tdpf"): False, ("line_dc", "tdpf"): False, ("line", "g0_us_per_km"): 0.0}
RTOL = 1e-12


def _isnull(x):
    if isinstance(x, (list, tuple, np.ndarray, dict)):
        return False
    if isinstance(x, str):
        return x == ""      # pandapower's own "empty default" of text columns (auxiliary.empty_defaults_per_dtype)
    try:
        return bool(pd.isnull(x))
    except (TypeError, ValueError):
        return False


def same(a, b):
    """NaN-equal, dtype-insensitive equality of two table cells"""
    na, nb = _isnull(a), _isnull(b)
    if na or nb:
        return na and nb
    if isinstance(a, (list, tuple, np.ndarray)) or isinstance(b, (list, tuple, np.ndarray)):
        try:
            x, y = np.asarray(a, dtype=float), np.asarray(b, dtype=float)
        except (TypeError, ValueError):
            return False
        return x.shape == y.shape and bool(np.all(np.abs(x - y) <= RTOL * np.maximum(np.abs(x), np.abs(y))))
    if isinstance(a, str) or isinstance(b, str):
        return isinstance(a, str) and isinstance(b, str) and a == b
    try:
        x, y = float(a), float(b)
    except (TypeError, ValueError):
        return a == b
    return x == y or abs(x - y) <= RTOL * max(abs(x), abs(y))


def cell_equal(table, col, a, b):
    """returns (equal, via_default)"""
    if same(a, b):
        return True, False
    if (table, col) in UNSET_EQUALS:
        d = UNSET_EQUALS[(table, col)]
        if (_isnull(a) and same(b, d)) or (_isnull(b) and same(a, d)):
            return True, True
    return False, False


def electrical_columns(table, cols):
    skip = NON_ELECTRICAL["*"] | NON_ELECTRICAL.get(table, set())
    return [c for c in cols if c not in skip]


def _py(x):
    """plain python value for witnesses"""
    if isinstance(x, np.generic):
        return x.item()
    if _isnull(x):
        return None
    return x


# ------------------------------------------------------------------------------------------------ argument vectors
class Spec:
    """argument vector of one batch call: element-wise arguments (scalar broadcast 's' or list 'v')"""

    def __init__(self, fam, n):
        self.fam, self.n = fam, n
        self.args = {}          # batch keyword -> ("s", scalar) | ("v", list)
        self.as_array = False   # pass numeric vectors as numpy arrays to the batch function
        self.note = {}          # facts the classifier needs (never random values by themselves)

    def s(self, k, x):
        self.args[k] = ("s", x)

    def v(self, k, xs):
        assert len(xs) == self.n, k
        self.args[k] = ("v", list(xs))

    def sv(self, g, k, f, p_scalar=0.35):
        """scalar (broadcast) with probability p_scalar, else one value per element"""
        if g.B(p_scalar):
            self.s(k, f())
        else:
            self.v(k, [f() for _ in range(self.n)])

    def get(self, k, i):
        kind, x = self.args[k]
        return x if kind == "s" else x[i]

    def batch_kwargs(self):
        out = {}
        for k, (kind, x) in self.args.items():
            if kind == "v" and self.as_array and k not in ("index", "geodata", "points") and all(
                    isinstance(e, (int, float, np.integer, np.floating)) and not isinstance(e, bool) for e in x):
                out[k] = np.array(x)
            else:
                out[k] = copy.deepcopy(x)
        return out

    def single_kwargs(self, i, rename):
        return {rename.get(k, k): copy.deepcopy(self.get(k, i)) for k in self.args if rename.get(k, k) is not None}

    def describe(self):
        return {"family": self.fam, "n": self.n, "as_array": self.as_array,
                "args": {k: [kind, x] for k, (kind, x) in self.args.items()}}


AC_VN = [110., 110., 110., 20., 20., 20., 20., 10., 0.4, 0.4]
TRAFO_STD = ["160 MVA 380/110 kV", "63 MVA 110/20 kV", "25 MVA 110/20 kV", "40 MVA 110/10 kV", "0.4 MVA 20/0.4 kV",
             "0.63 MVA 10/0.4 kV", "c24_pst", "c24_odd", "c24_bare", "c24_tap2"]
LINE_STD = ["NAYY 4x50 SE", "149-AL1/24-ST1A 110.0", "NA2XS2Y 1x95 RM/25 12/20 kV", "243-AL1/39-ST1A 110.0", "c24_l0", "c24_lg",
            "c24_lbare"]
LINE_DC_STD = ["95-CU", "c24_dc_g", "c24_dc_bare"]
T3_STD = ["63/25/38 MVA 110/20/10 kV", "63/25/38 MVA 110/10/10 kV", "c24_t3_shift", "c24_t3_bare"]


_EMPTY = None


def base_net(g):
    """buses (non-contiguous indices), dc buses and user std types with odd values so that defaults cannot mask a dropped column"""
    global _EMPTY
    if _EMPTY is None:
        _EMPTY = pp.create_empty_network()     # building the ~60 empty tables dominates the cost of a case; copies are cheap
    net = copy.deepcopy(_EMPTY)
    net.sn_mva = g.C([1., 10., 100.])
    off = g.C([0, 0, 3])
    pp.create_buses(net, len(AC_VN), AC_VN, index=[off + 2 * i if off else i for i in range(len(AC_VN))])
    pp.create_buses_dc(net, 4, [320., 320., 150., 150.])
    R = g.R
    pp.create_std_type(net, {"sn_mva": 31.5, "vn_hv_kv": 110., "vn_lv_kv": 20., "vk_percent": 11.3, "vkr_percent": 0.37, "pfe_kw": 17.,
                             "i0_percent": 0.11, "shift_degree": round(R(1, 179), 1), "tap_side": "lv", "tap_neutral": 2, "tap_min": -3,
                             "tap_max": 7, "tap_step_percent": round(R(0.3, 2.), 2), "tap_step_degree": round(R(0.5, 5.), 2),
                             "tap_changer_type": g.C(["Ideal", "Symmetrical"]), "vector_group": "Dyn5"}, "c24_pst", "trafo")
    pp.create_std_type(net, {"sn_mva": 0.8, "vn_hv_kv": 20., "vn_lv_kv": 0.4, "vk_percent": 5.7, "vkr_percent": 1.1, "pfe_kw": 1.3,
                             "i0_percent": 0.21, "shift_degree": -30., "tap_side": "hv", "tap_neutral": 1, "tap_min": -2, "tap_max": 4,
                             "tap_step_percent": 2.5, "tap_step_degree": 0., "tap_changer_type": "Ratio", "vector_group": "Dyn11",
                             "vk0_percent": 5.1, "vkr0_percent": 0.9, "mag0_percent": 100., "mag0_rx": 0.3, "si0_hv_partial": 0.8},
                       "c24_odd", "trafo")
    pp.create_std_type(net, {"sn_mva": 12., "vn_hv_kv": 110., "vn_lv_kv": 10., "vk_percent": 9., "vkr_percent": 0.5, "pfe_kw": 9.,
                             "i0_percent": 0.1, "shift_degree": 0.}, "c24_bare", "trafo")
    pp.create_std_type(net, {"sn_mva": 40., "vn_hv_kv": 110., "vn_lv_kv": 20., "vk_percent": 10., "vkr_percent": 0.3, "pfe_kw": 20.,
                             "i0_percent": 0.05, "shift_degree": 150., "tap_side": "hv", "tap_neutral": 0, "tap_min": -9, "tap_max": 9,
                             "tap_step_percent": 1.5, "tap_step_degree": 0., "tap_changer_type": "Ratio", "tap2_side": "hv",
                             "tap2_neutral": 1, "tap2_min": -2, "tap2_max": 3, "tap2_step_percent": 0.7, "tap2_step_degree": 0.,
                             "tap2_changer_type": "Ratio"}, "c24_tap2", "trafo")
    pp.create_std_type(net, {"r_ohm_per_km": 0.21, "x_ohm_per_km": 0.13, "c_nf_per_km": 190., "max_i_ka": 0.3, "type": "cs",
                             "r0_ohm_per_km": 0.8, "x0_ohm_per_km": 0.5, "c0_nf_per_km": 120., "alpha": 0.004}, "c24_l0", "line")
    pp.create_std_type(net, {"r_ohm_per_km": 0.1, "x_ohm_per_km": 0.4, "c_nf_per_km": 9., "max_i_ka": 0.6, "type": "ol",
                             "g_us_per_km": round(R(0.1, 3.), 2)}, "c24_lg", "line")
    pp.create_std_type(net, {"r_ohm_per_km": 0.3, "x_ohm_per_km": 0.3, "c_nf_per_km": 0., "max_i_ka": 0.2}, "c24_lbare", "line")
    pp.create_std_type(net, {"r_ohm_per_km": 0.05, "max_i_ka": 1.2, "type": "ol", "g_us_per_km": round(R(0.1, 2.), 2), "alpha": 0.0039,
                             "r0_ohm_per_km": 0.07}, "c24_dc_g", "line_dc")
    pp.create_std_type(net, {"r_ohm_per_km": 0.09, "max_i_ka": 0.7}, "c24_dc_bare", "line_dc")
    pp.create_std_type(net, {"sn_hv_mva": 50., "sn_mv_mva": 30., "sn_lv_mva": 20., "vn_hv_kv": 110., "vn_mv_kv": 20., "vn_lv_kv": 10.,
                             "vk_hv_percent": 10., "vk_mv_percent": 11., "vk_lv_percent": 12., "vkr_hv_percent": 0.3,
                             "vkr_mv_percent": 0.31, "vkr_lv_percent": 0.32, "pfe_kw": 30., "i0_percent": 0.1,
                             "shift_mv_degree": round(R(1, 60), 1), "shift_lv_degree": 150., "tap_side": "mv", "tap_neutral": 1,
                             "tap_min": -4, "tap_max": 6, "tap_step_percent": 1.1, "tap_step_degree": round(R(0.2, 3.), 2),
                             "tap_changer_type": "Ideal", "vector_group": "YN0d5d5"}, "c24_t3_shift", "trafo3w")
    pp.create_std_type(net, {"sn_hv_mva": 40., "sn_mv_mva": 20., "sn_lv_mva": 20., "vn_hv_kv": 110., "vn_mv_kv": 20., "vn_lv_kv": 10.,
                             "vk_hv_percent": 9., "vk_mv_percent": 10., "vk_lv_percent": 11., "vkr_hv_percent": 0.2,
                             "vkr_mv_percent": 0.21, "vkr_lv_percent": 0.22, "pfe_kw": 20., "i0_percent": 0.2,
                             "shift_mv_degree": 0., "shift_lv_degree": 0.}, "c24_t3_bare", "trafo3w")
    return net


def buses_of(net, vn=None):
    b = net.bus.index[net.bus.vn_kv == vn] if vn is not None else net.bus.index
    return [int(x) for x in b]


def pick(g, seq, n):
    return [g.C(seq) for _ in range(n)]


def maybe_nan(g, f, p=0.25):
    return lambda: nan if g.B(p) else f()


def _limits(g, sp, names, p=0.3):
    for k in names:
        if g.B(p):
            sp.sv(g, k, maybe_nan(g, lambda: round(g.R(-5, 50), 3), 0.2))


def _controllable(g, sp, p=0.35):
    if g.B(p):
        sp.sv(g, "controllable", lambda: g.C([True, False, True, False, nan]))


def _extra(g, sp, p=0.2):
    if g.B(p):
        sp.sv(g, "c24_user_col", lambda: round(g.R(0, 9), 2))


def gen_bus(g, net, n, table="bus"):
    sp = Spec(table, n)
    sp.sv(g, "vn_kv", lambda: g.C([110., 20., 10., 0.4, 380.]))
    if g.B(0.4):
        sp.sv(g, "in_service", lambda: g.B(0.7))
    for k, lo, hi in (("max_vm_pu", 1.02, 1.2), ("min_vm_pu", 0.8, 0.98)):
        if g.B(0.4):
            sp.sv(g, k, maybe_nan(g, lambda: round(g.R(lo, hi), 3)))
    if g.B(0.3):
        sp.sv(g, "type", lambda: g.C(["b", "n", "m"]))
    if g.B(0.2):
        sp.sv(g, "zone", lambda: g.C(["z1", "z2"]))
    if g.B(0.15):
        sp.v("geodata", [(round(g.R(0, 10), 2), round(g.R(0, 10), 2)) for _ in range(n)])
    _extra(g, sp)
    return sp


def gen_bus_dc(g, net, n):
    return gen_bus(g, net, n, "bus_dc")


def _branch_common(g, sp):
    if g.B(0.5):
        sp.sv(g, "df", lambda: round(g.R(0.3, 1.), 2))
    if g.B(0.5):
        sp.sv(g, "parallel", lambda: g.I(1, 4))
    if g.B(0.4):
        sp.sv(g, "in_service", lambda: g.B(0.7))
    if g.B(0.4):
        sp.sv(g, "max_loading_percent", maybe_nan(g, lambda: round(g.R(50, 120), 1)))


def _line_nodes(g, net, sp, dc):
    nodes = [int(x) for x in (net.bus_dc.index if dc else net.bus.index)]
    sp.v("from_buses_dc" if dc else "from_buses", pick(g, nodes, sp.n))
    sp.v("to_buses_dc" if dc else "to_buses", pick(g, nodes, sp.n))
    sp.sv(g, "length_km", lambda: round(g.R(0.05, 30), 3), 0.25)


def _line_opt(g, sp):
    if g.B(0.25):
        sp.s("alpha", round(g.R(0.003, 0.005), 5))
    if g.B(0.25):
        sp.s("temperature_degree_celsius", round(g.R(20, 80), 1))
    if g.B(0.12):
        sp.sv(g, "tdpf", lambda: g.B(0.6))
        sp.sv(g, "wind_speed_m_per_s", lambda: round(g.R(0.2, 5), 2))
    _extra(g, sp, 0.1)


def gen_line(g, net, n, dc=False):
    sp = Spec("line_dc" if dc else "line", n)
    _line_nodes(g, net, sp, dc)
    sp.sv(g, "std_type", lambda: g.C(LINE_DC_STD if dc else LINE_STD), 0.5)
    _branch_common(g, sp)
    _line_opt(g, sp)
    return sp


def gen_line_dc(g, net, n):
    return gen_line(g, net, n, True)


def gen_line_fp(g, net, n, dc=False):
    sp = Spec("line_dc_fp" if dc else "line_fp", n)
    _line_nodes(g, net, sp, dc)
    sp.sv(g, "r_ohm_per_km", lambda: round(g.R(0.01, 1.), 4))
    sp.sv(g, "max_i_ka", lambda: round(g.R(0.1, 2.), 3))
    if not dc:
        sp.sv(g, "x_ohm_per_km", lambda: round(g.R(0.05, 0.5), 4))
        sp.sv(g, "c_nf_per_km", lambda: round(g.R(0., 300.), 1))
        if g.B(0.35):
            for k in ("r0_ohm_per_km", "x0_ohm_per_km", "c0_nf_per_km"):
                sp.sv(g, k, lambda: round(g.R(0.1, 200.), 3))
            if g.B(0.5):
                sp.sv(g, "g0_us_per_km", lambda: round(g.R(0., 2.), 3))
        if g.B(0.2):
            sp.sv(g, "endtemp_degree", lambda: round(g.R(80, 250), 0))
    if g.B(0.4):
        sp.sv(g, "g_us_per_km", lambda: round(g.R(0., 3.), 3))
    if g.B(0.3):
        sp.sv(g, "type", lambda: g.C(["cs", "ol"]))
    _branch_common(g, sp)
    _line_opt(g, sp)
    return sp


def gen_line_dc_fp(g, net, n):
    return gen_line_fp(g, net, n, True)


def _tap_pos(g, sp, k="tap_pos", p=0.5):
    if g.B(p):
        f = g.C([lambda: g.I(-3, 4), lambda: float(g.I(-3, 4)), lambda: g.I(-2, 2) + 0.5])
        sp.sv(g, k, maybe_nan(g, f, 0.3))


def _trafo_opt(g, sp):
    _tap_pos(g, sp)
    if g.B(0.4):
        sp.sv(g, "in_service", lambda: g.B(0.7))
    if g.B(0.35):
        sp.sv(g, "max_loading_percent", maybe_nan(g, lambda: round(g.R(50, 120), 1)))
    if g.B(0.2):
        sp.sv(g, "tap_changer_type", lambda: g.C(["Ratio", "Symmetrical", "Ideal", None]))
    if g.B(0.15):
        sp.sv(g, "tap_dependency_table", lambda: g.B(0.5))
        if g.B(0.7):
            sp.sv(g, "id_characteristic_table", lambda: g.I(0, 3))
    _extra(g, sp, 0.1)


def _trafo2_opt(g, sp):
    if g.B(0.5):
        sp.sv(g, "parallel", lambda: g.I(1, 3))
    if g.B(0.5):
        sp.sv(g, "df", lambda: round(g.R(0.3, 1.), 2))
    if g.B(0.2):
        sp.sv(g, "pt_percent", maybe_nan(g, lambda: round(g.R(1, 12), 1)))
    if g.B(0.2):
        sp.sv(g, "oltc", lambda: g.B(0.5))
    if g.B(0.2):
        sp.sv(g, "xn_ohm", maybe_nan(g, lambda: round(g.R(0.1, 5), 2)))


def gen_trafo(g, net, n):
    sp = Spec("trafo", n)
    allb = buses_of(net)
    sp.v("hv_buses", pick(g, allb, n))
    sp.v("lv_buses", pick(g, allb, n))
    sp.s("std_type", g.C(TRAFO_STD))
    _trafo_opt(g, sp)
    _trafo2_opt(g, sp)
    if g.B(0.25):
        _tap_pos(g, sp, "tap2_pos", 1.)
    return sp


def gen_trafo_fp(g, net, n):
    sp = Spec("trafo_fp", n)
    allb = buses_of(net)
    sp.v("hv_buses", pick(g, allb, n))
    sp.v("lv_buses", pick(g, allb, n))
    sp.sv(g, "sn_mva", lambda: g.C([0.4, 25., 63., 100.]))
    sp.sv(g, "vn_hv_kv", lambda: g.C([110., 20., 380.]))
    sp.sv(g, "vn_lv_kv", lambda: g.C([20., 10., 0.4]))
    sp.sv(g, "vk_percent", lambda: round(g.R(4, 18), 2))
    sp.sv(g, "vkr_percent", lambda: round(g.R(0.1, 1.5), 3))
    sp.sv(g, "pfe_kw", lambda: round(g.R(0, 60), 1))
    sp.sv(g, "i0_percent", lambda: round(g.R(0, 0.5), 3))
    if g.B(0.6):
        sp.sv(g, "shift_degree", lambda: g.C([0., 30., 150., -30., 7.5]))
    if g.B(0.6):
        sp.sv(g, "tap_side", lambda: g.C(["hv", "lv"]))
        sp.sv(g, "tap_neutral", lambda: g.I(-1, 2))
        sp.sv(g, "tap_min", lambda: g.I(-9, -2))
        sp.sv(g, "tap_max", lambda: g.I(3, 9))
        sp.sv(g, "tap_step_percent", maybe_nan(g, lambda: round(g.R(0.5, 2.5), 2), 0.1))
        if g.B(0.5):
            sp.sv(g, "tap_step_degree", lambda: round(g.R(0., 3.), 2))
    if g.B(0.2):
        sp.sv(g, "tap2_side", lambda: g.C(["hv", "lv"]))
        sp.sv(g, "tap2_neutral", lambda: g.I(-1, 1))
        sp.sv(g, "tap2_min", lambda: g.I(-4, -2))
        sp.sv(g, "tap2_max", lambda: g.I(2, 4))
        sp.sv(g, "tap2_step_percent", lambda: round(g.R(0.5, 2.5), 2))
        if g.B(0.5):
            sp.sv(g, "tap2_step_degree", lambda: round(g.R(0., 3.), 2))
        if g.B(0.5):
            sp.sv(g, "tap2_changer_type", lambda: g.C(["Ratio", "Symmetrical", "Ideal"]))
        if g.B(0.5):
            _tap_pos(g, sp, "tap2_pos", 1.)
    if g.B(0.25):
        sp.sv(g, "vector_group", lambda: g.C(["Dyn5", "YNyn", "Yzn5"]))
        for k in ("vk0_percent", "vkr0_percent", "mag0_percent", "mag0_rx", "si0_hv_partial"):
            if g.B(0.8):
                sp.sv(g, k, lambda: round(g.R(0.1, 10), 2))
    _trafo_opt(g, sp)
    _trafo2_opt(g, sp)
    return sp


def gen_trafo3w(g, net, n):
    sp = Spec("trafo3w", n)
    allb = buses_of(net)
    for k in ("hv_buses", "mv_buses", "lv_buses"):
        sp.v(k, pick(g, allb, n))
    sp.s("std_type", g.C(T3_STD))
    _trafo_opt(g, sp)
    if g.B(0.3):
        sp.sv(g, "tap_at_star_point", lambda: g.B(0.5))
    return sp


def gen_trafo3w_fp(g, net, n):
    sp = Spec("trafo3w_fp", n)
    allb = buses_of(net)
    for k in ("hv_buses", "mv_buses", "lv_buses"):
        sp.v(k, pick(g, allb, n))
    for k, f in (("vn_hv_kv", lambda: g.C([110., 220.])), ("vn_mv_kv", lambda: g.C([20., 30.])), ("vn_lv_kv", lambda: g.C([10., 6.])),
                 ("sn_hv_mva", lambda: g.C([63., 100.])), ("sn_mv_mva", lambda: g.C([25., 40.])), ("sn_lv_mva", lambda: g.C([38., 25.]))):
        sp.sv(g, k, f)
    for k in ("vk_hv_percent", "vk_mv_percent", "vk_lv_percent"):
        sp.sv(g, k, lambda: round(g.R(8, 14), 2))
    for k in ("vkr_hv_percent", "vkr_mv_percent", "vkr_lv_percent"):
        sp.sv(g, k, lambda: round(g.R(0.1, 0.6), 3))
    sp.sv(g, "pfe_kw", lambda: round(g.R(0, 60), 1))
    sp.sv(g, "i0_percent", lambda: round(g.R(0, 1.), 3))
    if g.B(0.5):
        sp.sv(g, "shift_mv_degree", lambda: g.C([0., 30., 150.]))
    if g.B(0.5):
        sp.sv(g, "shift_lv_degree", lambda: g.C([0., 30., 150.]))
    if g.B(0.6):
        sp.sv(g, "tap_side", lambda: g.C(["hv", "mv", "lv"]))
        sp.sv(g, "tap_neutral", lambda: g.I(-1, 2))
        sp.sv(g, "tap_min", lambda: g.I(-9, -2))
        sp.sv(g, "tap_max", lambda: g.I(3, 9))
        sp.sv(g, "tap_step_percent", lambda: round(g.R(0.5, 2.5), 2))
        if g.B(0.5):
            sp.sv(g, "tap_step_degree", lambda: round(g.R(0., 3.), 2))
    if g.B(0.2):
        sp.sv(g, "vector_group", lambda: g.C(["YN0yn0yn0", "YN0d5d5"]))
        for k in ("vk0_hv_percent", "vk0_mv_percent", "vk0_lv_percent", "vkr0_hv_percent", "vkr0_mv_percent", "vkr0_lv_percent"):
            sp.sv(g, k, lambda: round(g.R(0.1, 10), 2))
    _trafo_opt(g, sp)
    if g.B(0.3):
        sp.sv(g, "tap_at_star_point", lambda: g.B(0.5))
    return sp


def _pq_common(g, sp, net, n):
    sp.v("buses", pick(g, buses_of(net), n))
    sp.sv(g, "p_mw", lambda: round(g.R(0, 20), 3), 0.2)
    if g.B(0.5):
        sp.sv(g, "scaling", lambda: round(g.R(0.2, 1.5), 2))
    if g.B(0.4):
        sp.sv(g, "sn_mva", maybe_nan(g, lambda: round(g.R(1, 30), 1)))
    if g.B(0.4):
        sp.sv(g, "in_service", lambda: g.B(0.7))
    _extra(g, sp)


def gen_load(g, net, n):
    sp = Spec("load", n)
    _pq_common(g, sp, net, n)
    if g.B(0.7):
        sp.sv(g, "q_mvar", lambda: round(g.R(-3, 8), 3))
    for k in ("const_z_p_percent", "const_i_p_percent", "const_z_q_percent", "const_i_q_percent"):
        if g.B(0.45):
            sp.sv(g, k, lambda: float(g.I(0, 50)))
    if g.B(0.2):
        sp.s("type", g.C(["wye", "delta"]))
    _limits(g, sp, ("max_p_mw", "min_p_mw", "max_q_mvar", "min_q_mvar"))
    _controllable(g, sp)
    return sp


def gen_sgen(g, net, n):
    sp = Spec("sgen", n)
    _pq_common(g, sp, net, n)
    if g.B(0.7):
        sp.sv(g, "q_mvar", lambda: round(g.R(-3, 8), 3))
    _limits(g, sp, ("max_p_mw", "min_p_mw", "max_q_mvar", "min_q_mvar"))
    _controllable(g, sp)
    if g.B(0.2):
        sp.s("type", g.C(["wye", "delta"]))
    if g.B(0.25):
        sp.sv(g, "current_source", lambda: g.B(0.5))
    if g.B(0.3):
        gt = g.C(["current_source", "async", "async_doubly_fed"])
        sp.s("generator_type", gt)
        if g.B(0.7):
            sp.sv(g, {"current_source": "k", "async": "lrc_pu", "async_doubly_fed": "max_ik_ka"}[gt], lambda: round(g.R(1, 6), 2))
    elif g.B(0.3):
        sp.sv(g, "k", lambda: round(g.R(1, 3), 2))
    if g.B(0.25):
        sp.s("rx", round(g.R(0.05, 0.5), 3))
    if g.B(0.15):
        sp.s("kappa", round(g.R(1, 2), 2))
    if g.B(0.15):
        sp.sv(g, "reactive_capability_curve", lambda: g.B(0.5))
        sp.sv(g, "id_q_capability_characteristic", lambda: g.I(0, 3))
    return sp


def gen_gen(g, net, n):
    sp = Spec("gen", n)
    _pq_common(g, sp, net, n)
    if g.B(0.7):
        sp.sv(g, "vm_pu", lambda: round(g.R(0.95, 1.08), 3))
    _limits(g, sp, ("max_p_mw", "min_p_mw", "max_q_mvar", "min_q_mvar"))
    for k, lo, hi in (("max_vm_pu", 1.02, 1.2), ("min_vm_pu", 0.8, 0.98)):
        if g.B(0.3):
            sp.sv(g, k, maybe_nan(g, lambda: round(g.R(lo, hi), 3)))
    _controllable(g, sp)
    if g.B(0.4):
        sp.sv(g, "slack", lambda: g.B(0.4))
    if g.B(0.4):
        sp.s("slack_weight", round(g.R(0, 2), 2)) if g.B(0.5) else sp.sv(g, "slack_weight", lambda: round(g.R(0, 2), 2))
    for k in ("vn_kv", "xdss_pu", "rdss_ohm", "cos_phi"):
        if g.B(0.15):
            sp.sv(g, k, maybe_nan(g, lambda: round(g.R(0.1, 1.), 3)))
    if g.B(0.1):
        sp.s("pg_percent", round(g.R(0, 10), 1))
    if g.B(0.1):
        sp.s("power_station_trafo", g.I(0, 3))
    if g.B(0.15):
        sp.sv(g, "reactive_capability_curve", lambda: g.B(0.5))
        sp.sv(g, "id_q_capability_characteristic", lambda: g.I(0, 3))
    return sp


def gen_storage(g, net, n):
    sp = Spec("storage", n)
    _pq_common(g, sp, net, n)
    sp.sv(g, "max_e_mwh", lambda: round(g.R(1, 50), 1))
    if g.B(0.5):
        sp.sv(g, "q_mvar", lambda: round(g.R(-3, 8), 3))
    if g.B(0.4):
        sp.sv(g, "soc_percent", maybe_nan(g, lambda: round(g.R(0, 100), 1)))
    if g.B(0.4):
        sp.sv(g, "min_e_mwh", lambda: round(g.R(0, 1), 2))
    _limits(g, sp, ("max_p_mw", "min_p_mw", "max_q_mvar", "min_q_mvar"))
    _controllable(g, sp)
    return sp


def gen_shunt(g, net, n):
    sp = Spec("shunt", n)
    # often at the buses whose labels equal the labels the new shunts will get (bus labels and shunt labels overlap in real nets)
    free = int(net.shunt.index.max()) + 1 if len(net.shunt) else 0
    lab = [free + j for j in range(n)]
    if g.B(0.35) and set(lab) <= set(buses_of(net)):
        sp.v("buses", [lab[j] for j in g.rng.permutation(n)] if g.B(0.7) else pick(g, lab, n))
    else:
        sp.v("buses", pick(g, buses_of(net), n))
    sp.sv(g, "q_mvar", lambda: round(g.R(-5, 5), 3))
    if g.B(0.5):
        sp.sv(g, "p_mw", lambda: round(g.R(0, 1), 3))
    if g.B(0.4):
        sp.sv(g, "vn_kv", lambda: g.C([110., 20., 21., 10., 0.4]))
    if g.B(0.4):
        sp.sv(g, "step", lambda: g.I(0, 3))
    if g.B(0.4):
        sp.sv(g, "max_step", lambda: g.I(3, 5))
    if g.B(0.4):
        sp.sv(g, "in_service", lambda: g.B(0.7))
    if g.B(0.2):
        sp.sv(g, "step_dependency_table", lambda: g.B(0.5))
        if g.B(0.7):
            sp.sv(g, "id_characteristic_table", lambda: g.I(0, 3))
    _extra(g, sp)
    return sp


def gen_ward(g, net, n):
    sp = Spec("ward", n)
    sp.v("buses", pick(g, buses_of(net), n))
    for k in ("ps_mw", "qs_mvar", "pz_mw", "qz_mvar"):
        sp.sv(g, k, lambda: round(g.R(-3, 8), 3))
    if g.B(0.4):
        sp.sv(g, "in_service", lambda: g.B(0.7))
    _extra(g, sp)
    return sp


def gen_impedance(g, net, n):
    sp = Spec("impedance", n)
    sp.v("from_buses", pick(g, buses_of(net), n))
    sp.v("to_buses", pick(g, buses_of(net), n))
    sp.sv(g, "rft_pu", lambda: round(g.R(0.001, 0.1), 4))
    sp.sv(g, "xft_pu", lambda: round(g.R(0.001, 0.3), 4))
    sp.sv(g, "sn_mva", lambda: g.C([1., 10., 100.]))
    for k in ("rtf_pu", "xtf_pu", "gf_pu", "bf_pu", "gt_pu", "bt_pu"):
        if g.B(0.35):
            sp.sv(g, k, lambda: round(g.R(0.001, 0.2), 4))
    if g.B(0.3):
        sp.sv(g, "rft0_pu", lambda: round(g.R(0.001, 0.1), 4))
        sp.sv(g, "xft0_pu", lambda: round(g.R(0.001, 0.1), 4))
        for k in ("rtf0_pu", "xtf0_pu"):
            if g.B(0.5):
                sp.sv(g, k, lambda: round(g.R(0.001, 0.1), 4))
    if g.B(0.2):
        sp.sv(g, "gf0_pu", lambda: round(g.R(0.001, 0.1), 4))
        sp.sv(g, "bf0_pu", lambda: round(g.R(0.001, 0.1), 4))
        for k in ("gt0_pu", "bt0_pu"):
            if g.B(0.5):
                sp.sv(g, k, lambda: round(g.R(0.001, 0.1), 4))
    if g.B(0.4):
        sp.sv(g, "in_service", lambda: g.B(0.7))
    _extra(g, sp, 0.1)
    return sp


def prep_other_table(g, net):
    """rows in the sibling tables (line next to line_dc, storage next to ward) so that a look-up in the wrong table shows"""
    b = buses_of(net, 20.)
    for _ in range(g.I(0, 3)):
        pp.create_line(net, g.C(b), g.C(b), 1., "NAYY 4x50 SE")
    for _ in range(g.I(0, 3)):
        pp.create_storage(net, g.C(b), 1., 10.)


def prep_switch(g, net):
    """lines, trafos, trafo3w the switches can refer to"""
    b110, b20, b10, b04 = (buses_of(net, v) for v in (110., 20., 10., 0.4))
    for _ in range(3):
        pp.create_line(net, g.C(b20), g.C(b20), 1., "NAYY 4x50 SE")
    pp.create_line(net, b110[0], b110[1], 10., "149-AL1/24-ST1A 110.0", index=7)
    pp.create_transformer(net, b110[0], b20[0], "25 MVA 110/20 kV")
    pp.create_transformer(net, b20[1], b04[0], "0.4 MVA 20/0.4 kV", index=5)
    pp.create_transformer3w(net, b110[1], b20[2], b10[0], "63/25/38 MVA 110/20/10 kV")
    pp.create_transformer3w(net, b110[2], b20[3], b10[0], "63/25/38 MVA 110/20/10 kV", index=4)


SW_TAB = {"l": ("line", ["from_bus", "to_bus"]), "t": ("trafo", ["hv_bus", "lv_bus"]), "t3": ("trafo3w", ["hv_bus", "mv_bus", "lv_bus"])}


def gen_switch(g, net, n):
    sp = Spec("switch", n)
    ets = [g.C(["b", "l", "t", "t3"])] * n if g.B(0.45) else [g.C(["b", "b", "l", "l", "t", "t3"]) for _ in range(n)]
    bs, els = [], []
    for et in ets:
        if et == "b":
            bs.append(g.C(buses_of(net)))
            els.append(g.C(buses_of(net)))
        else:
            tab, cols = SW_TAB[et]
            e = int(g.C(list(net[tab].index)))
            els.append(e)
            bs.append(int(net[tab].at[e, g.C(cols)]))
    sp.v("buses", bs)
    sp.v("elements", els)
    if len(set(ets)) == 1 and g.B(0.6):
        sp.s("et", ets[0])
    else:
        sp.v("et", ets)
    if g.B(0.5):
        sp.sv(g, "closed", lambda: g.B(0.6))
    if g.B(0.4):
        sp.sv(g, "z_ohm", lambda: round(g.R(0, 0.5), 3))
    if g.B(0.3):
        sp.sv(g, "in_ka", maybe_nan(g, lambda: round(g.R(0.1, 2), 2)))
    if g.B(0.3):
        sp.sv(g, "type", lambda: g.C(["CB", "LBS", "DS"]))
    return sp


COST_ET = ["gen", "sgen", "load", "ext_grid", "storage"]


def prep_cost(g, net):
    b = buses_of(net)
    for i in range(5):
        pp.create_gen(net, g.C(b), 10., index=i)
        pp.create_sgen(net, g.C(b), 5., index=i)
        pp.create_load(net, g.C(b), 5., index=i, controllable=True)
        pp.create_storage(net, g.C(b), 1., 10., index=i)
    pp.create_ext_grid(net, b[0])
    pp.create_ext_grid(net, b[1])
    # pre-existing costs (through the single functions), none of them colliding with each other
    used = set()
    for _ in range(g.C([0, 1, 1, 2, 3, 4])):
        et, el = g.C(COST_ET[:3]), g.I(0, 4)
        if g.B(0.5):
            if not any(u[:2] == (et, el) for u in used):
                pp.create_poly_cost(net, el, et, round(g.R(1, 9), 2))
                used.add((et, el, "poly"))
        else:
            for pt in g.C([["p"], ["q"], ["p", "q"]]):
                if (et, el, "poly") not in used and (et, el, pt) not in used:
                    pp.create_pwl_cost(net, el, et, [[0., 10., round(g.R(1, 5), 2)]], power_type=pt)
                    used.add((et, el, pt))


def _cost_targets(g, sp, n):
    ets = [g.C(COST_ET)] * n if g.B(0.5) else [g.C(COST_ET[:3]) for _ in range(n)]
    # element numbers drawn without collision inside the batch; collisions are injected by the reject scenarios only
    els, seen = [], set()
    for pos, et in enumerate(ets):
        cand = [i for i in range(2 if et == "ext_grid" else 5) if (et, i) not in seen]
        if not cand:
            et = g.C([t for t in COST_ET if t != "ext_grid" and len([i for i in range(5) if (t, i) not in seen])])
            cand = [i for i in range(5) if (et, i) not in seen]
        e = g.C(cand)
        ets[pos] = et
        seen.add((et, e))
        els.append(e)
    if len(set(ets)) > 1 or g.B(0.3):
        sp.v("et", ets)
    else:
        sp.s("et", ets[0])
    sp.v("elements", els)


def gen_poly_cost(g, net, n):
    sp = Spec("poly_cost", n)
    _cost_targets(g, sp, n)
    sp.sv(g, "cp1_eur_per_mw", lambda: round(g.R(0, 50), 2))
    for k in ("cp0_eur", "cq1_eur_per_mvar", "cq0_eur", "cp2_eur_per_mw2", "cq2_eur_per_mvar2"):
        if g.B(0.35):
            sp.sv(g, k, lambda: round(g.R(0, 5), 3))
    return sp


def gen_pwl_cost(g, net, n):
    sp = Spec("pwl_cost", n)
    _cost_targets(g, sp, n)

    def pts():
        k, x, out = g.I(1, 3), round(g.R(-10, 0), 1), []
        for _ in range(k):
            x2 = round(x + g.R(1, 20), 1)
            out.append([x, x2, round(g.R(0, 9), 2)])
            x = x2
        return out
    sp.v("points", [pts() for _ in range(n)])
    if g.B(0.6):
        sp.sv(g, "power_type", lambda: g.C(["p", "q"]))
    return sp


REN_NODE = {"buses": "bus", "hv_buses": "hv_bus", "mv_buses": "mv_bus", "lv_buses": "lv_bus", "from_buses": "from_bus",
            "to_buses": "to_bus", "from_buses_dc": "from_bus_dc", "to_buses_dc": "to_bus_dc", "elements": "element"}
# family -> (table, single function, batch function, generator, preparation, node arguments of the batch function, node table)
FAMILIES = {
    "bus": ("bus", "create_bus", "create_buses", gen_bus, None, [], None),
    "bus_dc": ("bus_dc", "create_bus_dc", "create_buses_dc", gen_bus_dc, None, [], None),
    "line": ("line", "create_line", "create_lines", gen_line, None, ["from_buses", "to_buses"], "bus"),
    "line_fp": ("line", "create_line_from_parameters", "create_lines_from_parameters", gen_line_fp, None, ["from_buses", "to_buses"], "bus"),
    "line_dc": ("line_dc", "create_line_dc", "create_lines_dc", gen_line_dc, prep_other_table, ["from_buses_dc", "to_buses_dc"], "bus_dc"),
    "line_dc_fp": ("line_dc", "create_line_dc_from_parameters", "create_lines_dc_from_parameters", gen_line_dc_fp, prep_other_table,
                   ["from_buses_dc", "to_buses_dc"], "bus_dc"),
    "trafo": ("trafo", "create_transformer", "create_transformers", gen_trafo, None, ["hv_buses", "lv_buses"], "bus"),
    "trafo_fp": ("trafo", "create_transformer_from_parameters", "create_transformers_from_parameters", gen_trafo_fp, None,
                 ["hv_buses", "lv_buses"], "bus"),
    "trafo3w": ("trafo3w", "create_transformer3w", "create_transformers3w", gen_trafo3w, None, ["hv_buses", "mv_buses", "lv_buses"], "bus"),
    "trafo3w_fp": ("trafo3w", "create_transformer3w_from_parameters", "create_transformers3w_from_parameters", gen_trafo3w_fp, None,
                   ["hv_buses", "mv_buses", "lv_buses"], "bus"),
    "load": ("load", "create_load", "create_loads", gen_load, None, ["buses"], "bus"),
    "sgen": ("sgen", "create_sgen", "create_sgens", gen_sgen, None, ["buses"], "bus"),
    "gen": ("gen", "create_gen", "create_gens", gen_gen, None, ["buses"], "bus"),
    "storage": ("storage", "create_storage", "create_storages", gen_storage, None, ["buses"], "bus"),
    "shunt": ("shunt", "create_shunt", "create_shunts", gen_shunt, None, ["buses"], "bus"),
    "ward": ("ward", "create_ward", "create_wards", gen_ward, prep_other_table, ["buses"], "bus"),
    "switch": ("switch", "create_switch", "create_switches", gen_switch, prep_switch, ["buses"], "bus"),
    "impedance": ("impedance", "create_impedance", "create_impedances", gen_impedance, None, ["from_buses", "to_buses"], "bus"),
    "poly_cost": ("poly_cost", "create_poly_cost", "create_poly_costs", gen_poly_cost, prep_cost, [], None),
    "pwl_cost": ("pwl_cost", "create_pwl_cost", "create_pwl_costs", gen_pwl_cost, prep_cost, [], None),
}
FAM_ORDER = list(FAMILIES)


def run_single(net, fam, sp):
    table, single = FAMILIES[fam][0], getattr(pp, FAMILIES[fam][1])
    ren = dict(REN_NODE)
    idx = []
    for i in range(sp.n):
        kw = sp.single_kwargs(i, ren)
        try:
            idx.append(single(net, **kw))
        except Exception as e:  # noqa: the decision of the code under test is the observation
            return "reject", e, idx, i
    return "ok", None, idx, None


def run_batch(net, fam, sp):
    batch = getattr(pp, FAMILIES[fam][2])
    kw = sp.batch_kwargs()
    if fam in ("bus", "bus_dc"):
        kw["nr_buses" if fam == "bus" else "nr_buses_dc"] = sp.n
    try:
        r = batch(net, **kw)
    except Exception as e:  # noqa
        return "reject", e, None
    return "ok", None, [int(x) for x in np.atleast_1d(r)]


def next_free(net, table, g):
    t = net[table]
    return (int(t.index.max()) + 1 if len(t) else 0) + g.C([0, 0, 2, 10])


def add_scenario(g, net, fam, sp, n_pre):
    """explicit indices and the inputs the single functions are documented to reject"""
    table, nodes, node_tab = FAMILIES[fam][0], FAMILIES[fam][5], FAMILIES[fam][6]
    scen = "valid"
    if g.B(0.3):
        base = next_free(net, table, g)
        sp.v("index", [int(x) for x in base + g.rng.permutation(sp.n + g.C([0, 0, 2]))[:sp.n]])
        sp.note["explicit_index"] = True
    if g.B(0.3):
        opts = []
        if nodes:
            opts += ["bad_node", "bad_node"]
        if sp.n >= 2:
            opts.append("dup_index_within")
        if len(net[table]):
            opts.append("dup_index_existing")
        if fam == "switch":
            opts += ["bad_element"] * 3 + ["not_connected"] * 3
        if fam in ("poly_cost", "pwl_cost"):
            opts += ["dup_cost_existing"] * 3 + (["dup_cost_within"] * 2 if sp.n >= 2 else [])
        if not opts:
            return scen
        scen = g.C(opts)
        i = g.I(0, sp.n - 1)
        if scen == "bad_node":
            k = g.C(nodes)
            sp.args[k][1][i] = 900 + g.I(0, 9)
        elif scen == "dup_index_within":
            idx = list(sp.args["index"][1]) if "index" in sp.args else [next_free(net, table, g) + j for j in range(sp.n)]
            j = g.C([x for x in range(sp.n) if x != i])
            idx[i] = idx[j]
            sp.v("index", idx)
        elif scen == "dup_index_existing":
            idx = list(sp.args["index"][1]) if "index" in sp.args else [next_free(net, table, g) + j for j in range(sp.n)]
            idx[i] = int(g.C(list(net[table].index)))
            sp.v("index", idx)
        elif scen == "bad_element":
            sp.args["elements"][1][i] = 90 + g.I(0, 9)
        elif scen == "not_connected":
            ets = [sp.get("et", j) for j in range(sp.n)]
            cand = [j for j in range(sp.n) if ets[j] != "b"]
            if not cand:
                return "valid"
            j = g.C(cand)
            tab, cols = SW_TAB[ets[j]]
            at = set(int(net[tab].at[sp.args["elements"][1][j], c]) for c in cols)
            sp.args["buses"][1][j] = g.C([b for b in buses_of(net) if b not in at])
        elif scen == "dup_cost_existing":
            ex = [(r.et, int(r.element)) for t in ("poly_cost", "pwl_cost") for r in net[t].itertuples()]
            if not ex:
                return "valid"
            et, el = g.C(ex)
            if sp.args["et"][0] == "s":
                if sp.args["et"][1] != et and sp.n > 1 and g.B(0.5):
                    sp.v("et", [sp.args["et"][1]] * sp.n)
                elif sp.args["et"][1] != et:
                    sp.s("et", et)
            if sp.args["et"][0] == "v":
                sp.args["et"][1][i] = et
            sp.args["elements"][1][i] = el
        elif scen == "dup_cost_within":
            j = g.C([x for x in range(sp.n) if x != i])
            if sp.args["et"][0] == "v":
                sp.args["et"][1][i] = sp.args["et"][1][j]
            sp.args["elements"][1][i] = sp.args["elements"][1][j]
            if fam == "pwl_cost" and "power_type" in sp.args and sp.args["power_type"][0] == "v" and g.B(0.6):
                sp.args["power_type"][1][i] = sp.args["power_type"][1][j]
    return scen


# ------------------------------------------------------------------------------------------------ known defect signatures
MISSING = object()
F12_COLS = ["shift_degree"] + ["tap%s_%s" % (s, k) for s in ("", "2") for k in (
    "side", "neutral", "min", "max", "step_percent", "step_degree", "changer_type")]
TEXT_LIST_ARGS = {"trafo_fp": ("vector_group", "tap2_side", "tap2_changer_type"),
                  "trafo3w": ("tap_changer_type",), "trafo3w_fp": ("tap_changer_type",)}
STD_KIND = {"trafo": "trafo", "trafo3w": "trafo3w", "line": "line", "line_dc": "line_dc"}


def given(sp, k, i):
    return sp.get(k, i) if k in sp.args else MISSING


def unset(x):
    return x is MISSING or _isnull(x)


def std_of(net, fam, sp, i):
    return net.std_types[STD_KIND[fam]][sp.get("std_type", i)]


def shunt_vn_model(net, sp):
    """create_shunts without vn_kv passes net.bus.vn_kv.loc[buses], a Series labelled by *bus*; _check_entry keeps it as a Series
    when all its labels occur among the new shunt labels and DataFrame.assign then aligns it by label (shunt_create.py:152-153,
    _utils.py:335-340).  Returns None (defect not triggered), 'crash' (duplicate bus labels cannot be aligned) or the predicted
    vn_kv of the created rows."""
    st, labels = index_model(net, sp, "shunt")
    buses = [int(b) for b in sp.args["buses"][1]]
    if "vn_kv" in sp.args or st != "ok" or not set(buses) <= set(labels) or not set(buses) <= set(int(x) for x in net.bus.index):
        return None
    if len(set(buses)) < len(buses):
        return "crash"
    return [float(net.bus.vn_kv.at[l]) if l in buses else nan for l in labels]


def explain_value(fam, net, sp, col, i, a, b):
    """name of the defect whose precise trigger and predicted values match the differing cell (a = batch, b = single), else None"""
    table = FAMILIES[fam][0]
    if fam == "trafo":
        std = std_of(net, fam, sp, i)
        # create_transformers copies neither shift_degree nor any tap parameter of the std type (trafo_create.py:257-261)
        if col in F12_COLS and col in std and unset(given(sp, col, i)):
            dropped = same(a, 0.0 if col == "shift_degree" else None) or (col == "tap2_side" and a == "nan" and col in net.trafo.columns)
            if same(b, std[col]) and dropped:     # ("nan": see unset_text_column_filled_with_nan_string)
                return "transformers_std_type_shift_and_tap_dropped"
        if col in ("tap_pos", "tap2_pos") and col[:-3] + "neutral" in std and unset(given(sp, col, i)):
            if same(b, std[col[:-3] + "neutral"]) and _isnull(a):
                return "transformers_std_type_shift_and_tap_dropped"
    if fam == "shunt" and col == "vn_kv":
        pred = shunt_vn_model(net, sp)
        if isinstance(pred, list) and same(a, pred[i]) and same(b, float(net.bus.vn_kv.at[sp.get("buses", i)])):
            return "shunts_default_vn_kv_aligned_by_label"
    if fam in ("line", "line_dc") and col in ("r0_ohm_per_km", "x0_ohm_per_km", "c0_nf_per_km", "alpha"):
        # create_lines / create_lines_dc copy only r, x, c, max_i, g, type (line_create.py:366-382, 495-507)
        std = std_of(net, fam, sp, i)
        if col in std and unset(given(sp, col, i)) and _isnull(a) and same(b, std[col]):
            return "lines_std_type_optional_params_dropped"
    if fam == "trafo_fp" and col == "tap2_pos" and unset(given(sp, col, i)) and not unset(given(sp, "tap2_neutral", i)):
        # the batch function documents "defaults to tap2_neutral" but only the single one does it (trafo_create.py:468-470 vs 677)
        if _isnull(a) and same(b, sp.get("tap2_neutral", i)):
            return "transformers_from_parameters_tap2_pos_not_defaulted"
    if fam in ("trafo", "trafo_fp") and col in ("vector_group", "tap2_side") and a == "nan" and _isnull(b):
        # _add_to_entries_if_not_nan(..., dtype=str) on an existing column: Series(nan).astype(str) -> "nan" (_utils.py:271-273)
        if col in net[table].columns and unset(given(sp, col, i)):
            return "unset_text_column_filled_with_nan_string"
    if fam in ("trafo3w", "trafo3w_fp") and col in sp.args and _isnull(b) and same(a, sp.get(col, i)):
        # the single 3w functions accept **kwargs and never store them (trafo_create.py:767-820, 1071-1110)
        if col not in inspect.signature(getattr(pp, FAMILIES[fam][1])).parameters:
            return "transformer3w_single_ignores_kwargs"
    return None


def index_model(net, sp, table):
    """decision and labels of the documented index rule evaluated against `table`: ('reject', None) | ('ok', labels)"""
    if "index" not in sp.args:
        t = net[table]
        free = int(t.index.max()) + 1 if len(t) else 0
        return "ok", list(range(free, free + sp.n))
    idx = [int(x) for x in sp.args["index"][1]]
    if len(set(idx)) < len(idx) or set(idx) & set(int(x) for x in net[table].index):
        return "reject", None
    return "ok", idx


WRONG_TABLE = {"line_dc_fp": ("line", "lines_dc_from_parameters_index_from_line_table"),   # line_create.py:1013
               "ward": ("storage", "wards_index_from_storage_table")}                    # ward_create.py:105


def explain_wrong_table(fam, net, sp, scen, sa, la, sb, lb):
    """index taken from / checked against the sibling table: both observations must equal the two model evaluations"""
    if fam not in WRONG_TABLE or scen in ("bad_node",):
        return None
    other, mech = WRONG_TABLE[fam]
    ma, mb = index_model(net, sp, other), index_model(net, sp, FAMILIES[fam][0])
    if la is None or lb is None:    # decisions differ: compare the decisions only
        return mech if (ma[0], mb[0]) == (sa, sb) else None
    return mech if ma == (sa, la) and mb == (sb, lb) and ma != mb else None


def cost_models(net, fam, sp):
    """(decision of the documented rule = sequence of single calls, decision predicted from _costs_existance_check as written)"""
    n = sp.n
    els = [int(sp.get("elements", i)) for i in range(n)]
    ets = [sp.get("et", i) for i in range(n)]
    pwl = fam == "pwl_cost"
    pt_kind, pt_val = sp.args.get("power_type", ("s", "p")) if pwl else ("s", None)
    pts = [pt_val if pt_kind == "s" else pt_val[i] for i in range(n)]
    P = [(int(r.element), r.et) for r in net.poly_cost.itertuples()]
    W = [(int(r.element), r.et, r.power_type) for r in net.pwl_cost.itertuples()]
    # documented rule: an element may carry either one polynomial cost or piecewise costs (one per power type)
    p_set, w_set, truth, vs_existing = set(P), set(W), "ok", False
    for e, t, pt in zip(els, ets, pts):
        if pwl:
            clash = (e, t) in p_set or (e, t, pt) in w_set
            vs_existing |= (e, t) in set(P) or (e, t, pt) in set(W)
        else:
            clash = (e, t) in p_set or any(w[:2] == (e, t) for w in w_set)
            vs_existing |= (e, t) in set(P) or any(w[:2] == (e, t) for w in W)
        if clash:
            truth = "reject"
        (w_set.add((e, t, pt)) if pwl else p_set.add((e, t)))
    # the code: _utils.py:119-137
    if sp.args["et"][0] == "s" and pt_kind == "s":
        branch = "str"
        c_poly = sum(1 for e, t in P if e in els and t == ets[0])
        c_pwl = sum(1 for e, t, pt in W if e in els and t == ets[0] and (pts[0] is None or pt == pts[0]))
        model = "reject" if (c_poly & c_pwl) >= 1 else "ok"
    else:
        branch = "list"
        if pt_kind == "v" and (n >= 2 or sp.args["et"][0] == "s") or sp.args["et"][0] == "s":
            model = "crash"     # numpy.c_ with a str directive / [power_type] * n is a list of lists
        else:
            new2 = [(str(e), str(t)) for e, t in zip(els, ets)]
            dup = (len(P) - len(set(P))) + (len(new2) - len(set(new2)))
            if pts[0] is None:
                w2 = [w[:2] for w in W]
                dup += (len(w2) - len(set(w2))) + (len(new2) - len(set(new2)))
            else:
                new3 = [(str(e), str(t), str(pt)) for e, t, pt in zip(els, ets, pts)]
                dup += (len(W) - len(set(W))) + (len(new3) - len(set(new3)))
            model = "reject" if dup >= 1 else "ok"
    return truth, model, branch, vs_existing


def explain_cost_decision(fam, net, sp, sa, ea, sb):
    truth, model, branch, vs_existing = cost_models(net, fam, sp)
    if index_model(net, sp, FAMILIES[fam][0])[0] != "ok" or truth != sb:
        return None     # an index problem decides the call, or the reference rule itself does not reproduce the single functions
    observed = "crash" if sa == "reject" and not isinstance(ea, UserWarning) else sa
    if observed != model:
        return None
    if model == "crash":
        return "pwl_costs_power_type_list_crash" if fam == "pwl_cost" and sp.args.get("power_type", ("s",))[0] == "v" else None
    if branch == "str" and sa == "ok":
        return "costs_existence_check_bitwise_and" if vs_existing else "costs_existence_check_ignores_duplicates_within_batch"
    if branch == "list":
        return "costs_existence_check_list_et_text_vs_number" if sa == "ok" else "costs_existence_check_list_et_counts_existing_pq_pairs"
    return None


def explain_decision(fam, net, sp, scen, sa, ea, sb, eb):
    if fam in ("poly_cost", "pwl_cost"):
        return explain_cost_decision(fam, net, sp, sa, ea, sb)
    if fam in WRONG_TABLE:
        return explain_wrong_table(fam, net, sp, scen, sa, None, sb, None)
    if sa == "reject" and sb == "ok":
        ets = [sp.get("et", i) for i in range(sp.n)] if fam == "switch" else []
        if fam == "switch" and isinstance(ea, UserWarning) and all(e == "t3" for e in ets):
            return "switches_only_t3_rejected"          # switch_create.py:205-217
        if fam == "shunt" and isinstance(ea, ValueError) and shunt_vn_model(net, sp) == "crash":
            return "shunts_default_vn_kv_aligned_by_label"
        if fam == "impedance" and not isinstance(ea, UserWarning) and ("rft0_pu" in sp.args or "gf0_pu" in sp.args):
            return "impedances_zero_sequence_args_crash"    # impedance_create.py:367-378: scalar setter called with the index array
        if isinstance(ea, TypeError) and any(k in sp.args and sp.args[k][0] == "v" for k in TEXT_LIST_ARGS.get(fam, ())):
            return "text_list_argument_isnan_typeerror"     # _utils.py:192-203 (_not_nan on a list of str/None)
    return None


def compare_rows(fam, table, ra, rb):
    """cell-wise comparison of the created rows (positional); returns list of (col, pos, a, b), n_cells, n_via_default"""
    cols = electrical_columns(table, list(dict.fromkeys(list(ra.columns) + list(rb.columns))))
    diffs, cells, via = [], 0, 0
    for c in cols:
        for i in range(len(ra)):
            a = ra[c].iloc[i] if c in ra.columns else None
            b = rb[c].iloc[i] if c in rb.columns else None
            eq, d = cell_equal(table, c, a, b)
            cells += 1
            via += d
            if not eq:
                diffs.append((c, i, _py(a), _py(b)))
    return diffs, cells, via


def spec_tags(net, fam, sp):
    """what the argument vector exercises (coverage evidence)"""
    tags, nodes = set(), set(FAMILIES[fam][5]) | {"elements", "index", "points", "geodata"}
    for k, (kind, x) in sp.args.items():
        if k in nodes:
            continue
        tags.add("scalar_broadcast" if kind == "s" else "vector_arg")
        if kind == "v" and any(_isnull(e) for e in x) and not all(_isnull(e) for e in x):
            tags.add("partly_nan_vector")
    if "index" in sp.args:
        tags.add("explicit_index")
    if sp.as_array:
        tags.add("numpy_vectors")
    if "c24_user_col" in sp.args:
        tags.add("kwargs_column")
    if fam in STD_KIND:
        names = set(sp.get("std_type", i) for i in range(sp.n))
        stds = [net.std_types[STD_KIND[fam]][nm] for nm in names]
        if any(nm.startswith("c24_") for nm in names):
            tags.add("user_std_type")
        if any(d.get("shift_degree", 0) or d.get("shift_mv_degree", 0) or d.get("shift_lv_degree", 0) for d in stds):
            tags.add("std_with_shift")
        if any("tap_changer_type" in d for d in stds):
            tags.add("std_with_tap_changer")
        if any(d.get("tap_step_degree", 0) for d in stds):
            tags.add("std_with_tap_step_degree")
        if any("r0_ohm_per_km" in d or "vk0_percent" in d for d in stds):
            tags.add("std_with_zero_sequence")
        if len(names) > 1:
            tags.add("std_type_list")
    for k in ("tap_pos", "tap2_pos", "parallel", "df", "slack", "slack_weight", "controllable", "max_p_mw", "shift_degree"):
        if k in sp.args:
            tags.add("arg:" + k)
    if any(k.startswith("const_") for k in sp.args):
        tags.add("arg:zip_percent")
    if fam in ("poly_cost", "pwl_cost"):
        if len(net.poly_cost):
            tags.add("existing_poly_cost")
        if len(net.pwl_cost):
            tags.add("existing_pwl_cost")
        tags.add("cost_et_" + ("scalar" if sp.args["et"][0] == "s" else "list"))
    return tags


def make_case(seed, case_no):
    """deterministic construction of one case: prepared net, argument vector, scenario (or a skip reason)"""
    g = netgen.G(seed)
    fam = FAM_ORDER[case_no % len(FAM_ORDER)]
    gen, prep = FAMILIES[fam][3], FAMILIES[fam][4]
    net = base_net(g)
    if prep:
        prep(g, net)
    n_pre = g.C([0, 0, 1, 2, 3])
    if n_pre:
        pre = gen(g, net, n_pre)
        if fam in ("poly_cost", "pwl_cost"):   # existing costs: one by one, keeping those the single function accepts
            single = getattr(pp, FAMILIES[fam][1])
            for i in range(n_pre):
                try:
                    single(net, **pre.single_kwargs(i, REN_NODE))
                except UserWarning:
                    pass
        elif (run_single(net, fam, pre)[0] if g.B(0.6) else run_batch(net, fam, pre)[0]) != "ok":
            return fam, net, pre, "prep_rejected", n_pre
    sp = gen(g, net, g.C([1, 2, 2, 3, 3, 4, 5]))
    sp.as_array = g.B(0.3)
    scen = add_scenario(g, net, fam, sp, n_pre)
    return fam, net, sp, scen, n_pre


def run_case(seed, tier, case_no):
    fam, net, sp, scen, n_pre = make_case(seed, case_no)
    table, n = FAMILIES[fam][0], sp.n
    tags = {"fam:" + fam, "scen:" + scen}
    if scen == "prep_rejected":
        return common.case(common.sha([fam, seed]), nontrivial=False, tags=tags, skipped=scen, sample={"pre": sp.describe()})
    if n_pre:
        tags.add("pre_rows")
    tags |= spec_tags(net, fam, sp)
    n0 = len(net[table])
    A, B = copy.deepcopy(net), copy.deepcopy(net)
    sa, ea, idx_a = run_batch(A, fam, sp)
    sb, eb, idx_b, pos_b = run_single(B, fam, sp)
    sample = dict(sp.describe(), scenario=scen, pre_rows=n_pre, rows_before=n0)
    digest = common.sha(sample)
    viols, extra = [], {"cells": 0, "via_default": 0, "unexplained": 0}
    W = dict(family=fam, scenario=scen, batch=FAMILIES[fam][2], single=FAMILIES[fam][1])
    if sa != sb:
        viols.append(common.viol("%s %s but the sequence of %s %s" % (
            FAMILIES[fam][2], "raised %r" % (ea,) if sa == "reject" else "accepted",
            FAMILIES[fam][1], "raised %r at element %s" % (eb, pos_b) if sb == "reject" else "accepted"),
            mechanism=explain_decision(fam, net, sp, scen, sa, ea, sb, eb),
            kind="decision", batch_exc=type(ea).__name__ if ea else None, single_exc=type(eb).__name__ if eb else None, **W))
        tags.add("decision_differs")
    elif sa == "reject":
        tags.add("both_reject")
        tags.add("both_reject:" + scen)
    else:
        tags.add("both_accept")
        ta, tb = A[table], B[table]
        ra, rb = ta.iloc[n0:], tb.iloc[n0:]
        if len(ra) != n or len(rb) != n:
            viols.append(common.viol("number of created rows: batch %d, single %d, requested %d" % (len(ra), len(rb), n), kind="rows", **W))
        else:
            la, lb = [int(x) for x in ra.index], [int(x) for x in rb.index]
            if la != lb or idx_a != la:
                viols.append(common.viol("index of created rows differs: batch rows %s (returned %s), single rows %s" % (la, idx_a, lb),
                                         mechanism=explain_wrong_table(fam, net, sp, scen, "ok", la, "ok", lb) if idx_a == la else None,
                                         kind="index", a=la, b=lb, returned=idx_a, **W))
            diffs, cells, via = compare_rows(fam, table, ra, rb)
            extra["cells"], extra["via_default"] = cells, via
            seen = set()
            for c, i, a, b in diffs:
                mech = explain_value(fam, net, sp, c, i, a, b)
                if (c, mech) not in seen:       # one record per column and explanation
                    seen.add((c, mech))
                    viols.append(common.viol("%s.%s of created row %d: batch %r, single %r" % (table, c, i, a, b), mechanism=mech,
                                             kind="value", col=c, pos=i, a=a, b=b, **W))
    extra["unexplained"] = sum(1 for v in viols if v["mechanism"] is None)
    nontrivial = sa == "ok" or sb == "ok" or scen != "valid"
    return common.case(digest, nontrivial=nontrivial, tags=tags, violations=viols, sample=sample, evals=1 + n, extra=extra)
assert _FAMS == FAM_ORDER
