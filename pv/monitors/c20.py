"""C20 - saving and loading a network loses nothing.

One case = a seeded network (random generator or a bundled example) decorated with hostile content (numeric-looking / empty /
unicode / quoted names, extreme floats, custom columns, nullable dtypes, unsorted and sparse indices, geodata, controllers,
groups, characteristics, cost tables, user_pf_options, custom standard types, extra tables) and two save/load routes.
The oracle is an own deep comparison of the two network objects plus identical runpp results of both.
"""
import copy
import io
import os

import numpy as np
import pandas as pd
import pandapower as pp
import pandapower.control as ppc
import pandapower.networks as pn
from pandapower.control.util.characteristic import Characteristic, SplineCharacteristic
from pandapower.timeseries.data_sources.frame_data import DFData

from .. import common, pf
from ..gen import netgen

PROPERTY = "C20"
READY = True
LEVEL = "exploration"
TECHNIQUE = ("runtime monitoring: own deep comparison (tables, index, dtypes, values, objects, dicts) of original vs. "
             "saved-and-loaded network for every I/O route, plus identical power flow results")
CASES = {"quick": 190, "thorough": 6000}
BUDGET = {"quick": 60, "thorough": 1500}
CASE_TIMEOUT = 180
FLOORS = {"quick": {"nontrivial": 65, "max_skip_frac": 0.2,
                    "tags": {"route:json_string": 38, "route:json_file": 17, "route:json_encrypted": 17, "route:json_filelike": 20,
                             "route:pickle": 33, "route:pickle_filelike": 10, "route:excel": 24, "route:sqlite": 25,
                             "loaded:excel": 18, "loaded:sqlite": 18, "loaded:pickle": 25, "loaded:json_string": 30,
                             "hostile_names": 85, "extreme_floats": 70, "inf": 20, "nullable_dtypes": 65, "custom_columns": 80,
                             "geodata": 60, "controller": 45, "group": 30, "characteristic": 50, "user_pf_options": 40,
                             "custom_std_type": 55, "unsorted_index": 55, "cost": 40, "results_saved": 65, "extra_table": 30,
                             "tap_table": 20, "named_index": 8},
                    "extras": {"tables_compared": 11000, "cells_compared": 140000, "objects_compared": 250, "pf_pairs": 130}},
          "thorough": {"nontrivial": 2000, "max_skip_frac": 0.2,
                       "tags": {"route:json_string": 1200, "route:pickle": 1000, "loaded:excel": 500, "loaded:sqlite": 500, "inf": 600,
                                "controller": 1400, "group": 900},
                       "extras": {"tables_compared": 350000, "pf_pairs": 4000}}}
RULE = ("base net (pv.gen.netgen profile or bundled example) x independent hostile decorations drawn from the seed x two routes "
        "(one JSON variant, one of pickle / Excel / SQLite); non-trivial = >= 3 decorations present and both routes loaded; "
        "distinct = digest of all input tables + decoration list + routes")
ASSUMPTIONS = ["JSON: floats within 1e-14*max(1,|x|) (the encoder writes 15 decimal places for DataFrame cells), everything "
               "else exact; pickle: exact; missing-value markers (None / NaN / pd.NA) in object columns are one value",
               "row and column order are not part of the property (to_json documents sorted indices); index labels, index "
               "dtype, column set and column dtypes are",
               "keys starting with '_' are documented as not saved",
               "Excel / SQLite: element tables only, cells that the format can represent: finite numbers, booleans, "
               "non-empty strings without leading/trailing blanks that do not look like numbers; dtypes of numeric columns",
               "identical results: runpp with tolerance 1e-9 on both, result tables within 1e-9*(1+|x|)"]

HOSTILE = ["123", "1e5", "", " ", "nan", "NaN", "None", "null", "true", "False", "Infinity", "-inf", 'a"b', "a\\b", "a\\\\\"b", "a\nb", "\t",
           "ünïcödé ✓ 变压器", "'; DROP TABLE bus;--", '{"a": 1}', "[1, 2]", "x" * 300, "0x1F", "-0", "1,5", "1.0",
           "01", " lead", "trail ", "a;b", "a,b", "%s %d", "{}", " ", "\\u0041", "é", "NULL", "#N/A", "=1+1", "@x", "名前"]
FLOATS = [1e-300, 1e300, 1e-200, 0.1 + 0.2, -0.0, 1 / 3, np.pi * 1e10, 1e-15, 123456789.123456789,
          float(np.float32(0.1)), 9007199254740993.0, -1e-7, 1e22, 1e21, 0.30000000000000004, 4.35, 2.675]
ELEMENT_TABLES = ["bus", "load", "sgen", "gen", "ext_grid", "line", "trafo", "trafo3w", "switch", "shunt", "impedance", "ward", "xward",
                  "storage", "motor", "dcline", "asymmetric_load", "asymmetric_sgen"]
JSON_ROUTES = ["json_string", "json_string", "json_file", "json_encrypted", "json_filelike"]
OTHER_ROUTES = ["pickle", "pickle", "pickle_filelike", "excel", "excel", "sqlite", "sqlite"]


class MyController(ppc.basic_controller.Controller):
    """a user-defined controller with plain attributes (the documented way to add controllers)"""

    def __init__(self, net, element_index, factor, label, **kwargs):
        super().__init__(net, **kwargs)
        self.element_index = element_index
        self.factor = factor
        self.label = label
        self.history = [1, 2.5, "x", None]
        self.settings = {"a": 1, "b": [1, 2], "c": {"d": 0.1}}
        self.applied = False

    def is_converged(self, net):
        return True


# ------------------------------------------------------------------------------------------------ generator
def base_net(g, seed):
    kind = g.C(["rnd", "rnd", "rnd", "rnd", "example"])
    if kind == "example":
        name = g.C(["case9", "case14", "mv_oberrhein", "example_multivoltage", "cigre_mv", "case30", "example_simple"])
        net = {"case9": pn.case9, "case14": pn.case14, "mv_oberrhein": pn.mv_oberrhein, "example_multivoltage": pn.example_multivoltage,
               "cigre_mv": lambda: pn.create_cigre_network_mv(with_der="all"), "case30": pn.case30, "example_simple": pn.example_simple}[name]()
        return net, "example:" + name
    prof = g.C(["simple", "full_mix", "dist_radial", "weakly_meshed", "multi_island"])
    return netgen.rnd_net(seed, prof, {"tabular": 0.3}), "rnd:" + prof


def decorate(net, g, routes=()):
    """hostile content; returns the set of decoration tags"""
    R, B, I, C = g.R, g.B, g.I, g.C
    tags = set()
    tables = [t for t in ELEMENT_TABLES if len(net[t])]
    sql = "sqlite" in routes        # to_sqlite cannot store list cells (known finding): keep most sqlite cases free of them

    def rnd_str():
        return C(HOSTILE)

    if B(0.85):
        tags.add("hostile_names")
        for t in g.rng.choice(tables, size=min(len(tables), I(1, 4)), replace=False):
            col = "name" if B(0.8) or "type" not in net[t] else "type"
            vals = net[t][col].astype(object).copy()
            for i in net[t].index:
                if B(0.6):
                    vals.at[i] = None if B(0.08) else rnd_str()
            net[t][col] = vals
        if B(0.3):
            net.name = rnd_str() if B(0.7) else C(["pv_module_test", "grid_class_A", "my_module"])
    if B(0.75):
        tags.add("extreme_floats")
        t = C(tables)
        vals = np.array([C(FLOATS) * C([1, -1]) if B(0.7) else R(-10, 10) for _ in range(len(net[t]))], dtype=float)
        if B(0.3):
            vals[g.rng.random(len(vals)) < 0.3] = np.nan
        net[t]["my_float"] = vals
        if len(net.load) and B(0.5):
            net.load.loc[net.load.index[0], "p_mw"] = 0.1 + 0.2
        if B(0.5):
            net.bus["max_vm_pu"] = [C([1.1, 1.05, 1 + 1e-15, 1.0999999999999999]) for _ in range(len(net.bus))]
    if B(0.25):
        tags.add("inf")
        t = C(tables)
        col = "my_inf"
        v = np.array([C([np.inf, -np.inf, 1.5, np.nan]) for _ in range(len(net[t]))], dtype=float)
        v[0] = C([np.inf, -np.inf])
        net[t][col] = v
        if B(0.4) and len(net.load):
            net.load["max_p_mw"] = np.inf          # "unlimited" markers in columns the power flow does not read
            net.load["min_p_mw"] = -np.inf
    if B(0.85):
        tags.add("custom_columns")
        for t in g.rng.choice(tables, size=min(len(tables), I(1, 3)), replace=False):
            n = len(net[t])
            kind = C(["int64", "int32", "uint8", "float32", "bool", "str", "mixed_obj", "list_obj"])
            if kind == "list_obj" and sql and B(0.8):
                kind = "str"
            cname = C(["my_col", "col with space", "ünï", "123", "my_Col2", "x.y"])
            if kind in ("int64", "int32", "uint8"):
                net[t][cname] = np.array([I(0, 200) for _ in range(n)], dtype=kind)
            elif kind == "float32":
                net[t][cname] = np.array([R(-5, 5) for _ in range(n)], dtype="float32")
            elif kind == "bool":
                net[t][cname] = np.array([B(0.5) for _ in range(n)], dtype=bool)
            elif kind == "str":
                net[t][cname] = pd.Series([rnd_str() for _ in range(n)], index=net[t].index, dtype=object)
            elif kind == "mixed_obj":
                net[t][cname] = pd.Series([C([1, 2.5, "a", None, True]) for _ in range(n)], index=net[t].index, dtype=object)
            else:
                net[t][cname] = pd.Series([C([[1, 2], [], [0.5, "a"], None]) for _ in range(n)], index=net[t].index, dtype=object)
            tags.add("col:" + kind)
    if B(0.7):
        tags.add("nullable_dtypes")
        for t in g.rng.choice(tables, size=min(len(tables), I(1, 2)), replace=False):
            n = len(net[t])
            kind = C(["Int64", "boolean", "string", "Float64"])
            na = g.rng.random(n) < 0.3
            if kind == "Int64":
                v = pd.array([pd.NA if na[k] else I(-5, 2 ** 40 if B(0.1) else 100) for k in range(n)], dtype="Int64")
            elif kind == "boolean":
                v = pd.array([pd.NA if na[k] else B(0.5) for k in range(n)], dtype="boolean")
            elif kind == "string":
                v = pd.array([pd.NA if na[k] else rnd_str() for k in range(n)], dtype="string")
            else:
                v = pd.array([pd.NA if na[k] else C(FLOATS) for k in range(n)], dtype="Float64")
            net[t]["nullable_" + kind] = v
            tags.add("col:" + kind)
    if B(0.55):
        tags.add("unsorted_index")
        t = C([x for x in tables if x in ("load", "sgen", "line", "shunt", "bus", "gen", "trafo")] or ["bus"])
        idx = list(net[t].index)
        new = [int(v) for v in g.rng.choice(np.arange(0, 5 * len(idx) + 10), size=len(idx), replace=False)]
        if B(0.2):
            new[0] = 2 ** 40 + 7
        if t == "bus":
            pp.reindex_buses(net, dict(zip(idx, new)))
        else:
            pp.reindex_elements(net, t, new, idx)
        if B(0.5):
            net[t] = net[t].loc[list(g.rng.permutation(net[t].index))]
    if B(0.2) and not sql:
        tags.add("named_index")
        net[C(tables)].index.name = C(["my_id", "bus_id", "idx"])
    if B(0.65):
        tags.add("geodata")
        geo = ['{"coordinates": [%r, %r], "type": "Point"}' % (R(-180, 180), R(-90, 90)) if B(0.85) else None for _ in net.bus.index]
        net.bus["geo"] = pd.Series(geo, index=net.bus.index, dtype=object)
        if len(net.line):
            lg = []
            for _ in net.line.index:
                pts = [[R(0, 10), R(0, 10)] for _ in range(I(2, 4))]
                lg.append('{"coordinates": %s, "type": "LineString"}' % (pts,) if B(0.8) else None)
            net.line["geo"] = pd.Series(lg, index=net.line.index, dtype=object)
    tr = [int(i) for i in net.trafo.index if net.trafo.tap_side.at[i] in ("hv", "lv") and pd.notna(net.trafo.tap_pos.at[i])] if len(net.trafo) else []
    if B(0.6) and tr:
        tags.add("controller")
        n_ctrl = I(1, 3)
        for _ in range(n_ctrl):
            k = C(["cont_tap", "disc_tap", "const", "my", "char"])
            tags.add("ctrl:" + k)
            if k == "cont_tap":
                ppc.ContinuousTapControl(net, C(tr), vm_set_pu=R(0.98, 1.03), tol=C([1e-3, 1e-4]), in_service=B(0.8), order=I(0, 2), level=I(0, 1))
            elif k == "disc_tap":
                ppc.DiscreteTapControl(net, C(tr), vm_lower_pu=R(0.95, 0.99), vm_upper_pu=R(1.01, 1.05), in_service=B(0.8))
            elif k == "const" and len(net.load):
                li = [int(i) for i in net.load.index[:3]]
                df = pd.DataFrame({str(c): [R(0, 1) for _ in range(4)] for c in range(len(li))})
                if B(0.3):
                    df.iloc[0, 0] = C(FLOATS)
                ppc.ConstControl(net, "load", "p_mw", element_index=li, profile_name=[str(c) for c in range(len(li))], data_source=DFData(df),
                                 in_service=B(0.8))
            elif k == "my":
                MyController(net, C(tr), C(FLOATS), rnd_str(), in_service=B(0.8))
            elif k == "char":
                ch = Characteristic(net, [R(0.9, 0.95), R(1.0, 1.05)], [R(0, 1), R(1, 2)])
                ti = C(tr)
                ppc.CharacteristicControl(net, "trafo", "vk_percent", ti, "trafo", "tap_pos", ti, ch.index, tol=1e-3, in_service=False)
                tags.add("characteristic")
    if B(0.15 if sql else 0.5):
        tags.add("group")
        for _ in range(I(1, 2)):
            ets = [t for t in ("line", "trafo", "load", "bus", "sgen") if len(net[t])]
            ets = list(g.rng.choice(ets, size=min(len(ets), I(1, 3)), replace=False))
            elms = [[int(v) for v in g.rng.choice(net[t].index, size=I(1, min(3, len(net[t]))), replace=False)] for t in ets]
            pp.create_group(net, ets, elms, name=rnd_str() if B(0.7) else "grp")
    if B(0.45):
        tags.add("characteristic")
        for _ in range(I(1, 3)):
            x = np.cumsum([R(0.1, 1) for _ in range(I(3, 6))])
            y = [R(-1, 1) for _ in x]
            if B(0.5):
                Characteristic(net, [float(v) for v in x], y)
            else:
                SplineCharacteristic(net, [float(v) for v in x], y, **({"interpolator_kind": "Pchip"} if B(0.5) else {"kind": "quadratic", "fill_value": (y[0], y[-1])}))
    if B(0.45):
        tags.add("user_pf_options")
        o = {}
        if B(0.6):
            o["tolerance_mva"] = C([1e-7, 1e-9])
        if B(0.5):
            o["trafo_model"] = C(["t", "pi"])
        if B(0.4):
            o["calculate_voltage_angles"] = B(0.5)
        if B(0.3):
            o["max_iteration"] = I(15, 40)
        if B(0.2):
            o["my_option"] = rnd_str()
        pp.set_user_pf_options(net, overwrite=True, **o)
    if B(0.55):
        tags.add("custom_std_type")
        data = {"r_ohm_per_km": C(FLOATS[3:8]), "x_ohm_per_km": R(0.05, 0.3), "c_nf_per_km": I(0, 300), "max_i_ka": R(0.1, 1), "type": C(["cs", "ol"]),
                "q_mm2": I(10, 500)}
        if B(0.4):
            data["note"] = rnd_str()
        if B(0.05 if sql else 0.3):
            data["curve"] = [R(0, 1) for _ in range(3)]
        if B(0.2):
            data["nothing"] = None
        pp.create_std_type(net, data, rnd_str() if B(0.6) else "my type", "line")
        if B(0.4):
            pp.create_std_type(net, {"fuse_type": "f", "i_rated_a": 10.0, "t_avg": [10., 1., 0.1], "x_avg": [20., 50., 100.], "t_min": 0, "x_min": 0,
                                     "t_total": 0, "x_total": 0}, "my fuse", "fuse")
    if B(0.4) and (len(net.gen) or len(net.ext_grid)):
        tags.add("cost")
        for et in ("gen", "ext_grid", "sgen"):
            for i in list(net[et].index)[:2]:
                if et in set(net.poly_cost.et[net.poly_cost.element == i]) | set(net.pwl_cost.et[net.pwl_cost.element == i]):
                    continue
                if B(0.9 if sql else 0.5):
                    pp.create_poly_cost(net, int(i), et, cp1_eur_per_mw=R(0, 10), cp2_eur_per_mw2=C([0., R(0, 1)]), cp0_eur=C(FLOATS[:6]))
                else:
                    pp.create_pwl_cost(net, int(i), et, [[0., 10., R(0, 5)], [10., 20., R(5, 9)]])
    if B(0.4):
        tags.add("extra_table")
        k = C(["df_str_index", "df_plain", "dict", "scalar", "df_multiindex"])
        if k == "df_multiindex" and any(r in ("excel", "sqlite") for r in routes):
            k = "df_plain"       # a frame with a named MultiIndex is not "element data" of the tabular formats
        tags.add("extra:" + k)
        if k == "df_str_index":
            net["my_table"] = pd.DataFrame({"a": [1, 2, 3], "b": [0.5, C(FLOATS), np.nan], "c": ["x", rnd_str(), None]}, index=["r1", "r 2", "ü"])
        elif k == "df_plain":
            net["my_table"] = pd.DataFrame({"a": np.arange(4, dtype="int64"), "f": [R(0, 1) for _ in range(4)]})
        elif k == "dict":
            net["my_dict"] = {"a": 1, "b": [1, 2.5, "x"], "c": {"d": rnd_str(), "e": C(FLOATS)}, "f": None, "g": True}
        elif k == "scalar":
            net["my_value"] = C([1, 2.5, "text", True, C(FLOATS)])
        else:
            net["my_table"] = pd.DataFrame({"v": [1., 2., 3., 4.]}, index=pd.MultiIndex.from_tuples([(0, 1), (0, 2), (1, 1), (1, 5)], names=["a", "b"]))
    if "trafo_characteristic_table" in net and len(net["trafo_characteristic_table"]):
        tags.add("tap_table")
    return tags


# ------------------------------------------------------------------------------------------------ routes
def _scratch(name):
    d = os.path.join(common.WORK, "c20")
    os.makedirs(d, exist_ok=True)
    return os.path.join(d, "%d_%s" % (os.getpid(), name))


def roundtrip(net, route, g):
    if route == "json_string":
        return pp.from_json_string(pp.to_json(net, **({"indent": None} if g.B(0.3) else {})))
    if route == "json_encrypted":
        key = g.C(["k", "pässwörd 1", "x" * 40])
        return pp.from_json_string(pp.to_json(net, encryption_key=key), encryption_key=key)
    if route == "json_filelike":
        buf = io.StringIO()
        pp.to_json(net, buf)
        buf.seek(0)
        return pp.from_json(buf)
    if route == "pickle_filelike":
        buf = io.BytesIO()
        pp.to_pickle(net, buf)
        buf.seek(0)
        return pp.from_pickle(buf)
    ext = {"json_file": ".json", "pickle": ".p", "excel": ".xlsx", "sqlite": ".db"}[route]
    path = _scratch("net" + ext)
    if os.path.exists(path):
        os.remove(path)
    try:
        if route == "json_file":
            pp.to_json(net, path)
            return pp.from_json(path)
        if route == "pickle":
            pp.to_pickle(net, path)
            return pp.from_pickle(path)
        if route == "excel":
            pp.to_excel(net, path)
            return pp.from_excel(path)
        pp.to_sqlite(net, path)
        return pp.from_sqlite(path)
    finally:
        if os.path.exists(path):
            os.remove(path)


# ------------------------------------------------------------------------------------------------ deep comparison
def _isna(v):
    if v is None or v is pd.NA or v is pd.NaT:
        return True
    if isinstance(v, (float, np.floating)):
        return bool(np.isnan(v))
    return False


class Cmp:
    """collects differences between an original and a loaded object graph"""

    def __init__(self, rtol):
        self.rtol = rtol
        self.diffs = []          # (path, kind, detail)
        self.n_tables = 0
        self.n_cells = 0
        self.n_objects = 0

    def add(self, path, kind, detail):
        if len(self.diffs) < 40:
            self.diffs.append((path, kind, detail))

    def num(self, a, b):
        if _isna(a) and _isna(b):
            return True
        if _isna(a) or _isna(b):
            return False
        a, b = float(a), float(b)
        if a == b:
            return True
        if np.isinf(a) or np.isinf(b):
            return False
        return abs(a - b) <= self.rtol * max(1., abs(a), abs(b))

    def value(self, a, b, path):
        """generic recursive comparison of cell / attribute values"""
        if _isna(a) and _isna(b):
            return
        if isinstance(a, pd.DataFrame) or isinstance(b, pd.DataFrame):
            if not (isinstance(a, pd.DataFrame) and isinstance(b, pd.DataFrame)):
                self.add(path, "type", "%s -> %s" % (type(a).__name__, type(b).__name__))
            else:
                self.frame(a, b, path)
            return
        if isinstance(a, pd.Series) or isinstance(b, pd.Series):
            if not (isinstance(a, pd.Series) and isinstance(b, pd.Series)):
                self.add(path, "type", "%s -> %s" % (type(a).__name__, type(b).__name__))
            else:
                self.frame(a.to_frame("s"), b.to_frame("s"), path)
            return
        if isinstance(a, dict) or isinstance(b, dict):
            if not (isinstance(a, dict) and isinstance(b, dict)):
                self.add(path, "type", "%s -> %s" % (type(a).__name__, type(b).__name__))
                return
            ka, kb = set(a.keys()), set(b.keys())
            if ka != kb:
                self.add(path, "keys", "only before: %s, only after: %s" % (sorted(map(repr, ka - kb))[:5], sorted(map(repr, kb - ka))[:5]))
            for k in a:
                if k in b:
                    self.value(a[k], b[k], "%s[%r]" % (path, k))
            return
        if isinstance(a, (list, tuple, np.ndarray, pd.Index)) or isinstance(b, (list, tuple, np.ndarray, pd.Index)):
            seq = (list, tuple, np.ndarray, pd.Index)
            if not (isinstance(a, seq) and isinstance(b, seq)):
                self.add(path, "type", "%s -> %s" % (type(a).__name__, type(b).__name__))
                return
            if isinstance(a, tuple) != isinstance(b, tuple) and (isinstance(a, tuple) or isinstance(b, tuple)):
                self.add(path, "type", "%s -> %s" % (type(a).__name__, type(b).__name__))
            la, lb = list(a), list(b)
            if len(la) != len(lb):
                self.add(path, "len", "%d -> %d" % (len(la), len(lb)))
                return
            for k, (x, y) in enumerate(zip(la, lb)):
                self.value(x, y, "%s[%d]" % (path, k))
            return
        if isinstance(a, (bool, np.bool_)) or isinstance(b, (bool, np.bool_)):
            if not (isinstance(a, (bool, np.bool_)) and isinstance(b, (bool, np.bool_)) and bool(a) == bool(b)):
                self.add(path, "value", "%r -> %r" % (a, b))
            return
        if isinstance(a, (int, float, np.integer, np.floating)) and isinstance(b, (int, float, np.integer, np.floating)):
            if isinstance(a, (int, np.integer)) != isinstance(b, (int, np.integer)) and float(a) != float(b):
                self.add(path, "value", "%r -> %r" % (a, b))
            elif not self.num(a, b):
                self.add(path, "value", "%r -> %r" % (a, b))
            return
        if isinstance(a, str) or isinstance(b, str):
            if not (isinstance(a, str) and isinstance(b, str) and a == b):
                self.add(path, "value", "%r -> %r" % (a if not isinstance(a, str) else a[:60], b if not isinstance(b, str) else b[:60]))
            return
        if hasattr(a, "__dict__") and hasattr(b, "__dict__"):
            self.n_objects += 1
            if type(a).__name__ != type(b).__name__ or type(a).__module__ != type(b).__module__:
                self.add(path, "class", "%s.%s -> %s.%s" % (type(a).__module__, type(a).__name__, type(b).__module__, type(b).__name__))
                return
            da = {k: v for k, v in a.__dict__.items() if k not in getattr(a, "json_excludes", [])}
            db = {k: v for k, v in b.__dict__.items() if k not in getattr(b, "json_excludes", [])}
            self.value(da, db, path + ".__dict__")
            return
        if type(a) is not type(b):
            self.add(path, "type", "%s -> %s" % (type(a).__name__, type(b).__name__))
            return
        try:
            if not a == b:
                self.add(path, "value", "%r -> %r" % (a, b))
        except Exception:  # noqa
            if repr(a) != repr(b):
                self.add(path, "value", "%r -> %r" % (a, b))

    def frame(self, a, b, path, dtypes=True, columns=None):
        self.n_tables += 1
        if isinstance(a.index, pd.MultiIndex) != isinstance(b.index, pd.MultiIndex):
            self.add(path, "index", "MultiIndex %s -> %s" % (isinstance(a.index, pd.MultiIndex), isinstance(b.index, pd.MultiIndex)))
            return
        ia, ib = list(a.index), list(b.index)
        if len(ia) != len(ib) or set(map(repr, ia)) != set(map(repr, ib)):
            self.add(path, "index", "labels %s -> %s" % (ia[:8], ib[:8]))
            return
        if len(set(map(repr, ia))) != len(ia):
            b2 = b          # duplicate labels: positional
        else:
            try:
                b2 = b.loc[ia]
            except Exception as e:  # noqa
                self.add(path, "index", "labels of different type: %r -> %r (%s)" % (ia[:5], ib[:5], type(e).__name__))
                return
        if dtypes and len(a) and str(a.index.dtype) != str(b.index.dtype):
            self.add(path, "index_dtype", "%s -> %s" % (a.index.dtype, b.index.dtype))
        if dtypes and (a.index.names != b.index.names):
            self.add(path, "index_name", "%s -> %s" % (list(a.index.names), list(b.index.names)))
        ca, cb = list(a.columns), list(b.columns)
        if columns is None:
            if set(map(repr, ca)) != set(map(repr, cb)):
                self.add(path, "columns", "only before: %s, only after: %s" % ([c for c in ca if repr(c) not in set(map(repr, cb))][:6],
                                                                               [c for c in cb if repr(c) not in set(map(repr, ca))][:6]))
            cols = [c for c in ca if c in b2.columns]
        else:
            cols = [c for c in columns if c in a.columns]
            missing = [c for c in cols if c not in b2.columns]
            if missing:
                self.add(path, "columns", "lost: %s" % missing[:6])
            cols = [c for c in cols if c in b2.columns]
        for c in cols:
            sa, sb = a[c], b2[c]
            if isinstance(sa, pd.DataFrame) or isinstance(sb, pd.DataFrame):
                continue   # duplicate column names
            if dtypes and str(sa.dtype) != str(sb.dtype) and len(sa):
                self.add("%s.%s" % (path, c), "dtype", "%s -> %s" % (sa.dtype, sb.dtype))
            self.n_cells += len(sa)
            va, vb = sa.values, sb.values
            if sa.dtype.kind in "fiub" and sb.dtype.kind in "fiub":
                fa, fb = va.astype(float), vb.astype(float)
                with np.errstate(all="ignore"):
                    ok = (fa == fb) | (np.isnan(fa) & np.isnan(fb)) | (np.abs(fa - fb) <= self.rtol * np.maximum(1., np.maximum(np.abs(fa), np.abs(fb))))
                ok &= ~(np.isinf(fa) ^ np.isinf(fb))
                if not ok.all():
                    k = int(np.flatnonzero(~ok)[0])
                    self.add("%s.%s[%r]" % (path, c, ia[k]), "value", "%r -> %r (%d cell(s))" % (va[k], vb[k], int((~ok).sum())))
                continue
            n0 = len(self.diffs)
            for k in range(len(va)):
                self.value(va[k], vb[k], "%s.%s[%r]" % (path, c, ia[k]))
                if len(self.diffs) > n0:
                    break


def compare_full(a, b, rtol):
    """complete comparison (JSON / pickle routes)"""
    c = Cmp(rtol)
    ka = {k for k in a.keys() if not k.startswith("_")}
    kb = {k for k in b.keys() if not k.startswith("_")}
    if ka != kb:
        c.add("net", "keys", "only before: %s, only after: %s" % (sorted(ka - kb)[:8], sorted(kb - ka)[:8]))
    if type(a) is not type(b):
        c.add("net", "class", "%s -> %s" % (type(a).__name__, type(b).__name__))
    for k in sorted(ka & kb):
        c.value(a[k], b[k], "net." + k)
    return c


def _representable(v):
    """cell values that both spreadsheet and SQL columns can hold unambiguously"""
    if isinstance(v, (bool, np.bool_, int, np.integer)):
        return True
    if isinstance(v, (float, np.floating)):
        return bool(np.isfinite(v)) and (v == 0 or 1e-300 < abs(v) < 1e300)
    if isinstance(v, str):
        if not v or v != v.strip() or len(v) > 200 or any(ch in v for ch in "\n\t\r "):
            return False
        try:
            float(v.replace(",", "."))
            return False
        except ValueError:
            pass
        return v.lower() not in ("nan", "none", "null", "true", "false", "inf", "-inf", "infinity", "-infinity", "#n/a", "na", "n/a", "<na>") \
            and not v.startswith(("=", "@", "0x", "{", "[", "+", "-"))
    return False


def compare_tabular(a, b, rtol, route):
    """Excel / SQLite: element tables, representable cells, numeric dtypes"""
    c = Cmp(rtol)
    for t in ELEMENT_TABLES:
        if t not in a or not len(a[t]):
            continue
        if t not in b or not isinstance(b[t], pd.DataFrame):
            c.add("net." + t, "table", "missing after load")
            continue
        ta, tb = a[t], b[t]
        c.n_tables += 1
        ia, ib = list(ta.index), list(tb.index)
        if sorted(map(repr, ia)) != sorted(map(repr, ib)):
            c.add("net." + t, "index", "labels %s -> %s" % (ia[:8], ib[:8]))
            continue
        tb = tb.loc[ia]
        for col in ta.columns:
            sa = ta[col]
            if isinstance(sa, pd.DataFrame):
                continue
            kind = sa.dtype.kind
            if str(sa.dtype) in ("Int64", "boolean", "string", "Float64") or col in ("geo",):
                continue                          # extension dtypes / geojson are outside "what the format can represent"
            if col not in tb.columns:
                if any(_representable(v) for v in sa.values):
                    c.add("net.%s.%s" % (t, col), "columns", "column lost")
                continue
            sb = tb[col]
            if kind in "fiub" and str(sa.dtype) != str(sb.dtype) and np.all(np.isfinite(sa.values.astype(float))):
                c.add("net.%s.%s" % (t, col), "dtype", "%s -> %s" % (sa.dtype, sb.dtype))
            for k in range(len(sa)):
                va, vb = sa.values[k], sb.values[k]
                if not _representable(va):
                    continue
                c.n_cells += 1
                if isinstance(va, str):
                    if not (isinstance(vb, str) and va == vb):
                        c.add("net.%s.%s[%r]" % (t, col, ia[k]), "value", "%r -> %r" % (va, vb))
                        break
                elif isinstance(va, (bool, np.bool_)):
                    if _isna(vb) or bool(va) != bool(vb):
                        c.add("net.%s.%s[%r]" % (t, col, ia[k]), "value", "%r -> %r" % (va, vb))
                        break
                else:
                    try:
                        ok = c.num(va, vb)
                    except (TypeError, ValueError):
                        ok = False
                    if not ok:
                        c.add("net.%s.%s[%r]" % (t, col, ia[k]), "value", "%r -> %r" % (va, vb))
                        break
    for k in ("f_hz", "sn_mva", "name"):
        if k in a and _representable(a[k]) and not (k in b and (a[k] == b[k] or (not isinstance(a[k], str) and c.num(a[k], b[k])))):
            c.add("net." + k, "value", "%r -> %r" % (a[k], b.get(k) if hasattr(b, "get") else None))
    return c


RES_TABLES = ["res_bus", "res_line", "res_trafo", "res_trafo3w", "res_ext_grid", "res_gen", "res_load", "res_sgen", "res_shunt", "res_ward", "res_xward",
              "res_impedance", "res_storage", "res_motor"]


def pf_equal(a, b):
    """runpp on copies of both nets with the same call; returns None, a difference text, or 'skip:<why>'"""
    x, y = copy.deepcopy(a), copy.deepcopy(b)
    for n in (x, y):
        if "controller" in n and len(n.controller):
            n.controller["in_service"] = False     # plain power flow of the stored data
    kw = dict(tolerance_mva=1e-9, run_control=False)
    sa, ea = pf.try_run(pp.runpp, x, **kw)
    sb, eb = pf.try_run(pp.runpp, y, **kw)
    if sa != sb:
        return "runpp outcome differs: original %s, loaded %s (%s)" % (sa, sb, str(eb)[:150])
    if sa != "ok":
        return "skip:" + sa
    for t in RES_TABLES:
        if t not in x or not len(x[t]):
            continue
        if t not in y or len(y[t]) != len(x[t]):
            return "%s: missing / different length after load" % t
        ty = y[t].loc[x[t].index]
        xa, ya = x[t].values.astype(float), ty[x[t].columns].values.astype(float)
        bad = ~((np.abs(xa - ya) <= 1e-9 * (1 + np.abs(xa))) | (np.isnan(xa) & np.isnan(ya)))
        if bad.any():
            r, cc = np.argwhere(bad)[0]
            return "%s.%s[%s]: %r vs %r" % (t, x[t].columns[cc], x[t].index[r], xa[r, cc], ya[r, cc])
    return None


# ------------------------------------------------------------------------------------------------ known mechanisms
def classify(route, diff, a, b):
    """name of the known mechanism that explains ONE difference record, else None"""
    path, kind, detail = diff
    if route.startswith("json") and kind == "value" and "inf" in detail:
        # DataFrame cells are written with pandas to_json, which has no representation for +-inf and writes null
        try:
            tab, rest = path[4:].split(".", 1)
            col, lab = rest.rsplit("[", 1)
            va = a[tab][col]
            vb = b[tab][col].reindex(va.index)
            fa, fb = va.values.astype(float), vb.values.astype(float)
            changed = ~((fa == fb) | (np.isnan(fa) & np.isnan(fb)) | (np.abs(fa - fb) <= 1e-14 * np.maximum(1, np.abs(fa))))
            if changed.any() and np.all(np.isinf(fa[changed])) and np.all(np.isnan(fb[changed])):
                return "json_inf_becomes_nan"
        except Exception:  # noqa
            return None
    if route.startswith("pickle") and kind == "index_name":
        # to_pickle stores frames as DataFrame.to_dict("split"), which has no slot for index names
        return "pickle_drops_index_names"
    return None


def classify_exception(route, e, net):
    """mechanism for an exception raised by a save/load route"""
    msg = str(e)
    if route.startswith("json") and type(e).__name__ == "JSONDecodeError":
        # json_pandapowernet() feeds every top-level string that contains "_module" to json.loads
        if any(isinstance(v, str) and "_module" in v and not v.lstrip().startswith("{") for k, v in net.items() if not k.startswith("_")):
            return "to_json_parses_plain_strings_containing_module"
    if route.startswith("pickle") and isinstance(e, ValueError) and "invalid literal for int()" in msg:
        # transform_net_with_df_and_geo() forces every index to int64 and only expects TypeError for labels that are not integers
        if any(isinstance(v, pd.DataFrame) and len(v) and v.index.dtype == object for k, v in net.items() if not k.startswith("_")):
            return "from_pickle_fails_on_non_integer_index"
    if route == "sqlite" and "type 'list' is not supported" in msg:
        for k, v in net.items():
            if isinstance(v, pd.DataFrame) and len(v) and not k.startswith("_") and not k.startswith("res_") and "object" not in v.columns:
                if any(v[c].dtype == object and any(isinstance(x, (list, tuple)) for x in v[c].values) for c in v.columns if c != "geo"):
                    return "to_sqlite_fails_on_list_cells"
        # the std type sheets are frames too; only the fuse sheet gets its lists stringified
        if any(isinstance(x, (list, tuple, dict)) for el, lib in net.std_types.items() if el != "fuse" for t in lib.values() for x in t.values()):
            return "to_sqlite_fails_on_list_cells"
    if route == "excel" and isinstance(e, KeyError) and e.args == ("parameter",):
        # to_excel writes a boolean controller.recycle as the text true/false, the reader gets a bool back and json.loads(bool)
        # raises inside from_dict_of_dfs; the bare except then tries the pre-2.0 loader, which needs a "parameter" column
        if "controller" in net and len(net.controller) and any(isinstance(r, (bool, np.bool_)) for r in net.controller.recycle.values):
            return "from_excel_fails_on_boolean_recycle"
    return None


def run_case(seed, tier, case_no):
    g = netgen.G(seed)
    net, base = base_net(g, seed)
    tags = {"base:" + base.split(":")[0], base}
    routes = [g.C(JSON_ROUTES), g.C(OTHER_ROUTES)]
    deco = decorate(net, g, routes)
    tags |= deco
    if g.B(0.75):
        st, _ = pf.try_run(pp.runpp, net, run_control=False)
        if st == "ok":
            tags.add("results_saved")
    digest = common.net_digest(net, {"deco": sorted(deco), "routes": routes})
    sample = {"base": base, "decorations": sorted(t for t in deco if ":" not in t), "routes": routes, "net": netgen.describe(net)}
    viols = []
    ex = {"tables_compared": 0, "cells_compared": 0, "objects_compared": 0, "pf_pairs": 0}
    frozen = copy.deepcopy(net)
    loaded_ok = 0
    for route in routes:
        tags.add("route:" + route)
        try:
            with np.errstate(all="ignore"):
                n2 = roundtrip(net, route, g)
        except Exception as e:  # noqa
            viols.append(common.viol("%s: save/load raised %s: %s" % (route, type(e).__name__, str(e)[:300]), mechanism=classify_exception(route, e, net),
                                     route=route, base=base, decorations=sorted(deco)))
            continue
        loaded_ok += 1
        tags.add("loaded:" + route)
        full = route.startswith("json") or route.startswith("pickle")
        if full:
            c = compare_full(net, n2, 1e-14 if route.startswith("json") else 0.)
        else:
            c = compare_tabular(net, n2, 1e-12, route)
        ex["tables_compared"] += c.n_tables
        ex["cells_compared"] += c.n_cells
        ex["objects_compared"] += c.n_objects
        by_mech = {}
        for d in c.diffs:
            by_mech.setdefault(classify(route, d, net, n2), []).append(d)
        for m, ds in by_mech.items():
            viols.append(common.viol("%s: loaded network differs: %s" % (route, "; ".join("%s %s: %s" % d for d in ds[:4])), mechanism=m, route=route,
                                     base=base, decorations=sorted(deco), n_differences=len(ds)))
        if full:
            r = pf_equal(net, n2)
            ex["pf_pairs"] += 1
            if r is not None and not r.startswith("skip:"):
                viols.append(common.viol("%s: power flow of the loaded network differs: %s" % (route, r), route=route, base=base, decorations=sorted(deco)))
            elif r is not None:
                tags.add("pf_" + r)
    c = compare_full(frozen, net, 0.)
    if c.diffs:
        viols.append(common.viol("saving modified the network in memory: %s" % "; ".join("%s %s: %s" % d for d in c.diffs[:4]), base=base,
                                 routes=routes, decorations=sorted(deco)))
    for v in viols:
        v["witness"]["seed"] = seed
    n_deco = len([t for t in deco if ":" not in t])
    return common.case(digest, nontrivial=(n_deco >= 3 and loaded_ok == 2), tags=tags, violations=viols[:8], sample=sample,
                       evals=ex["tables_compared"] + ex["pf_pairs"], extra=ex)
