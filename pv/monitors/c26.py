"""C26 - topology graphs represent exactly the energizing connections.

Reference model: the expected directed adjacency (u -> v, key, weight) is computed by plain loops over the element tables for
every option vector of create_nxgraph; connected_components is compared with union-find, calc_distance_to_bus with an own
Dijkstra on the oracle graph.
"""
import heapq

import numpy as np
import pandapower.topology as top

from .. import common
from ..gen import netgen

PROPERTY = "C26"
READY = True
LEVEL = "exploration"
TECHNIQUE = ("runtime monitoring: every graph returned by create_nxgraph / connected_components / calc_distance_to_bus on seeded "
             "multi-island networks x random option vectors is compared with a table-loop reference model (union-find, Dijkstra)")
CASES = {"quick": 500, "thorough": 15000}
BUDGET = {"quick": 60, "thorough": 1200}
GRAPHS_PER_CASE = 3
N_VARIANTS = 3
FLOORS = {"quick": {"nontrivial": 250,
                    "tags": {"respect_switches": 250, "ignore_switches": 250, "multi=False": 240, "include_out_of_service": 240,
                             "nogobuses": 240, "notravbuses": 240, "index_subset": 250, "open_line_switch": 200,
                             "open_trafo_switch": 110, "open_t3_switch": 75, "open_bb_switch": 180, "oos_bus": 240, "oos_branch": 250,
                             "dcline": 100, "impedance": 110, "trafo3w": 160, "parallel_edges": 190, "reindexed": 80},
                    "extras": {"graphs": 2100, "cc_checked": 1450, "cc_notrav_checked": 1450, "dist_checked": 1300,
                               "edges_expected": 16000, "dist_notrav": 400, "dist_hops": 400},
                    "max_skip_frac": 0.05},
          "thorough": {"nontrivial": 7000, "tags": {"open_t3_switch": 2000, "notravbuses": 7000, "dcline": 3000, "reindexed": 2400},
                       "extras": {"graphs": 60000, "cc_checked": 40000, "dist_checked": 40000}, "max_skip_frac": 0.05}}
RULE = ("one case = one netgen network (profiles multi_island / full_mix with random switching and in_service states, sometimes "
        "re-indexed) x 3 switching / in_service variants x %d random option vectors of create_nxgraph (respect_switches, include_* as bool or index subset, "
        "include_out_of_service, nogobuses, notravbuses, multi, trafo/switch lengths) + connected_components (with and without "
        "notravbuses) + calc_distance_to_bus from a random bus; non-trivial = the expected graph has an edge removed by a switch "
        "/ in_service / option rule and at least 2 components; distinct = digest of tables + option vectors" % GRAPHS_PER_CASE)
ASSUMPTIONS = ["semantics as fixed in DESIGN.md C26: trafo3w = 3 pairwise edges, an open t3 switch at bus b removes the two edges "
               "touching b; an open line/trafo switch removes the branch; out-of-service buses removed unless include_out_of_service "
               "(which also keeps out-of-service branches); nogobuses absent; notravbuses keep incoming adjacency only",
               "for multi=False only the node pairs are compared, the surviving key/weight must be one of the parallel candidates",
               "calc_distance_to_bus is asked only for source buses that are nodes of the graph (in service, not nogo)",
               "distances compared with 1e-9 km absolute tolerance"]

PROFILES = ["multi_island", "multi_island", "multi_island", "full_mix"]


# ----------------------------------------------------------------------------------------------------------- reference model
def _rows(tab, include, cols):
    """(index, col values...) of the rows selected by an include_* option (bool or index list), in table / list order"""
    idx = list(tab.index)
    arr = [tab[c].values for c in cols]
    pos = {i: k for k, i in enumerate(idx)}
    sel = (idx if include else []) if isinstance(include, bool) else list(include)
    return [(i,) + tuple(a[pos[i]] for a in arr) for i in sel]


def expected_edges(net, o):
    """list of (u, v, key, weight) in the order of construction, before any node removal"""
    rs, ioos = o["respect_switches"], o["include_out_of_service"]
    sw = net.switch
    open_ = {(et, int(el), int(b)) for et, el, b, c in zip(sw.et.values, sw.element.values, sw.bus.values, sw.closed.values) if not c}
    open_l = {el for et, el, b in open_ if et == "l"}
    open_t = {el for et, el, b in open_ if et == "t"}
    open_t3 = {(el, b) for et, el, b in open_ if et == "t3"}
    E = []
    for i, fb, tb, ins, km in _rows(net.line, o["include_lines"], ["from_bus", "to_bus", "in_service", "length_km"]):
        if (ins or ioos) and not (rs and i in open_l):
            E.append((int(fb), int(tb), ("line", i), float(km)))
    for tab, inc in (("impedance", "include_impedances"), ("dcline", "include_dclines")):
        for i, fb, tb, ins in _rows(net[tab], o[inc], ["from_bus", "to_bus", "in_service"]):
            if ins or ioos:
                E.append((int(fb), int(tb), (tab, i), 0.))
    tl = float(o.get("trafo_length_km") or 0.)
    for i, hb, lb, ins in _rows(net.trafo, o["include_trafos"], ["hv_bus", "lv_bus", "in_service"]):
        if (ins or ioos) and not (rs and i in open_t):
            E.append((int(hb), int(lb), ("trafo", i), tl))
    t3 = _rows(net.trafo3w, o["include_trafo3ws"], ["hv_bus", "mv_bus", "lv_bus", "in_service"])
    for f, t in ((1, 2), (1, 3), (2, 3)):
        for r in t3:
            i, u, v = r[0], int(r[f]), int(r[t])
            if (r[4] or ioos) and not (rs and ((i, u) in open_t3 or (i, v) in open_t3)):
                E.append((u, v, ("trafo3w", i), tl))
    if o["include_switches"]:
        sl = float(o.get("switch_length_km") or 0.)
        for i, et, b, el, c in zip(sw.index, sw.et.values, sw.bus.values, sw.element.values, sw.closed.values):
            if et == "b" and (c or not rs):
                E.append((int(b), int(el), ("switch", i), sl))
    return E


def expected_graph(net, o):
    """-> (nodes, adj) with adj[u] = list of (v, key, weight): directed adjacency after nogo / notrav / out-of-service rules"""
    nodes = set(int(b) for b in net.bus.index)
    nodes -= set(o.get("nogobuses") or [])
    if not o["include_out_of_service"]:
        nodes -= set(int(b) for b in net.bus.index[~net.bus.in_service.values])
    notrav = set(o.get("notravbuses") or [])
    adj = {u: [] for u in nodes}
    n_edges = 0
    for u, v, key, w in expected_edges(net, o):
        if u in nodes and v in nodes:
            n_edges += 1
            if u not in notrav:
                adj[u].append((v, key, w))
            if v not in notrav and v != u:
                adj[v].append((u, key, w))
    return nodes, adj, n_edges


def observed_adj(mg, multi):
    obs = {}
    for u in mg.nodes:
        lst = []
        for v, d in mg._adj[u].items():
            if multi:
                for key, a in d.items():
                    lst.append((int(v), (key[0], int(key[1])), float(a.get("weight", np.nan)), a.get("path")))
            else:
                k = d.get("key")
                lst.append((int(v), (k[0], int(k[1])) if k is not None else None, float(d.get("weight", np.nan)), d.get("path")))
        obs[int(u)] = lst
    return obs


def components(nodes, adj, skip=()):
    """union-find over the undirected version of adj restricted to nodes - skip"""
    parent = {u: u for u in nodes if u not in skip}

    def find(x):
        while parent[x] != x:
            parent[x] = parent[parent[x]]
            x = parent[x]
        return x
    for u in parent:
        for v, _, _ in adj[u]:
            if v in parent:
                ru, rv = find(u), find(v)
                if ru != rv:
                    parent[ru] = rv
    comp = {}
    for u in parent:
        comp.setdefault(find(u), set()).add(u)
    return list(comp.values())


def dijkstra(adj, src, hops=False):
    dist = {src: 0.}
    heap = [(0., src)]
    done = set()
    while heap:
        d, u = heapq.heappop(heap)
        if u in done:
            continue
        done.add(u)
        for v, _, w in adj.get(u, []):
            nd = d + (1. if hops else w)
            if v not in dist or nd < dist[v] - 1e-15:
                dist[v] = nd
                heapq.heappush(heap, (nd, v))
    return dist


# ------------------------------------------------------------------------------------------------------------------ workload
def rnd_options(g, net):
    def inc(tab, p_false=0.15, p_idx=0.2):
        if g.B(p_false):
            return False
        if len(net[tab]) and g.B(p_idx):
            k = g.I(0, len(net[tab]))
            return [int(i) for i in g.rng.choice(net[tab].index.values, size=k, replace=False)]
        return True
    buses = [int(b) for b in net.bus.index]
    o = dict(respect_switches=g.B(0.6), include_lines=inc("line", 0.08), include_impedances=inc("impedance"),
             include_dclines=inc("dcline"), include_trafos=inc("trafo"), include_trafo3ws=inc("trafo3w"),
             include_switches=g.B(0.8), include_out_of_service=g.B(0.3), multi=g.B(0.7))
    if g.B(0.3):
        o["nogobuses"] = [int(b) for b in g.rng.choice(buses, size=g.I(1, 3), replace=False)]
    if g.B(0.35):
        o["notravbuses"] = [int(b) for b in g.rng.choice(buses, size=g.I(1, 3), replace=False)
                            if b not in (o.get("nogobuses") or [])]
        if not o["notravbuses"]:
            del o["notravbuses"]
    if g.B(0.25):
        o["trafo_length_km"] = g.R(0.01, 2.)
    if g.B(0.25):
        o["switch_length_km"] = g.R(0.001, 0.5)
    if g.B(0.15):
        o["calc_branch_impedances"] = True
        o["branch_impedance_unit"] = g.C(["ohm", "pu"])
    return o


def classify_notrav(net, o, exc=None, dangling=None):
    """the two out-of-service x notravbuses defects of create_nxgraph (create_graph.py:278-290): the notrav edit deletes only
    the adjacency entries of the notrav bus itself; the later remove_node of an out-of-service bus then (a) raises KeyError
    when that bus is a neighbour of a notrav bus, (b) leaves dangling entries when the notrav bus itself is out of service"""
    notrav = set(o.get("notravbuses") or [])
    if not notrav or o["include_out_of_service"]:
        return None
    nogo = set(o.get("nogobuses") or [])
    oos = set(int(b) for b in net.bus.index[~net.bus.in_service.values]) - nogo
    nb = {}  # neighbourhood in the graph as built before the out-of-service buses are removed
    for u, v, _, _ in expected_edges(net, o):
        if u not in nogo and v not in nogo:
            nb.setdefault(u, set()).add(v)
            nb.setdefault(v, set()).add(u)
    if exc is not None and isinstance(exc, KeyError) and exc.args and isinstance(exc.args[0], (int, np.integer)):
        k = int(exc.args[0])
        # remove_node(k) of an out-of-service bus k (not notrav) with a graph edge to a notrav bus fails with KeyError(k)
        if k in oos - notrav and nb.get(k, set()) & notrav:
            return "notrav_neighbour_out_of_service_keyerror"
        # an out-of-service notrav bus k was removed leaving dangling entries; removing an out-of-service neighbour of k then
        # fails with KeyError(k); the same key is raised by graph searches that follow the dangling entry
        if k in oos & notrav and nb.get(k) and (nb[k] & oos or dangling is not None):
            return "notrav_bus_out_of_service_dangling_adjacency"
        return None
    if dangling is not None:
        # every dangling target must be an out-of-service notrav bus
        if dangling and all(v in notrav and v in oos for v in dangling):
            return "notrav_bus_out_of_service_dangling_adjacency"
    return None


def classify_impedance_subset(net, o, exc):
    """calc_branch_impedances=True computes r/x of impedances and trafo3ws for the whole table (create_graph.py:145, 211-216)
    but writes them into the rows of the include_* subset: shape mismatch when the subset is shorter than the table"""
    if o.get("calc_branch_impedances") and isinstance(exc, ValueError) and "broadcast" in str(exc):
        for k, tab in (("include_impedances", "impedance"), ("include_trafo3ws", "trafo3w")):
            if isinstance(o[k], list) and 0 < len(o[k]) != len(net[tab]):
                return "branch_impedances_ignore_index_subset"
    return None


def compare_graph(net, o, mg):
    """-> (violations, n_expected_edges, nodes, adj)"""
    viols = []
    nodes, adj, n_edges = expected_graph(net, o)
    multi = o["multi"]
    obs = observed_adj(mg, multi)
    if set(obs) != nodes:
        viols.append(common.viol("node set differs: missing %s, unexpected %s" % (sorted(nodes - set(obs))[:8], sorted(set(obs) - nodes)[:8]),
                                 options=o))
        return viols, n_edges, nodes, adj
    dangling = sorted({v for u in obs for v, _, _, _ in obs[u] if v not in nodes})
    if dangling:
        mech = classify_notrav(net, o, dangling=dangling)
        viols.append(common.viol("graph has adjacency entries pointing to buses that are not nodes: %s" % dangling[:8],
                                 mechanism=mech, options=o, dangling=dangling))
        if mech:
            for u in obs:
                obs[u] = [e for e in obs[u] if e[0] in nodes]
    bad = []
    for u in sorted(nodes):
        if multi:
            exp = sorted((v, k, round(w, 12)) for v, k, w in adj[u])
            got = sorted((v, k, round(w, 12)) for v, k, w, _ in obs[u])
            if exp != got:
                bad.append((u, [e for e in exp if e not in got][:4], [e for e in got if e not in exp][:4]))
        else:
            cand = {}
            for v, k, w in adj[u]:
                cand.setdefault(v, []).append((k, round(w, 12)))
            gotd = {v: (k, round(w, 12)) for v, k, w, _ in obs[u]}
            if set(cand) != set(gotd):
                bad.append((u, sorted(set(cand) - set(gotd))[:4], sorted(set(gotd) - set(cand))[:4]))
            else:
                for v in cand:
                    if gotd[v][0] not in [c[0] for c in cand[v]] or gotd[v][1] not in [c[1] for c in cand[v]]:
                        bad.append((u, cand[v][:4], [gotd[v]]))
        if any(p != 1 for _, _, _, p in obs[u]):
            bad.append((u, "path attribute != 1", []))
    if bad:
        u, miss, extra = bad[0]
        viols.append(common.viol("adjacency of bus %s differs from the tables: expected-but-missing %s, present-but-unexpected %s "
                                 "(%d buses differ)" % (u, miss, extra, len(bad)), options=o, bus=u, missing=miss, unexpected=extra))
    return viols, n_edges, nodes, adj


def net_tags(net):
    t = set()
    sw = net.switch
    for et, name in (("l", "open_line_switch"), ("t", "open_trafo_switch"), ("t3", "open_t3_switch"), ("b", "open_bb_switch")):
        if len(sw) and ((sw.et == et) & ~sw.closed).any():
            t.add(name)
    if (~net.bus.in_service).any():
        t.add("oos_bus")
    if any(len(net[e]) and (~net[e].in_service).any() for e in ("line", "trafo", "trafo3w", "impedance", "dcline")):
        t.add("oos_branch")
    for e in ("dcline", "impedance", "trafo3w"):
        if len(net[e]):
            t.add(e)
    return t


def reindex(net, g):
    """non-consecutive, shuffled indices for buses and branch tables (switch references follow)"""
    import pandapower as pp
    new = g.rng.permutation(len(net.bus)) * 3 + 7
    pp.reindex_buses(net, dict(zip(net.bus.index.values, (int(x) for x in new))))
    for tab, et in (("line", "l"), ("trafo", "t"), ("trafo3w", "t3")):
        if len(net[tab]):
            m = dict(zip(net[tab].index.values, (int(x) for x in g.rng.permutation(len(net[tab])) * 2 + 11)))
            net[tab].index = [m[i] for i in net[tab].index]
            sel = net.switch.et == et
            net.switch.loc[sel, "element"] = net.switch.loc[sel, "element"].map(m)
    if len(net.switch):
        net.switch.index = g.rng.permutation(len(net.switch)) + 3


def perturb(net, g):
    """cheap in-place change of the switching / in_service state (a new input for the same element tables)"""
    if len(net.switch):
        flip = g.rng.random(len(net.switch)) < 0.3
        net.switch.loc[flip, "closed"] = ~net.switch.closed.values[flip]
    for tab, p in (("bus", 0.1), ("line", 0.15), ("trafo", 0.15), ("trafo3w", 0.2), ("impedance", 0.3), ("dcline", 0.3)):
        if len(net[tab]):
            flip = g.rng.random(len(net[tab])) < p
            net[tab].loc[flip, "in_service"] = ~net[tab].in_service.values[flip]


def run_case(seed, tier, case_no):
    g = netgen.G(seed)
    profile = g.C(PROFILES)
    net = netgen.rnd_net(seed, profile, dict(dcline=0.3, sw_at_oos_bus=True))
    if g.B(0.3) and len(net.dcline) == 0 and (net.bus.vn_kv == 20.).sum() >= 2:
        # dclines are rare in the profile: add one between two MV buses (topology only, no power flow is run here)
        import pandapower as pp
        a, b = g.rng.choice(net.bus.index[net.bus.vn_kv == 20.].values, 2, replace=False)
        pp.create_dcline(net, int(a), int(b), p_mw=0.5, loss_percent=1., loss_mw=0.01, vm_from_pu=1., vm_to_pu=1., in_service=g.B(0.8))
    if g.B(0.3):
        reindex(net, g)
        tags_r = {"reindexed"}
    else:
        tags_r = set()
    tags = net_tags(net) | {"profile:" + profile} | tags_r
    viols, evals = [], 0
    extra = dict(graphs=0, cc_checked=0, cc_notrav_checked=0, dist_checked=0, edges_expected=0, dist_notrav=0, dist_hops=0,
                 partition_checked=0)
    optlist = []
    nontrivial = False
    for variant in range(N_VARIANTS):
        if variant:
            perturb(net, g)
            tags |= net_tags(net)
            optlist.append({"perturbed": common.net_digest(net)})
        for _ in range(GRAPHS_PER_CASE):
            o = rnd_options(g, net)
            optlist.append(o)
            kw = {k: v for k, v in o.items() if v is not None}
            tags.add("respect_switches" if o["respect_switches"] else "ignore_switches")
            for k in ("include_out_of_service", "nogobuses", "notravbuses", "calc_branch_impedances", "trafo_length_km", "switch_length_km"):
                if o.get(k):
                    tags.add(k)
            if not o["multi"]:
                tags.add("multi=False")
            if any(isinstance(o[k], list) for k in o if k.startswith("include_")):
                tags.add("index_subset")
            try:
                mg = top.create_nxgraph(net, **kw)
            except Exception as e:  # noqa
                mech = classify_notrav(net, o, exc=e) or classify_impedance_subset(net, o, e)
                viols.append(common.viol("create_nxgraph raised %r" % (e,), mechanism=mech, options=o))
                evals += 1
                continue
            extra["graphs"] += 1
            evals += 1
            v, n_edges, nodes, adj = compare_graph(net, o, mg)
            viols += v
            extra["edges_expected"] += n_edges
            n_all = len(expected_edges(net, dict(o, respect_switches=False, include_out_of_service=True, include_lines=True,
                                                include_impedances=True, include_dclines=True, include_trafos=True,
                                                include_trafo3ws=True, include_switches=True)))
            pc = {}
            for u_, v_, _, _ in expected_edges(net, o):
                if u_ in nodes and v_ in nodes:
                    pc[frozenset((u_, v_))] = pc.get(frozenset((u_, v_)), 0) + 1
            if pc and max(pc.values()) > 1:
                tags.add("parallel_edges")
            if v:
                continue
            # ---- connected_components: partition + union-find (graphs without the one-directional notrav edit)
            if not o.get("notravbuses"):
                comps = components(nodes, adj)
                if n_edges < n_all and len(comps) >= 2:
                    nontrivial = True
                try:
                    got = [set(int(x) for x in c) for c in top.connected_components(mg)]
                except Exception as e:  # noqa
                    viols.append(common.viol("connected_components raised %r" % (e,), options=o))
                    continue
                extra["cc_checked"] += 1
                evals += 1
                if sum(len(c) for c in got) != len(nodes) or set().union(*got) != nodes:
                    viols.append(common.viol("connected_components is not a partition of the node set: %d nodes, sizes %s" % (
                        len(nodes), sorted(len(c) for c in got)), options=o))
                elif sorted(map(sorted, got)) != sorted(map(sorted, comps)):
                    viols.append(common.viol("connected_components differs from union-find: got %s expected %s" % (
                        sorted(map(sorted, got))[:6], sorted(map(sorted, comps))[:6]), options=o))
                extra["partition_checked"] += 1
                # notravbuses handed to the search instead of the graph constructor
                nt = set(int(b) for b in g.rng.choice(sorted(nodes), size=min(len(nodes), g.I(1, 3)), replace=False)) if nodes else set()
                if nt:
                    exp = []
                    for c in components(nodes, adj, skip=nt):
                        exp.append(frozenset(c | {v for u in c for v, _, _ in adj[u] if v in nt}))
                    expset = set(exp) | {frozenset((u, v)) for u in nt for v, _, _ in adj[u] if v in nt and v != u}
                    try:
                        got = [frozenset(int(x) for x in c) for c in top.connected_components(mg, notravbuses=set(nt))]
                    except Exception as e:  # noqa
                        viols.append(common.viol("connected_components(notravbuses=%s) raised %r" % (sorted(nt), e), options=o))
                        continue
                    extra["cc_notrav_checked"] += 1
                    evals += 1
                    got_main = [c for c in got if not c <= nt]
                    if set(got) != expset or sorted(map(sorted, got_main)) != sorted(map(sorted, exp)):
                        viols.append(common.viol("connected_components(notravbuses=%s) got %s expected %s" % (
                            sorted(nt), sorted(map(sorted, set(got)))[:8], sorted(map(sorted, expset))[:8]), options=o, notrav_search=sorted(nt)))
                    src = int(g.C(sorted(nodes - nt))) if nodes - nt else None
                    if src is not None:
                        e1 = next(c for c in exp if src in c)
                        g1 = set(int(x) for x in top.connected_component(mg, src, notravbuses=nt))
                        if g1 != set(e1):
                            viols.append(common.viol("connected_component(bus=%d, notravbuses=%s) got %s expected %s" % (
                                src, sorted(nt), sorted(g1), sorted(e1)), options=o))
        # ---- calc_distance_to_bus (builds its own graph with default include_* options)
        for _ in range(2):
            o = dict(respect_switches=g.B(0.6), include_lines=True, include_impedances=True, include_dclines=True, include_trafos=True,
                     include_trafo3ws=True, include_switches=True, include_out_of_service=False, multi=True)
            buses = [int(b) for b in net.bus.index]
            if g.B(0.4):
                o["nogobuses"] = [int(b) for b in g.rng.choice(buses, size=g.I(1, 2), replace=False)]
            if g.B(0.4):
                o["notravbuses"] = [int(b) for b in g.rng.choice(buses, size=g.I(1, 2), replace=False) if b not in (o.get("nogobuses") or [])] or None
            hops = g.B(0.3)
            nodes, adj, n_edges = expected_graph(net, o)
            if not nodes:
                continue
            src = int(g.C(sorted(nodes)))
            optlist.append(dict(o, dist_from=src, hops=hops))
            try:
                ser = top.calc_distance_to_bus(net, src, respect_switches=o["respect_switches"], nogobuses=o.get("nogobuses"),
                                               notravbuses=o.get("notravbuses"), weight=None if hops else "weight")
            except Exception as e:  # noqa
                mech = classify_notrav(net, o, exc=e, dangling=[])
                viols.append(common.viol("calc_distance_to_bus(bus=%d) raised %r" % (src, e), mechanism=mech, options=o))
                continue
            evals += 1
            extra["dist_checked"] += 1
            extra["dist_notrav"] += bool(o.get("notravbuses"))
            extra["dist_hops"] += bool(hops)
            exp = dijkstra(adj, src, hops)
            got = {int(k): float(v) for k, v in ser.items()}
            if set(got) != set(exp):
                viols.append(common.viol("calc_distance_to_bus(bus=%d): reached buses differ: missing %s unexpected %s" % (
                    src, sorted(set(exp) - set(got))[:8], sorted(set(got) - set(exp))[:8]), options=o, hops=hops))
            else:
                d = [(abs(got[k] - exp[k]), k) for k in exp]
                if d and max(d)[0] > 1e-9:
                    k = max(d)[1]
                    viols.append(common.viol("calc_distance_to_bus(bus=%d): distance to bus %d is %.9g, shortest path is %.9g" % (
                        src, k, got[k], exp[k]), options=o, hops=hops))
    # one violation per mechanism / kind is enough as a witness
    seen, out = set(), []
    for v in viols:
        key = (v["mechanism"], v["what"].split(":")[0][:40])
        if key not in seen:
            seen.add(key)
            v["witness"]["profile"] = profile
            out.append(v)
    digest = common.net_digest(net, optlist)
    sample = {"profile": profile, "net": netgen.describe(net), "options": optlist[:2]}
    return common.case(digest, nontrivial=nontrivial, tags=tags, violations=out, sample=sample, evals=evals, extra=extra)
