"""C33 - DER controller set-points stay within the declared capability.

Contract monitor: after every control step of a real DERController (steps driven by fabricated P/V operating points, plus real
run_control loops) the values written to net.sgen are checked: apparent power <= saturate_sn_mva when saturation is active;
when only a PQV area applies, q/sn lies in the area's reactive flexibility at (p/sn, vm) - for polygon areas the flexibility is
cross-checked with an independent polygon cut.
"""
import collections

import numpy as np
import pandas as pd
import pandapower as pp
from pandapower.control.controller import DERController as DM
from pandapower.control.controller.DERController import DERController

from .. import common
from ..gen import netgen

PROPERTY = "C33"
READY = True
LEVEL = "exploration"
TECHNIQUE = ("runtime monitoring: post-condition on net.sgen after every DERController control step (fabricated P/V operating "
             "points and real run_control loops) against saturate_sn_mva and an independent evaluation of the PQV area")
CASES = {"quick": 600, "thorough": 15000}
BUDGET = {"quick": 60, "thorough": 1200}
POINTS = {"quick": 20, "thorough": 30}
FLOORS = {"quick": {"nontrivial": 280,
                    "tags": {"saturation_active": 170, "area_only": 110, "area_and_saturation": 120, "saturation_only": 50,
                             "q_prio": 140, "p_prio": 140, "area:polygon": 80, "area:statcom": 25, "area:4120": 50, "area:4110": 25,
                             "area:4105": 25, "area:4130": 18, "run_control": 280},
                    "extras": {"steps": 5500, "elements_checked": 15000, "saturation_binding": 3800, "area_binding": 3800,
                               "polygon_crosschecks": 2700, "run_control_steps": 450},
                    "max_skip_frac": 0.2},
          "thorough": {"nontrivial": 7000, "tags": {"saturation_active": 4000, "area_only": 2700, "area:4130": 450},
                       "extras": {"steps": 200000, "elements_checked": 500000, "polygon_crosschecks": 90000}, "max_skip_frac": 0.2}}
RULE = ("one case = one DERController (random Q model, PQV area or none, saturate_sn_mva or none, q priority, 1-4 sgens with "
        "random sn_mva) x fabricated operating points (p series in [0, 1.3 sn], vm in [0.85, 1.15], the exact sequence "
        "is_converged -> control_step of the control loop) + one real runpp(run_control=True); non-trivial = a capability "
        "limit was binding in at least one step; distinct = digest of controller configuration and operating points")
ASSUMPTIONS = ["damping_coef = 1 (the step writes the saturated target itself)",
               "saturation: p^2 + q^2 <= saturate_sn_mva^2 * (1 + 1e-9) for every controlled sgen after the step",
               "area only: q/sn within [min, max] of the area's q_flexibility(p/sn, vm) with 1e-9 slack; polygon areas are "
               "cross-checked against an own polygon cut (1e-7); an operating point for which the area documents no "
               "flexibility (ValueError 'max_q < min_q' with raise_merge_overlap=True) is a documented refusal and skipped",
               "area constructors that raise are skipped (counted)"]

M = 1 + 1e-9


# --------------------------------------------------------------------------------------------------------- independent oracle
def poly_cut(xs, ys, x0):
    """[min, max] of y over the intersection of the closed polygon (xs, ys) with the vertical line x = x0, or None"""
    out = []
    n = len(xs)
    for k in range(n):
        x1, y1, x2, y2 = xs[k], ys[k], xs[(k + 1) % n], ys[(k + 1) % n]
        if x1 == x2:
            if x1 == x0:
                out += [y1, y2]
        elif min(x1, x2) <= x0 <= max(x1, x2):
            out.append(y1 + (y2 - y1) * (x0 - x1) / (x2 - x1))
    return (min(out), max(out)) if out else None


def own_flex(area, p, vm):
    """independent q range for polygon based areas (None if not applicable / empty)"""
    def pq(a):
        return poly_cut(list(a.p_points_pu), list(a.q_points_pu), p)

    def qv(a):
        return poly_cut(list(a.vm_points_pu), list(a.q_points_pu), vm)
    if isinstance(area, DM.PQAreaPOLYGON):
        return pq(area)
    if isinstance(area, DM.QVAreaPOLYGON):
        return qv(area)
    if isinstance(area, DM.PQAreaSTATCOM):
        return (area.min_q_pu, area.max_q_pu)
    if hasattr(area, "pq_area") and isinstance(area.pq_area, DM.PQAreaPOLYGON) and isinstance(area.qv_area, DM.QVAreaPOLYGON):
        a, b = pq(area.pq_area), qv(area.qv_area)
        if a is None or b is None:
            return None
        lo, hi = max(a[0], b[0]), min(a[1], b[1])
        return (lo, hi) if lo <= hi else None
    return None


def classify_cut(area, p_pu, vm, exc):
    """PQAreaPOLYGON / QVAreaPOLYGON.q_flexibility read `.coords` of LineString.intersection(polygon) (PQVAreas.py:107-119,
    144-152); when the vertical cutting line runs along a vertical polygon edge (e.g. p = 0.05 of PQArea4110) the intersection is
    a multi-part geometry and shapely raises NotImplementedError"""
    if not (isinstance(exc, NotImplementedError) and "multi-part" in str(exc)):
        return None

    def on_vertical_edge(xs, x0):
        xs = list(xs)
        return sum(xs[k] == xs[(k + 1) % len(xs)] == x0 for k in range(len(xs))) >= 2   # two collinear pieces
    pq = area if isinstance(area, DM.PQAreaPOLYGON) else getattr(area, "pq_area", None)
    qv = area if isinstance(area, DM.QVAreaPOLYGON) else getattr(area, "qv_area", None)
    if isinstance(pq, DM.PQAreaPOLYGON) and any(on_vertical_edge(pq.p_points_pu, x) for x in p_pu):
        return "polygon_area_cut_along_vertical_edge"
    if isinstance(qv, DM.QVAreaPOLYGON) and any(on_vertical_edge(qv.vm_points_pu, x) for x in vm):
        return "polygon_area_cut_along_vertical_edge"
    return None


# ------------------------------------------------------------------------------------------------------------------ workload
def rnd_area(g):
    k = g.C(["polygon", "polygon", "statcom", "4120", "4120", "4110", "4105", "4130", "pq_polygon", "none", "none"])
    rmo = g.B(0.5)
    if k == "none":
        return None, "none", {}
    if k == "statcom":
        lo, hi = -g.R(0.05, 0.5), g.R(0.05, 0.5)
        return DM.PQAreaSTATCOM(lo, hi), "statcom", {"min_q": lo, "max_q": hi}
    if k == "4120":
        v = g.I(1, 3)
        ver = g.C([2015, 2018])
        return getattr(DM, "PQVArea4120V%d" % v)(version=ver, raise_merge_overlap=rmo), "4120", {"variant": v, "version": ver, "rmo": rmo}
    if k == "4110":
        return DM.PQVArea4110(raise_merge_overlap=rmo), "4110", {"rmo": rmo}
    if k == "4105":
        v = g.I(1, 2)
        return DM.PQVArea4105(v, raise_merge_overlap=rmo), "4105", {"variant": v, "rmo": rmo}
    if k == "4130":
        v, kv = g.I(1, 3), g.C([380, 220])
        return getattr(DM, "PQVArea4130V%d" % v)(vn_kv=kv, raise_merge_overlap=rmo), "4130", {"variant": v, "vn_kv": kv, "rmo": rmo}
    # random convex-ish polygons: a trapezoid in (p, q) and a hexagon in (vm, q)
    p0, p1 = g.R(0., 0.2), g.R(0.8, 1.3)
    qa, qb = g.R(0.0, 0.15), g.R(0.2, 0.6)
    pp_ = (p0, p1, p1, p0)
    qq_ = (-qa, -qb * g.R(0.5, 1.), qb, qa)
    if k == "pq_polygon":
        return DM.PQAreaPOLYGON(pp_, qq_), "polygon", {"p": pp_, "q": qq_}
    v0, v1, v2, v3 = g.R(0.85, 0.92), g.R(0.94, 0.98), g.R(1.02, 1.06), g.R(1.08, 1.15)
    qm = g.R(0.2, 0.6)
    qv_q = (0., -qm, -qm, 0., qm, qm)
    qv_v = (v0, v1, v3, v3, v2, v0)
    return DM.PQVAreaPOLYGON(pp_, qq_, qv_q, qv_v, raise_merge_overlap=rmo), "polygon", {"p": pp_, "q": qq_, "qv_q": qv_q, "qv_v": qv_v,
                                                                                        "rmo": rmo}


def rnd_qmodel(g):
    k = g.C(["const", "cosphi_p", "cosphi_pq", "qv", "cosphi_v", "cosphi_p_curve", "none"])
    if k == "const":
        q = g.R(-0.7, 0.7)
        return DM.QModelConstQ(q), k, {"q_pu": q}
    if k in ("cosphi_p", "cosphi_pq"):
        c = g.C([-1, 1]) * g.R(0.7, 1.)
        return (DM.QModelCosphiP if k == "cosphi_p" else DM.QModelCosphiPQ)(c), k, {"cosphi": c}
    if k == "qv":
        qm = g.R(0.1, 0.7)
        d = {"vm_points_pu": (0, 0.96, 1., 1.04), "q_points_pu": (qm, qm, 0., -qm)}
        return DM.QModelQVCurve(d), k, d
    if k == "cosphi_v":
        c = g.R(0.8, 0.98)
        d = {"vm_points_pu": (0, 0.96, 1., 1.04), "cosphi_points": (c, c, 1, -c)}
        return DM.QModelCosphiVCurve(d), k, d
    if k == "cosphi_p_curve":
        c = g.R(0.8, 0.98)
        d = {"p_points_pu": (0, 0.5, 1), "cosphi_points": (1, 1, -c)}
        return DM.QModelCosphiPCurve(d), k, d
    return None, k, {}


def make_net(g):
    net = pp.create_empty_network()
    n = g.I(1, 4)
    pp.create_buses(net, n + 1, 20.)
    pp.create_ext_grid(net, 0, vm_pu=g.R(0.97, 1.06))
    for i in range(1, n + 1):
        pp.create_line(net, g.I(0, i - 1), i, g.R(0.5, 8.), "NAYY 4x50 SE")
        sn = g.R(0.3, 4.)
        pp.create_sgen(net, i, p_mw=sn * g.R(0.1, 1.), q_mvar=sn * g.R(-0.4, 0.4), sn_mva=sn, name="DER%d" % i)
    if g.B(0.5):
        pp.create_load(net, n, g.R(0, 3), g.R(0, 1))
    return net


class Probed(DERController):
    """the real controller; control_step additionally records what it wrote (no behaviour change)"""
    trace = None

    def control_step(self, net):
        vm = net.res_bus.vm_pu.loc[self.bus].values.copy()
        super().control_step(net)
        if Probed.trace is not None:
            Probed.trace.append((vm, net.sgen.loc[self.element_index, ["p_mw", "q_mvar", "sn_mva"]].values.astype(float).copy()))


def check_step(ctrl, area, sat, vm, pqs, info, extra, source):
    """post-condition of one control step -> list of violations"""
    viols = []
    for k in range(len(pqs)):
        p, q, sn = pqs[k]
        extra["elements_checked"] += 1
        if not (np.isfinite(p) and np.isfinite(q)):
            viols.append(common.viol("control step wrote a non-finite set-point p=%r q=%r (%s)" % (p, q, source), config=info))
            continue
        s_lim = sat[k] if sat is not None else np.nan
        if np.isfinite(s_lim):
            s = float(np.hypot(p, q))
            if s >= s_lim * (1 - 1e-9):
                extra["saturation_binding"] += 1
            if s > s_lim * M:
                viols.append(common.viol("apparent power %.9g MVA exceeds saturate_sn_mva %.9g after the control step (p=%.9g, q=%.9g, %s)" % (
                    s, s_lim, p, q, source), config=info, vm_pu=float(vm[k]), p_mw=p, q_mvar=q, sn_mva=sn))
        elif area is not None:
            ppu, qpu = p / sn, q / sn
            # the areas are piecewise with jumps at their break points and p/sn is recomputed here from the written MW value:
            # accept the flexibility of any point of a 1e-9 neighbourhood of (p/sn, vm)
            rng_ = []
            for pe in (ppu, ppu * (1 - 1e-9), ppu * (1 + 1e-9)):
                for ve in (float(vm[k]), float(vm[k]) * (1 - 1e-9), float(vm[k]) * (1 + 1e-9)):
                    try:
                        rng_.append(tuple(area.q_flexibility(pd.Series([pe]), pd.Series([ve]))[0][:2]))
                    except (ValueError, AssertionError, NotImplementedError):
                        pass
            if not rng_:
                continue
            lo, hi = rng_[0]
            tol = 1e-9 * max(1., abs(lo), abs(hi))
            if any(qpu <= a + tol or qpu >= b - tol for a, b in rng_):
                extra["area_binding"] += 1
            if not any(a - tol <= qpu <= b + tol for a, b in rng_):
                viols.append(common.viol("q/sn = %.9g is outside the reactive flexibility [%.9g, %.9g] of %s at p/sn = %.9g, vm = %.6g "
                                         "(%s)" % (qpu, lo, hi, info["area"], ppu, vm[k], source), config=info, vm_pu=float(vm[k]),
                                         p_pu=ppu, q_pu=qpu))
            own = own_flex(area, ppu, float(vm[k]))
            if own is not None:
                extra["polygon_crosschecks"] += 1
                owns = [own] + [o_ for o_ in (own_flex(area, ppu * f, float(vm[k]) * h) for f in (1 - 1e-9, 1 + 1e-9)
                                              for h in (1 - 1e-9, 1 + 1e-9)) if o_ is not None]
                if not any(a - 1e-7 <= qpu <= b + 1e-7 for a, b in owns):
                    viols.append(common.viol("q/sn = %.9g is outside the polygon cut [%.9g, %.9g] of %s at p/sn = %.9g, vm = %.6g "
                                             "(area function says [%.9g, %.9g], %s)" % (qpu, own[0], own[1], info["area"], ppu, vm[k],
                                                                                          lo, hi, source), config=info))
    return viols


def run_case(seed, tier, case_no):
    g = netgen.G(seed)
    net = make_net(g)
    n = len(net.sgen)
    try:
        area, akind, ainfo = rnd_area(g)
    except Exception as e:  # noqa - area construction is not the observed step
        return common.case(common.sha({"seed": seed}), nontrivial=False, tags={"area_constructor_raised"},
                           skipped="area_constructor:" + type(e).__name__, sample={"error": repr(e)[:200]})
    qm, qkind, qinfo = rnd_qmodel(g)
    sat_mode = g.C(["none", "none", "vector", "scalar"]) if area is not None else g.C(["scalar", "vector"])
    sn = net.sgen.sn_mva.values
    if sat_mode == "none":
        sat_arg, sat = np.nan, None
    elif sat_mode == "scalar":
        v = float(g.R(0.5, 1.2) * sn.min())
        sat_arg, sat = v, np.full(n, v)
    else:
        sat = sn * g.rng.uniform(0.6, 1.2, n)
        sat_arg = list(map(float, sat))
    q_prio = g.B(0.5)
    info = {"area": akind, "area_params": ainfo, "q_model": qkind, "q_params": qinfo, "saturate_sn_mva": sat_arg if sat is not None else None,
            "q_prio": q_prio, "sn_mva": list(map(float, sn))}
    tags = {"area:" + akind, "q_model:" + qkind, "q_prio" if q_prio else "p_prio"}
    if sat is not None:
        tags.add("saturation_active")
        tags.add("area_and_saturation" if area is not None else "saturation_only")
    else:
        tags.add("area_only")
    extra = collections.Counter(steps=0, elements_checked=0, saturation_binding=0, area_binding=0, polygon_crosschecks=0,
                                run_control_steps=0, refused_points=0)
    try:
        ctrl = Probed(net, list(net.sgen.index), q_model=qm, pqv_area=area, saturate_sn_mva=sat_arg, q_prio=q_prio, damping_coef=1)
    except Exception as e:  # noqa
        return common.case(common.sha(info), nontrivial=False, skipped="controller_constructor:" + type(e).__name__, sample=info)
    viols, points = [], []
    pp.runpp(net)
    # ---- fabricated operating points through the loop's own sequence is_converged -> control_step
    for _ in range(POINTS[tier]):
        vm = g.rng.uniform(0.85, 1.15, n) if g.B(0.8) else g.rng.choice([0.9, 0.95, 96 / 110, 1.05, 1.1, 127 / 110, 1.0], n)
        pser = sn * (g.rng.uniform(0, 1.3, n) if g.B(0.8) else g.rng.choice([0., 0.05, 0.1, 0.2, 1.0], n))
        net.res_bus.loc[ctrl.bus.values, "vm_pu"] = vm
        vm = net.res_bus.vm_pu.loc[ctrl.bus].values.copy()   # sgens on the same bus share the value
        ctrl.p_series_mw = pd.Series(pser, index=ctrl.element_index)
        points.append([list(map(float, vm)), list(map(float, pser))])
        Probed.trace = []
        try:
            ctrl.is_converged(net)
            ctrl.control_step(net)
        except ValueError as e:
            if "max_q" in str(e) and "min_q" in str(e):
                extra["refused_points"] += 1   # documented: the area has no flexibility at this operating point
                continue
            viols.append(common.viol("control step raised %r" % (e,), config=info, vm_pu=list(map(float, vm)), p_series_mw=list(map(float, pser))))
            continue
        except Exception as e:  # noqa
            viols.append(common.viol("control step raised %r" % (e,), mechanism=classify_cut(area, pser / sn, vm, e), config=info,
                                     vm_pu=list(map(float, vm)), p_series_mw=list(map(float, pser))))
            continue
        extra["steps"] += 1
        for vmo, pqs in Probed.trace:
            viols += check_step(ctrl, area, sat, vmo, pqs, info, extra, "fabricated point")
    # ---- one real control loop
    Probed.trace = []
    if hasattr(ctrl, "p_series_mw"):
        ctrl.p_series_mw = pd.Series(sn * g.rng.uniform(0.1, 1.1, n), index=ctrl.element_index)
    try:
        pp.runpp(net, run_control=True, max_iter=15)
        tags.add("run_control")
    except Exception as e:  # noqa - oscillating Q(V) loops / refusals: the recorded steps are still judged
        tags.add("run_control_ended:" + type(e).__name__)
    for vmo, pqs in Probed.trace:
        extra["run_control_steps"] += 1
        viols += check_step(ctrl, area, sat, vmo, pqs, info, extra, "run_control")
    Probed.trace = None
    seen, out = set(), []
    for v in viols:
        k = v["what"][:40]
        if k not in seen:
            seen.add(k)
            out.append(v)
    nontrivial = extra["saturation_binding"] + extra["area_binding"] > 0
    return common.case(common.sha({"info": info, "points": points}), nontrivial=nontrivial, tags=tags, violations=out[:4],
                       sample={"config": info, "points": points[:2]}, evals=extra["steps"] + extra["run_control_steps"], extra=dict(extra))
