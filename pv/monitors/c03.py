"""C03 - energy conservation and non-negative losses of passive branches (conservation monitor at the power flow return)."""
import numpy as np
import pandapower as pp

from .. import common, pf
from ..gen import netgen
from ..oracles import balance
from . import c01

PROPERTY = "C03"
READY = True
LEVEL = "exploration"
TECHNIQUE = "runtime monitoring: conservation law (generation - consumption = sum of branch losses, pl = p_from + p_to >= 0) evaluated on every converged power flow of a seeded random workload"
CASES = {"quick": 900, "thorough": 40000}
BUDGET = {"quick": 60, "thorough": 1200}
FLOORS = {"quick": {"nontrivial": 150, "tags": {"dc": 20, "trafo3w": 30, "impedance_sym": 5, "phase_shifter": 20, "z_switch": 10},
                    "extras": {"branch_rows_checked": 3000}, "max_skip_frac": 0.4},
          "thorough": {"nontrivial": 5000, "tags": {"dc": 500}, "extras": {"branch_rows_checked": 100000}, "max_skip_frac": 0.4}}
RULE = ("seeded random passive networks (r, g, pfe, pz >= 0; arbitrary reactive data, phase shifters, taps) x random runpp/rundcpp "
        "options; per converged run every branch row is checked (pl = p_from+p_to, pl >= 0 for passive rows) plus the global "
        "balance over supplied buses; non-trivial = converged and >= 3 branch rows carrying > 1e-3 MW; distinct = digest of inputs")
ASSUMPTIONS = ["asymmetric impedance elements (rft != rtf or xft != xtf) are non-reciprocal two-ports and are exempt from pl >= 0",
               "tolerances: |pl - (p_from+p_to)| <= 1e-9+1e-12|p|; pl >= -(1e-8+1e-10|S|); global 1e-6*n_bus + 1e-9*sum|p| (NR)"]

BR = [("line", ["p_from_mw", "p_to_mw"], ["q_from_mvar", "q_to_mvar"]),
      ("trafo", ["p_hv_mw", "p_lv_mw"], ["q_hv_mvar", "q_lv_mvar"]),
      ("trafo3w", ["p_hv_mw", "p_mv_mw", "p_lv_mw"], ["q_hv_mvar", "q_mv_mvar", "q_lv_mvar"]),
      ("impedance", ["p_from_mw", "p_to_mw"], ["q_from_mvar", "q_to_mvar"]),
      ("dcline", ["p_from_mw", "p_to_mw"], None)]


def passive_mask(net, el):
    t = net[el]
    if el == "line":
        return (t.r_ohm_per_km.values >= 0) & (t.g_us_per_km.values >= 0)
    if el == "trafo":
        return (t.vkr_percent.values >= 0) & (t.pfe_kw.values >= 0)
    if el == "trafo3w":
        return (t.vkr_hv_percent.values >= 0) & (t.vkr_mv_percent.values >= 0) & (t.vkr_lv_percent.values >= 0) & (t.pfe_kw.values >= 0)
    if el == "impedance":
        sym = np.isclose(t.rft_pu.values, t.rtf_pu.values) & np.isclose(t.xft_pu.values, t.xtf_pu.values)
        pas = (t.rft_pu.values >= 0)
        for c in ("gf_pu", "gt_pu"):
            if c in t:
                pas &= (np.nan_to_num(t[c].values) >= 0)
        return sym & pas
    if el == "dcline":
        return (t.loss_percent.values >= 0) & (t.loss_mw.values >= 0)
    return np.zeros(len(t), dtype=bool)


def check_conservation(net, ac, opts, tol_global):
    viols, tags = [], set()
    rows = 0
    loaded = 0
    total_pl = 0.
    for el, pcols, qcols in BR:
        t = net[el]
        if not len(t):
            continue
        r = net["res_" + el]
        p = r[pcols].values.astype(float)
        s = p.sum(axis=1)
        pl = r["pl_mw"].values.astype(float)
        ok_rows = ~np.isnan(pl)
        if el == "dcline":
            # a dc line with a de-energized terminal is outside the passive-branch clause
            vv = net.res_bus.vm_pu if ac else net.res_bus.va_degree
            ok_rows &= vv.loc[t.from_bus.values].notna().values & vv.loc[t.to_bus.values].notna().values
        rows += int(ok_rows.sum())
        loaded += int((np.abs(p).max(axis=1)[ok_rows] > 1e-3).sum()) if ok_rows.any() else 0
        d = np.abs(pl - s)
        bad = ok_rows & (d > 1e-9 + 1e-12 * np.abs(p).sum(axis=1))
        if bad.any():
            i = int(np.flatnonzero(bad)[0])
            viols.append(common.viol("%s %s: pl_mw=%.6e but sum of terminal powers=%.6e" % (el, t.index[i], pl[i], s[i]), options=opts))
        if not ac:
            if el != "dcline":
                nz = ok_rows & (np.abs(pl) > 1e-9)
                if nz.any():
                    i = int(np.flatnonzero(nz)[0])
                    viols.append(common.viol("DC power flow: %s %s reports losses pl_mw=%.3e" % (el, t.index[i], pl[i]), options=opts))
        else:
            mag = np.abs(p).max(axis=1)
            if qcols:
                mag = np.hypot(mag, np.abs(r[qcols].values.astype(float)).max(axis=1))
            # a trafo3w is three two-ports around an internal bus whose own balance only holds within the solver tolerance
            # (tolerance_mva * sn_mva MVA, F34): the sum of its terminal powers contains that residual
            tol3 = 4 * float(opts.get("tolerance_mva", 1e-8)) * float(net.sn_mva) if el == "trafo3w" else 0.
            neg = ok_rows & passive_mask(net, el) & (pl < -(1e-8 + tol3 + 1e-10 * mag))
            if neg.any():
                i = int(np.flatnonzero(neg)[0])
                viols.append(common.viol("passive %s %s reports negative losses pl_mw=%.3e" % (el, t.index[i], pl[i]), options=opts))
        total_pl += float(np.nansum(pl))
        if el == "trafo" and len(t) and ((t.shift_degree.values != 0) | (np.nan_to_num(t.tap_step_degree.values.astype(float)) != 0)).any():
            tags.add("phase_shifter")
        if el == "impedance" and passive_mask(net, el).any():
            tags.add("impedance_sym")
    # impedance switches
    if len(net.switch) and "res_switch" in net and "p_from_mw" in net.res_switch:
        sw = net.switch[(net.switch.et == "b")]
        if len(sw):
            r = net.res_switch.loc[sw.index]
            s = np.nansum(r[["p_from_mw", "p_to_mw"]].values.astype(float), axis=1)
            total_pl += float(s.sum())
            if ac and (s < -(1e-8)).any():
                viols.append(common.viol("impedance switch reports negative losses %.3e" % s.min(), options=opts))
    # global balance over supplied buses: sum of res_bus.p_mw (net consumption incl. generation) + dcline terminals + losses = 0
    cons, _ = balance.element_consumption(net, ac, with_dcline=False)
    sup = (net.res_bus.vm_pu.notna() if ac else net.res_bus.va_degree.notna()).values
    net_cons = float(cons.values.real[sup].sum())
    if len(net.dcline):
        pass  # dcline pl is part of total_pl and its terminal powers are branch flows
    glob = net_cons + total_pl
    scale = float(np.abs(cons.values.real[sup]).sum())
    bound = tol_global * max(1, int(sup.sum())) + 1e-9 * scale
    if not np.isfinite(glob) or abs(glob) > bound:
        mech = None
        if not ac:
            mech = c01.classify(net, ac, opts, list(net.bus.index[sup]), complex(glob, 0), bound)
        elif opts.get("algorithm") in ("gs", "fdbx", "fdxb") and opts.get("voltage_depend_loads", True):
            # gs/fd solve with constant-power loads; the slack absorbs the ZIP excess of its own bus only (see C01 F1c)
            ref_b = set(net.ext_grid.bus[net.ext_grid.in_service].values) | set(net.gen.bus[net.gen.in_service & net.gen.slack].values)
            ex = 0.
            for grp in balance.fused_groups(net):
                if not (set(grp) & ref_b) and net.res_bus.vm_pu.loc[grp].notna().any():
                    ex += c01._zip_excess(net, grp).real
            if abs(ex) > bound / 2 and abs(glob - ex) <= bound + 1e-6 * abs(ex):
                mech = "zip_ignored_by_gs_fd"
        viols.append(common.viol("global conservation violated: generation - consumption - losses = %.3e MW (bound %.1e)" % (-glob, bound),
                                 mechanism=mech, options=opts))
    return viols, tags, rows, loaded


def run_case(seed, tier, case_no):
    g = netgen.G(seed)
    profile = g.C(["full_mix", "weakly_meshed", "transmission", "multi_island", "dist_radial"])
    net = netgen.rnd_net(seed, profile, {"ptap": 0.6})
    ac = not g.B(0.15)
    if ac:
        opts = pf.rnd_pf_options(g, net)
        opts.setdefault("tolerance_mva", 1e-8)
        status, exc = pf.try_run(pp.runpp, net, **opts)
    else:
        opts = {}
        if g.B(0.5):
            opts["calculate_voltage_angles"] = g.B(0.5)
        status, exc = pf.try_run(pp.rundcpp, net, **opts)
    digest = common.net_digest(net, {"ac": ac, "o": opts})
    sample = {"profile": profile, "net": netgen.describe(net), "calc": "runpp" if ac else "rundcpp", "options": opts}
    tags = {"ac" if ac else "dc", "profile:" + profile} | c01.net_tags(net, opts, ac)
    if status != "ok":
        return common.case(digest, nontrivial=False, tags=tags, skipped=status, sample=sample)
    alg = opts.get("algorithm", "nr")
    viols, t2, rows, loaded = check_conservation(net, ac, opts, 1e-6 if alg in ("nr", "iwamoto_nr") else 2e-5)
    return common.case(digest, nontrivial=loaded >= 3, tags=tags | t2, violations=viols, sample=sample, evals=max(rows, 1),
                       extra={"branch_rows_checked": rows, "loaded_rows": loaded})
