"""C13 - the controller loop terminates with converged controllers and fresh results; taps stay within limits; controllers
run in ascending (level, order).  Trace monitor: every controller method call is recorded through per-instance wrappers; the
returned net is judged by re-evaluating is_converged on a copy, by a fresh power flow of the final tables on a scrubbed copy,
and by counterfactual power flows for taps resting at a limit."""
import copy

import numpy as np
import pandapower as pp
import pandapower.networks as pn
from pandapower.auxiliary import ControllerNotConverged, LoadflowNotConverged, NetCalculationNotConverged
from pandapower.control import (Characteristic, CharacteristicControl, ConstControl, ContinuousTapControl, DiscreteTapControl,
                                run_control)

from .. import common, pf
from ..gen import netgen

PROPERTY = "C13"
READY = True
LEVEL = "exploration"
TECHNIQUE = ("runtime monitoring: call trace of controller methods + re-evaluated convergence, fresh power flow of the final "
             "state and counterfactual tap steps on scrubbed copies")
CASES = {"quick": 480, "thorough": 16000}
BUDGET = {"quick": 60, "thorough": 1500}
FLOORS = {"quick": {"nontrivial": 150, "max_skip_frac": 0.3,
                    "tags": {"returned": 250, "raised_not_converged": 10, "multi_level": 100, "discrete": 200, "continuous": 120,
                             "trafo3w_ctrl": 60, "side_hv": 30, "characteristic": 60, "const": 60, "tap_at_limit": 100,
                             "tap_moved": 150, "same_level_several": 100, "level_list": 15},
                    "extras": {"trace_events": 8000, "control_steps": 1000, "counterfactual_pf": 150, "is_converged_reeval": 600}},
          "thorough": {"nontrivial": 5000, "max_skip_frac": 0.3,
                       "tags": {"returned": 8000, "raised_not_converged": 300, "multi_level": 3000, "tap_at_limit": 1200},
                       "extras": {"trace_events": 250000, "control_steps": 30000}}}
RULE = ("one case = one generated network (netgen dist_radial / simple / weakly_meshed / full_mix, example_multivoltage, "
        "mv_oberrhein) with random load scaling and start taps x 1-4 tap controllers (discrete band / discrete set-point / "
        "continuous; 2W and 3W; hv, mv, lv side) + optional Q(V) characteristic and const controllers, random level (also "
        "level lists) and order x runpp(run_control=True) or run_control(max_iter); non-trivial = the call returned and at "
        "least one controller acted; distinct = digest of net + controller parameters + options")
ASSUMPTIONS = ["tap controllers are attached only to in-service transformers with a ratio tap changer (tap_step_percent > 0), "
               "one controller per transformer, start tap within [tap_min, tap_max]; a 3W tap on the mv (lv) winding is only used "
               "to control the mv (lv) or hv side",
               "result freshness bound 1e-6 pu / 1e-4 % (characteristic controllers run with tol 1e-9 so that their final "
               "write-back is below that bound)",
               "a tap resting at a limit is accepted when a counterfactual power flow one step inward does not bring the "
               "controlled voltage closer to the band / set-point",
               "ControllerNotConverged, NetCalculationNotConverged and LoadflowNotConverged are the accepted refusals",
               "default check_each_level=True"]

PROFILES = ["dist_radial", "dist_radial", "simple", "weakly_meshed", "full_mix", "example_multivoltage", "example_multivoltage",
            "mv_oberrhein"]
METHODS = ("initialize_control", "is_converged", "control_step", "finalize_control")


def make_net(seed, g):
    profile = g.C(PROFILES)
    if profile == "example_multivoltage":
        net = pn.example_multivoltage()
    elif profile == "mv_oberrhein":
        net = pn.mv_oberrhein()
    else:
        net = netgen.rnd_net(seed, profile, {"dcline": 0.0, "oos": 0.03, "open_sw": 0.05, "ptap": 0.15, "trafo3w": 0.7,
                                             "n_lv": (1, 3), "gen": 0.3})
    for el in ("load", "sgen"):
        if len(net[el]):
            net[el]["scaling"] = net[el]["scaling"].values * g.R(0.3, 1.8)
    return net, profile


def eligible(net, el):
    t = net[el]
    if not len(t):
        return []
    ok = t.in_service & t.tap_pos.notna() & t.tap_min.notna() & t.tap_max.notna() & (t.tap_step_percent > 0) & (t.tap_max > t.tap_min)
    if "tap_changer_type" in t:
        ok &= ~t.tap_changer_type.isin(["Ideal", "Tabular"])
    ok &= t.tap_step_degree.fillna(0).abs() < 60
    for s in (["hv_bus", "lv_bus"] if el == "trafo" else ["hv_bus", "mv_bus", "lv_bus"]):
        ok &= net.bus.in_service.loc[t[s].values].values
    return [int(i) for i in t.index[ok]]


def gen_controllers(net, g):
    """list of dict specs; attaches nothing"""
    specs = []
    pool = [("trafo", i) for i in eligible(net, "trafo")] + [("trafo3w", i) for i in eligible(net, "trafo3w")] * 2
    if not pool:
        return specs
    n = min(len({p for p in pool}), g.C([1, 2, 2, 3, 3, 4]))
    seen = set()
    n_levels = g.C([1, 2, 2, 3])
    while len(seen) < n:
        el, i = pool[g.I(0, len(pool) - 1)]
        if (el, i) in seen:
            continue
        seen.add((el, i))
        t = net[el]
        side = g.C(["lv", "lv", "lv", "hv"]) if el == "trafo" else g.C(["mv", "mv", "lv", "hv"])
        if el == "trafo3w" and t.tap_side.at[i] in ("mv", "lv") and side != "hv":
            side = t.tap_side.at[i]      # a tap on the mv (lv) winding has no defined effect on the lv (mv) terminal
        step = float(t.tap_step_percent.at[i]) / 100.
        kind = g.C(["discrete", "discrete", "discrete_set", "continuous", "continuous"])
        lvl = g.I(0, n_levels - 1)
        if g.B(0.08) and n_levels > 1:
            lvl = sorted({lvl, g.I(0, n_levels - 1)})
            lvl = lvl if len(lvl) > 1 else lvl[0]
        s = {"kind": kind, "element": el, "index": i, "side": side, "level": lvl, "order": g.I(0, 3), "in_service": not g.B(0.06)}
        # 30 %: a target outside the reachable range, so that the tap runs into a limit
        target = g.R(0.97, 1.04) if g.B(0.7) else g.C([g.R(0.80, 0.93), g.R(1.07, 1.25)])
        if kind == "discrete":
            lo = target - 0.01
            s.update(vm_lower_pu=lo, vm_upper_pu=lo + step * g.C([0.6, 1.2, 1.5, 2.0, 3.0]))
        elif kind == "discrete_set":
            s.update(vm_set_pu=target, tol=g.C([1e-3, 5e-3]))
        else:
            s.update(vm_set_pu=target, tol=g.C([1e-3, 1e-4, 5e-3]), check_tap_bounds=not g.B(0.1))
        # random start tap
        net[el].at[i, "tap_pos"] = g.I(int(t.tap_min.at[i]), int(t.tap_max.at[i]))
        specs.append(s)
    if len(net.sgen) and g.B(0.35):
        for i in g.rng.choice(net.sgen.index[net.sgen.in_service.values], size=min(int(net.sgen.in_service.sum()), g.I(1, 2)), replace=False):
            i = int(i)
            qmax = max(0.3 * abs(float(net.sgen.p_mw.at[i])), 0.01)
            specs.append({"kind": "characteristic", "index": i, "bus": int(net.sgen.bus.at[i]), "qmax": qmax,
                          "x": [0.93, 0.98, 1.02, 1.07], "level": g.I(0, n_levels - 1), "order": g.I(0, 3), "in_service": True})
    if len(net.load) and g.B(0.35):
        i = int(net.load.index[g.I(0, len(net.load) - 1)])
        specs.append({"kind": "const", "element": "load", "variable": "p_mw", "index": i, "level": g.I(0, n_levels - 1),
                      "order": g.I(-1, 3), "in_service": True})
    return specs


def attach(net, specs):
    ctrls = []
    for s in specs:
        k = s["kind"]
        common_kw = dict(level=s["level"], order=s["order"], in_service=s["in_service"])
        if k == "discrete":
            c = DiscreteTapControl(net, s["index"], s["vm_lower_pu"], s["vm_upper_pu"], side=s["side"], element=s["element"], **common_kw)
        elif k == "discrete_set":
            c = DiscreteTapControl.from_tap_step_percent(net, s["index"], s["vm_set_pu"], side=s["side"], element=s["element"],
                                                         tol=s["tol"], **common_kw)
        elif k == "continuous":
            c = ContinuousTapControl(net, s["index"], s["vm_set_pu"], tol=s["tol"], side=s["side"], element=s["element"],
                                     check_tap_bounds=s["check_tap_bounds"], **common_kw)
        elif k == "characteristic":
            ch = Characteristic(net, s["x"], [s["qmax"], 0., 0., -s["qmax"]])
            c = CharacteristicControl(net, "sgen", "q_mvar", s["index"], "res_bus", "vm_pu", s["bus"], ch.index, tol=1e-9, **common_kw)
        else:
            c = ConstControl(net, s["element"], s["variable"], s["index"], **common_kw)
        ctrls.append(c)
    return ctrls


class Trace:
    def __init__(self, net, ctrls):
        self.events = []        # (method, controller index, returned value, taps after)
        self.net = net
        self.ctrls = ctrls
        for c in ctrls:
            for m in METHODS:
                setattr(c, m, self._wrap(c, m, getattr(c, m)))

    def _wrap(self, c, m, orig):
        def w(net, *a, **k):
            r = orig(net, *a, **k)
            taps = None
            if m == "control_step":
                taps = {el: self.net[el].tap_pos.values.copy() for el in ("trafo", "trafo3w") if len(self.net[el])}
            self.events.append((m, c.index, bool(r) if m == "is_converged" else None, taps))
            return r
        return w

    def unwrap(self):
        for c in self.ctrls:
            for m in METHODS:
                c.__dict__.pop(m, None)


def levels_of(s):
    return list(s["level"]) if isinstance(s["level"], (list, tuple)) else [s["level"]]


def check_order(events, specs, idx_of):
    """the is_converged trace must be a concatenation, over ascending levels, of sweeps that visit every in-service member of
    the level once with non-decreasing order; initialize/finalize visit all levels once.  Returns (problems, level of every
    control_step event position)"""
    probs = []
    spec_of = {idx_of[k]: s for k, s in enumerate(specs)}
    lv = sorted({l for s in specs if s["in_service"] for l in levels_of(s)})
    members = {l: sorted(i for i, s in spec_of.items() if s["in_service"] and l in levels_of(s)) for l in lv}
    for m in ("initialize_control", "finalize_control"):
        seq = [e[1] for e in events if e[0] == m]
        pos = 0
        for l in lv:     # one pass: per level a block of its members with non-decreasing order
            blk = seq[pos:pos + len(members[l])]
            pos += len(members[l])
            if sorted(blk) != members[l] or not _nondecreasing([spec_of[i]["order"] for i in blk]):
                probs.append("%s: level %s visited as %s (orders %s), members %s" % (m, l, blk, [spec_of[i]["order"] for i in blk], members[l]))
        if pos != len(seq):
            probs.append("%s called %d times, expected %d" % (m, len(seq), pos))
    calls = [(p, e[1]) for p, e in enumerate(events) if e[0] == "is_converged"]
    step_level = {}
    k = 0
    for l in lv:
        mem = members[l]
        n_sweeps = 0
        while k < len(calls):
            blk = calls[k:k + len(mem)]
            ids = [i for _, i in blk]
            if sorted(ids) != mem:
                break
            if not _nondecreasing([spec_of[i]["order"] for i in ids]):
                probs.append("level %s sweep visits controllers %s with orders %s" % (l, ids, [spec_of[i]["order"] for i in ids]))
            n_sweeps += 1
            lo, hi = blk[0][0], (calls[k + len(mem)][0] if k + len(mem) < len(calls) else len(events))
            for p in range(lo, hi):
                if events[p][0] == "control_step":
                    step_level[p] = l
            k += len(mem)
            # a level ends with the sweep in which every member reported convergence
            if all(events[p][2] for p, _ in blk):
                break
        if n_sweeps == 0 and mem:
            probs.append("level %s: no complete sweep found at is_converged call %d of %s" % (l, k, [i for _, i in calls]))
            break
    if k != len(calls) and not probs:
        probs.append("is_converged calls left over after the last level: %s" % [i for _, i in calls[k:]])
    # control_step exactly after a False is_converged of the same controller
    for p, e in enumerate(events):
        if e[0] == "control_step":
            prev = events[p - 1] if p else None
            if not prev or prev[0] != "is_converged" or prev[1] != e[1] or prev[2]:
                probs.append("control_step of controller %s not preceded by its own failed is_converged" % e[1])
        if e[0] == "is_converged" and e[2] is False:
            nxt = events[p + 1] if p + 1 < len(events) else None
            if not nxt or nxt[0] != "control_step" or nxt[1] != e[1]:
                probs.append("is_converged of controller %s returned False but control_step did not follow" % e[1])
    return probs, step_level


def _nondecreasing(x):
    return all(a <= b for a, b in zip(x, x[1:]))


def scrub(net):
    """copy of the input tables only: no controllers, no results, no internal state"""
    c = copy.deepcopy({k: v for k, v in net.items() if k not in ("controller", "characteristic")})
    n = pp.create_empty_network()
    for k, v in c.items():
        if not k.startswith("res_") and not k.startswith("_") and k in n and k not in ("controller", "characteristic"):
            n[k] = v
    return n


def band_distance(s, v):
    if s["kind"] == "continuous":
        return abs(1 - s["vm_set_pu"] / v)
    return max(s["lo"] - v, v - s["hi"], 0.)


def run_case(seed, tier, case_no):
    g = netgen.G(seed)
    net, profile = make_net(seed, g)
    specs = gen_controllers(net, g)
    opts = {}
    if g.B(0.3):
        opts["calculate_voltage_angles"] = g.B(0.7)
    if g.B(0.15):
        opts["numba"] = False
    entry = g.C(["runpp", "runpp", "run_control"])
    max_iter = g.C([30, 30, 10, 60])
    sample = {"profile": profile, "net": netgen.describe(net), "controllers": specs, "options": opts, "entry": entry,
              "max_iter": max_iter if entry == "run_control" else 30}
    digest = common.net_digest(net, {"s": specs, "o": opts, "e": entry, "m": sample["max_iter"]})
    tags = {"profile:" + profile}
    if not any(s["kind"] in ("discrete", "discrete_set", "continuous") for s in specs):
        return common.case(digest, nontrivial=False, tags=tags, skipped="no_controllable_trafo", sample=sample)
    st, _ = pf.try_run(pp.runpp, copy.deepcopy(net), **opts)
    if st != "ok":
        return common.case(digest, nontrivial=False, tags=tags, skipped="base_" + st, sample=sample)
    ctrls = attach(net, specs)
    idx_of = {k: c.index for k, c in enumerate(ctrls)}
    for s, c in zip(specs, ctrls):
        tags.add({"discrete_set": "discrete"}.get(s["kind"], s["kind"]))
        if s["kind"] == "discrete_set":
            tags.add("discrete_setpoint_mode")
            s["lo"], s["hi"] = float(c.vm_lower_pu), float(c.vm_upper_pu)
        elif s["kind"] == "discrete":
            s["lo"], s["hi"] = s["vm_lower_pu"], s["vm_upper_pu"]
        if s.get("element") == "trafo3w":
            tags.add("trafo3w_ctrl")
        if s.get("side") == "hv":
            tags.add("side_hv")
        if isinstance(s["level"], list):
            tags.add("level_list")
    lv_all = sorted({l for s in specs if s["in_service"] for l in levels_of(s)})
    if len(lv_all) > 1:
        tags.add("multi_level")
    if any(sum(1 for s in specs if s["in_service"] and l in levels_of(s)) > 1 for l in lv_all):
        tags.add("same_level_several")
    limits = {el: (net[el].tap_min.values.copy(), net[el].tap_max.values.copy()) for el in ("trafo", "trafo3w") if len(net[el])}
    bounded = {el: np.zeros(len(net[el]), dtype=bool) for el in limits}
    for s in specs:
        if s["kind"] in ("discrete", "discrete_set") or (s["kind"] == "continuous" and s["check_tap_bounds"]):
            bounded[s["element"]][int(np.flatnonzero(net[s["element"]].index.values == s["index"])[0])] = True
    tap0 = {el: net[el].tap_pos.values.copy() for el in limits}

    tr = Trace(net, ctrls)
    exc = None
    try:
        if entry == "runpp":
            pp.runpp(net, run_control=True, **opts)
        else:
            run_control(net, max_iter=max_iter, **opts)
    except Exception as e:  # noqa - observation
        exc = e
    finally:
        tr.unwrap()
    ev = tr.events
    viols = []
    wit = dict(seed=seed, profile=profile)
    cnt = {"trace_events": len(ev), "control_steps": sum(1 for e in ev if e[0] == "control_step"), "counterfactual_pf": 0,
           "is_converged_reeval": 0}
    # taps within limits after every control step (also on the refusal paths)
    for p, e in enumerate(ev):
        if e[3]:
            for el, taps in e[3].items():
                lo, hi = limits[el]
                bad = bounded[el] & ((taps < lo - 1e-9) | (taps > hi + 1e-9))
                if bad.any():
                    i = int(np.flatnonzero(bad)[0])
                    viols.append(common.viol("tap of %s %s moved to %s outside [%s, %s] by control_step of controller %s" % (
                        el, net[el].index[i], taps[i], lo[i], hi[i], e[1]), kind="tap_limit", **wit))
                    break
            if viols:
                break
    probs, step_level = check_order(ev, specs, idx_of) if exc is None else ([], {})
    if exc is not None:
        ok_types = (ControllerNotConverged, NetCalculationNotConverged, LoadflowNotConverged)
        tags.add("raised_not_converged" if isinstance(exc, ok_types) else "raised_other")
        if not isinstance(exc, ok_types):
            viols.append(common.viol("controller loop raised %s(%s)" % (type(exc).__name__, str(exc)[:120]), kind="exception", **wit))
        return common.case(digest, nontrivial=False, tags=tags, violations=viols, sample=sample, evals=1, extra=cnt)
    tags.add("returned")
    if probs:
        viols.append(common.viol("controller call order: " + probs[0], kind="order", n_problems=len(probs), trace=[(e[0], e[1], e[2]) for e in ev[:60]], **wit))
    moved = any(not np.array_equal(tap0[el], net[el].tap_pos.values) for el in limits)
    if moved:
        tags.add("tap_moved")
    # fresh results
    fresh = scrub(net)
    st, _ = pf.try_run(pp.runpp, fresh, **opts)
    if st != "ok":
        viols.append(common.viol("controller loop returned, but the final element state does not solve (%s)" % st, kind="fresh", **wit))
    else:
        for tab, col, tol in (("res_bus", "vm_pu", 1e-6), ("res_bus", "va_degree", 1e-4), ("res_line", "loading_percent", 1e-4),
                              ("res_trafo", "loading_percent", 1e-4), ("res_trafo3w", "loading_percent", 1e-4),
                              ("res_ext_grid", "p_mw", 1e-5), ("res_sgen", "q_mvar", 1e-6)):
            if not len(fresh[tab]):
                continue
            a, b = net[tab][col].values.astype(float), fresh[tab][col].values.astype(float)
            bad = ~((np.abs(a - b) <= tol + 1e-6 * np.abs(b)) | (np.isnan(a) & np.isnan(b)))
            if bad.any():
                i = int(np.flatnonzero(bad)[0])
                viols.append(common.viol("%s.%s[%s] on return is %r, a fresh power flow of the final tables gives %r (%d rows)" % (
                    tab, col, net[tab].index[i], float(a[i]), float(b[i]), int(bad.sum())), kind="stale", **wit))
                break
    # every in-service controller converged on the final state (evaluated on a copy: is_converged may write)
    net2 = copy.deepcopy(net)
    not_conv = []
    for k, s in enumerate(specs):
        if not s["in_service"]:
            if any(e[1] == idx_of[k] for e in ev):
                viols.append(common.viol("out-of-service controller %s was called" % idx_of[k], kind="order", **wit))
            continue
        cnt["is_converged_reeval"] += 1
        if not bool(net2.controller.object.at[idx_of[k]].is_converged(net2)):
            not_conv.append(k)
    # band / set-point / limit conditions from the result tables, independent of the controllers' own sign logic
    band_bad, wrong_limit = [], []
    for k, s in enumerate(specs):
        if not s["in_service"] or s["kind"] not in ("discrete", "discrete_set", "continuous"):
            continue
        el, i = s["element"], s["index"]
        bus = int(net[el].at[i, s["side"] + "_bus"])
        v = float(net.res_bus.vm_pu.at[bus])
        if np.isnan(v) or bus in set(net.ext_grid.bus[net.ext_grid.in_service]):
            continue
        d = band_distance(s, v)
        inside = d < s["tol"] if s["kind"] == "continuous" else (s["lo"] < v < s["hi"])
        if inside:
            continue
        tap, lo, hi = float(net[el].at[i, "tap_pos"]), float(net[el].at[i, "tap_min"]), float(net[el].at[i, "tap_max"])
        at_limit = tap in (lo, hi) and not (s["kind"] == "continuous" and not s["check_tap_bounds"])
        target = "set-point %.4f +- %g" % (s["vm_set_pu"], s["tol"]) if s["kind"] == "continuous" else "band (%.5f, %.5f)" % (s["lo"], s["hi"])
        if not at_limit:
            band_bad.append((k, "voltage %.5f at the %s side outside %s with tap %s not at a limit [%s, %s]" % (v, s["side"], target, tap, lo, hi)))
            continue
        tags.add("tap_at_limit")
        if k in not_conv:
            continue
        # the controller says 'limit reached in the needed direction': a counterfactual step inward must not help
        frac = 1.0 if s["kind"] != "continuous" else 0.25
        cf = scrub(net)
        cf[el].at[i, "tap_pos"] = tap + (1 if tap == lo else -1) * frac
        cnt["counterfactual_pf"] += 1
        if pf.try_run(pp.runpp, cf, **opts)[0] == "ok":
            d2 = band_distance(s, float(cf.res_bus.vm_pu.at[bus]))
            # only judged where the tap has a real grip on the controlled voltage (>= 25 % of its nominal step effect)
            if d - d2 > 0.25 * frac * float(net[el].at[i, "tap_step_percent"]) / 100.:
                wrong_limit.append((k, "voltage %.5f at the %s side outside %s while the tap rests at limit %s, although %g step inward "
                                       "brings it closer (distance %.5f -> %.5f)" % (v, s["side"], target, tap, frac, d, d2)))
    if not_conv or band_bad:
        # known mechanism: levels are swept once; a controller of an earlier level is disturbed by control steps of a later level
        acted_levels = sorted(set(step_level.values()))
        ks = sorted(set(not_conv) | {k for k, _ in band_bad})
        explained = bool(acted_levels) and all(max(levels_of(specs[k])) < max(acted_levels) for k in ks) and \
            all(_last_verdict(ev, idx_of[k]) for k in ks)
        viols.append(common.viol(
            "controller loop returned although controller(s) %s are not converged on the final state (is_converged False: %s; %s); "
            "levels %s, control steps happened in levels %s" % (
                [int(idx_of[k]) for k in ks], [int(idx_of[k]) for k in not_conv], "; ".join(t for _, t in band_bad[:2]) or "-",
                {int(idx_of[k]): specs[k]["level"] for k in ks}, acted_levels),
            mechanism="earlier_level_not_rechecked" if explained else None, kind="not_converged", controllers=[specs[k] for k in ks[:3]], **wit))
    if wrong_limit:
        viols.append(common.viol("controller %d reports convergence at a tap limit in the wrong direction: %s" % (
            int(idx_of[wrong_limit[0][0]]), wrong_limit[0][1]), kind="wrong_limit", controllers=[specs[k] for k, _ in wrong_limit[:3]], **wit))
    acted = cnt["control_steps"] > 0
    return common.case(digest, nontrivial=acted, tags=tags, violations=viols, sample=sample, evals=1 + cnt["counterfactual_pf"], extra=cnt)


def _last_verdict(events, cidx):
    """the controller's last own is_converged call inside the loop returned True (it was converged when its level ended)"""
    for e in reversed(events):
        if e[0] == "is_converged" and e[1] == cidx:
            return bool(e[2])
    return False
