"""C34 - explicit runpp arguments beat options stored with set_user_pf_options (observed: net._options at the return of runpp).

Exhaustive over the option table for single options (stored in {absent} u V) x (passed in {absent} u V), then seeded random
pairs / triples of options.  Oracle: effective = passed if passed else stored else default, compared with net._options
through the documented normalisation rules (init -> init_vm_pu/init_va_degree, max_iteration="auto" -> per-algorithm table).
"""
import copy
import inspect

import numpy as np
import pandapower as pp

from .. import common
from ..gen import netgen

PROPERTY = "C34"
READY = True
LEVEL = "exploration"
EXHAUSTIVE = False
TECHNIQUE = ("runtime monitoring: net._options observed at the return of every runpp call of an exhaustive single-option "
             "(stored x passed) table plus seeded option pairs, decided by the documented precedence rule")
CASES = {"quick": 1800, "thorough": 40000}
BUDGET = {"quick": 60, "thorough": 1200}
RULE = ("case_no < N_SINGLE enumerates every (option, stored value or absent, passed value or absent) of the option table "
        "(values include the function default); later cases draw 2-3 options with random stored/passed states; every case "
        "runs the real runpp on a small seeded net and reads net._options; non-trivial = at least one option whose "
        "candidates (passed, stored, default) differ after normalisation; distinct = digest of (net id, option states)")
ASSUMPTIONS = ["effective option = passed if passed else stored else signature default (docstring of set_user_pf_options)",
               "observed values are compared through the documented normalisation: init -> (init_vm_pu, init_va_degree), "
               "max_iteration='auto' -> per-algorithm table; a stored 'auto' copied verbatim into net._options is accepted",
               "calls refused in _init_runpp_options (NotImplementedError / ValueError before net._options is rebuilt) are "
               "skipped; non-convergence or solver errors after the options were built are still judged",
               "options left out: tdpf/run_control (need extra input data / controllers), lightsim2grid (not installed), "
               "init_vm_pu/init_va_degree (documented conflict with init), recycle"]

ABSENT = "<absent>"
SIG_DEFAULTS = {k: p.default for k, p in inspect.signature(pp.runpp).parameters.items()
                if p.default is not inspect.Parameter.empty}

# name, values (first = documented default), key in net._options
OPTIONS = [
    ("algorithm", ["nr", "iwamoto_nr", "bfsw", "gs", "fdbx", "fdxb"], "algorithm"),
    ("calculate_voltage_angles", [True, False], "calculate_voltage_angles"),
    ("init", ["auto", "flat", "dc", "results"], None),
    ("max_iteration", ["auto", 7, 25], "max_iteration"),
    ("tolerance_mva", [1e-8, 1e-6, 1e-4], "tolerance_mva"),
    ("trafo_model", ["t", "pi"], "trafo_model"),
    ("trafo_loading", ["current", "power"], "trafo_loading"),
    ("enforce_q_lims", [False, True], "enforce_q_lims"),
    ("check_connectivity", [True, False], "check_connectivity"),
    ("voltage_depend_loads", [True, False], "voltage_depend_loads"),
    ("consider_line_temperature", [False, True], "consider_line_temperature"),
    ("distributed_slack", [False, True], "distributed_slack"),
    ("tdpf_delay_s", [None, 60., 600.], "tdpf_delay_s"),
    # keyword-only options (no default in the signature; the documented default is listed first)
    ("numba", [True, False], "numba"),
    ("switch_rx_ratio", [2, 1., 5.], "switch_rx_ratio"),
    ("trafo3w_losses", ["hv", "mv", "lv", "star"], "trafo3w_losses"),
    ("delta_q", [0, 1e-3], "delta"),
    ("v_debug", [False, True], "v_debug"),
    ("neglect_open_switch_branches", [False, True], "neglect_open_switch_branches"),
    ("only_v_results", [False, True], "only_v_results"),
    ("use_umfpack", [True, False], "use_umfpack"),
    ("permc_spec", [None, "COLAMD", "NATURAL"], "permc_spec"),
]
OPT = {o[0]: o for o in OPTIONS}
DEFAULT_MAX_IT = {"nr": 10, "iwamoto_nr": 10, "bfsw": 100, "gs": 10000, "fdxb": 30, "fdbx": 30}  # runpp docstring / table

SINGLES = [(name, s, p) for name, vals, _ in OPTIONS for s in [ABSENT] + vals for p in [ABSENT] + vals]
N_SINGLE = len(SINGLES)
FLOORS = {"quick": {"nontrivial": 600, "tags": {"single": N_SINGLE, "pair": 500, "conflict": 500, "passed_is_default_vs_stored": 150,
                                                "stored_only": 200, "kw_option": 300, "named_option": 600},
                    "extras": {"options_judged": 2500}, "max_skip_frac": 0.15},
          "thorough": {"nontrivial": 8000, "tags": {"single": N_SINGLE, "pair": 10000, "conflict": 10000,
                                                    "passed_is_default_vs_stored": 3000}, "max_skip_frac": 0.15}}

_NETS = {}


def base_net(k):
    """one of 6 small seeded nets with ZIP loads (so voltage_depend_loads is not normalised away), gens and a result table"""
    if k not in _NETS:
        net = netgen.rnd_net(1000 + k, "simple", dict(zip_load=1.0, gen=1.0, trafo3w=0.7))
        net.line["temperature_degree_celsius"] = 25.
        try:
            pp.runpp(net)
        except Exception:  # noqa - "results" is then documented to fall back to "auto"
            pass
        net._options = {}
        _NETS[k] = net
    return copy.deepcopy(_NETS[k])


def _isbool(x):
    return isinstance(x, (bool, np.bool_))


def _eq(a, b):
    if isinstance(a, tuple) and isinstance(b, tuple):
        return len(a) == len(b) and all(_eq(x, y) for x, y in zip(a, b))
    if _isbool(a) or _isbool(b):
        return _isbool(a) and _isbool(b) and bool(a) == bool(b)
    if a is None or b is None:
        return a is None and b is None
    if isinstance(a, str) or isinstance(b, str):
        return isinstance(a, str) and isinstance(b, str) and a == b
    try:
        return abs(float(a) - float(b)) <= 1e-12 * max(1., abs(float(a)))
    except (TypeError, ValueError):
        return False


def acceptable(name, value, net, obs):
    """list of acceptable observed forms of `value` for option `name` (documented normalisation; context options such as the
    algorithm are read from the observed options, they are judged on their own)"""
    if name == "init":
        if value == "results" and len(net.res_bus) == 0:
            value = "auto"
        if value == "flat":
            return [("flat", "flat")]
        if value == "dc":
            return [("flat", "dc")]
        if value == "results":
            return [("results", "results")]
        n = int(net.ext_grid.in_service.sum() + net.gen.in_service.sum())
        vm = (net.ext_grid.vm_pu[net.ext_grid.in_service].sum() + net.gen.vm_pu[net.gen.in_service].sum()) / max(n, 1)
        return [(float(vm), "dc" if obs.get("calculate_voltage_angles") else "flat")]
    if name == "max_iteration" and value == "auto":
        return [DEFAULT_MAX_IT.get(obs.get("algorithm"), -1), "auto"]
    if name == "numba" and value:
        try:
            import numba  # noqa
            return [True]
        except ImportError:
            return [False]
    if name == "voltage_depend_loads" and value:
        zl = net.load[["const_z_p_percent", "const_i_p_percent", "const_z_q_percent", "const_i_q_percent"]].values
        return [bool(np.any(zl))]
    return [value]


def observed(name, obs):
    if name == "init":
        return (obs.get("init_vm_pu"), obs.get("init_va_degree"))
    return obs.get(OPT[name][2], "<missing>")


def judge(name, stored, passed, net, obs):
    """-> (ok, informative, expected_raw, observed_value, mechanism)"""
    default = OPT[name][1][0]
    eff = passed if passed != ABSENT else (stored if stored != ABSENT else default)
    got = observed(name, obs)
    acc = acceptable(name, eff, net, obs)
    ok = any(_eq(got, a) for a in acc)
    cands = [c for c in (passed, stored) if c != ABSENT] + [default]
    forms = [acceptable(name, c, net, obs)[0] for c in cands]
    informative = any(not _eq(forms[0], f) for f in forms[1:])
    mech = None
    if not ok:
        # F15: _passed_runpp_parameters treats an argument whose value equals the signature default as "not passed", so a
        # conflicting stored value wins.  Precise trigger: named parameter, passed == signature default, stored present,
        # and the observed value is the (normalised) stored value.
        if (name in SIG_DEFAULTS and passed != ABSENT and stored != ABSENT and _eq(passed, SIG_DEFAULTS[name])
                and any(_eq(got, a) for a in acceptable(name, stored, net, obs))):
            mech = "explicit_default_value_ignored"
    return ok, informative, eff, got, mech


def run_case(seed, tier, case_no):
    g = netgen.G(seed)
    if case_no < N_SINGLE:
        name, s, p = SINGLES[case_no]
        states = {name: (s, p)}
        netk = case_no % 6
        kind = "single"
    else:
        names = [OPTIONS[i][0] for i in g.rng.choice(len(OPTIONS), size=g.C([2, 2, 3]), replace=False)]
        states = {}
        for n in names:
            vals = OPT[n][1]
            mode = g.C(["both", "both", "both", "stored", "passed"])
            s = g.C(vals) if mode in ("both", "stored") else ABSENT
            # bias passed towards the function default: that is where "equal to the default" matters
            p = (vals[0] if g.B(0.4) else g.C(vals)) if mode in ("both", "passed") else ABSENT
            states[n] = (s, p)
        netk = g.I(0, 5)
        kind = "pair"
    net = base_net(netk)
    stored = {n: s for n, (s, p) in states.items() if s != ABSENT}
    passed = {n: p for n, (s, p) in states.items() if p != ABSENT}
    sample = {"net": netk, "stored": stored, "passed": passed}
    digest = common.sha({"net": netk, "states": {n: [repr(s), repr(p)] for n, (s, p) in states.items()}})
    tags = {kind}
    for n, (s, p) in states.items():
        tags.add("named_option" if n in SIG_DEFAULTS else "kw_option")
        if s != ABSENT and p != ABSENT:
            tags.add("both")
            if not _eq(s, p):
                tags.add("conflict")
                if _eq(p, OPT[n][1][0]) and n in SIG_DEFAULTS:
                    tags.add("passed_is_default_vs_stored")
        elif s != ABSENT:
            tags.add("stored_only")
        elif p != ABSENT:
            tags.add("passed_only")
    if stored:
        pp.set_user_pf_options(net, overwrite=True, **stored)
    sentinel = {"__c34_sentinel__": True}
    net._options = sentinel
    outcome = "ok"
    try:
        pp.runpp(net, **passed)
    except Exception as e:  # noqa - judged below through net._options
        outcome = type(e).__name__
    obs = net._options
    tags.add("outcome:" + outcome)
    if obs is sentinel or "__c34_sentinel__" in obs or "algorithm" not in obs:
        # runpp refused the combination before building the options (documented NotImplementedError / ValueError)
        return common.case(digest, nontrivial=False, tags=tags, skipped="refused:" + outcome, sample=sample)
    viols, nontrivial, judged = [], False, 0
    for n, (s, p) in states.items():
        ok, informative, eff, got, mech = judge(n, s, p, net, obs)
        judged += 1
        nontrivial |= informative
        if not ok:
            viols.append(common.viol(
                "runpp option %s: stored=%r passed=%r -> effective value must be %r but net._options shows %r" % (n, s, p, eff, got),
                mechanism=mech, option=n, stored=s, passed=p, expected=eff, observed=got, all_stored=stored, all_passed=passed,
                outcome=outcome))
    # options that were neither stored nor passed must show their documented default
    for n, vals, _ in OPTIONS:
        if n not in states:
            ok, _, eff, got, mech = judge(n, ABSENT, ABSENT, net, obs)
            judged += 1
            if not ok:
                viols.append(common.viol("runpp option %s was neither stored nor passed but net._options shows %r instead of the "
                                         "default %r" % (n, got, eff), option=n, observed=got, expected=eff, all_stored=stored,
                                         all_passed=passed, outcome=outcome))
    return common.case(digest, nontrivial=nontrivial, tags=tags, violations=viols, sample=sample, evals=judged,
                       extra={"options_judged": judged})
