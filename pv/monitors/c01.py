"""C01 - Kirchhoff power balance at every bus (invariant evaluated at the return of every converged runpp/rundcpp)."""
import numpy as np
import pandapower as pp

from .. import common, pf
from ..gen import netgen
from ..oracles import balance

PROPERTY = "C01"
READY = True
TECHNIQUE = "runtime monitoring: Kirchhoff invariant evaluated on the result tables of every converged power flow of a seeded random workload"
LEVEL = "exploration"
CASES = {"quick": 900, "thorough": 40000}
BUDGET = {"quick": 60, "thorough": 1200}
FLOORS = {"quick": {"nontrivial": 150, "tags": {"zip_mixed_bus": 20, "dc": 20, "fused_group": 20, "xward": 10, "dcline": 5,
                                                "distributed_slack": 5, "z_switch": 10, "trafo3w": 30, "plain_single_slack:conductive": 8, "co_located_slacks": 20}, "max_skip_frac": 0.4},
          "thorough": {"nontrivial": 5000, "tags": {"zip_mixed_bus": 500, "dc": 500, "fused_group": 500}, "max_skip_frac": 0.4}}
RULE = ("seeded random networks (profiles full_mix, transmission, multi_island, weakly_meshed) x random runpp/rundcpp option "
        "vectors; one case = one converged power flow whose result tables are checked bus group by bus group; non-trivial = "
        "converged and at least one energized bus group carries >= 2 element kinds; distinct = digest of input tables+options")
ASSUMPTIONS = ["power flows run with tolerance_mva=1e-8; mismatch bound 1e-6 MVA + 1e-9*sum|S| (NR/iwamoto), 2e-5 for gs/fd",
               "out-of-domain outcomes (exception, non-convergence) are skipped and bounded by max_skip_frac"]

PROFILES = ["full_mix", "full_mix", "transmission", "multi_island", "weakly_meshed"]


def _zip_excess(net, grp):
    """sum over in-service ZIP loads of the group of p*scaling*(f(v)-1) + j q*scaling*(fq(v)-1) at the reported voltage"""
    l = net.load[net.load.bus.isin(grp) & net.load.in_service]
    if not len(l):
        return 0j
    v = net.res_bus.vm_pu.loc[l.bus.values].values
    fp = (l.const_i_p_percent.values * (v - 1) + l.const_z_p_percent.values * (v ** 2 - 1)) / 100.
    fq = (l.const_i_q_percent.values * (v - 1) + l.const_z_q_percent.values * (v ** 2 - 1)) / 100.
    return complex((l.p_mw.values * l.scaling.values * fp).sum(), (l.q_mvar.values * l.scaling.values * fq).sum())


def classify(net, ac, opts, grp, m, bound):
    """name of a known-finding mechanism that quantitatively explains mismatch m at bus group grp, else None"""
    opts = opts or {}
    if ac and opts.get("algorithm") in ("gs", "fdbx", "fdxb") and opts.get("voltage_depend_loads", True):
        # these solvers work with constant-power loads, the result writer applies the ZIP law
        ex = _zip_excess(net, grp)
        tol = bound + 1e-6 * abs(ex)
        p_ok = abs(m.real - ex.real) <= tol or abs(m.real) <= tol
        q_ok = abs(m.imag - ex.imag) <= tol or abs(m.imag) <= tol
        if abs(ex) > bound / 2 and p_ok and q_ok:
            return "zip_ignored_by_gs_fd"
    if not ac:
        # rundcpp solves with |V| = 1 but reports the voltage set-point at buses with voltage controlling elements, and the
        # constant-impedance parts of shunts / wards / xwards are written as P_rated * vm_pu^2
        ex = 0.
        vm = net.res_bus.vm_pu
        for el, col in (("ward", "pz_mw"), ("xward", "pz_mw")):
            t = net[el][net[el].bus.isin(grp) & net[el].in_service]
            if len(t):
                ex += float((t[col].values * (vm.loc[t.bus.values].values ** 2 - 1)).sum())
        t = net.shunt[net.shunt.bus.isin(grp) & net.shunt.in_service]
        if len(t):
            v = vm.loc[t.bus.values].values
            ex += float((net.res_shunt.p_mw.loc[t.index].values * (1 - 1 / v ** 2)).sum())
        if abs(ex) > bound / 2 and abs(m.real - ex) <= bound + 1e-6 * abs(ex):
            return "dc_shunt_power_at_vm_setpoint"
    return None


def check_balance(net, ac, tol_abs, opts=None):
    """returns (violations, tags, nontrivial)"""
    viols, tags = [], set()
    try:
        res, cons = balance.nodal_mismatch(net, ac)
    except (ValueError, KeyError) as e:
        return [common.viol("result tables unusable: %r" % (e,))], tags, False
    nontrivial = False
    bad = []
    # pandapower applies tolerance_mva to the per-unit mismatch (finding F34): the achievable balance scales with net.sn_mva
    tol_abs = max(tol_abs, 20 * float((opts or {}).get("tolerance_mva", 1e-8)) * float(net.sn_mva))
    for grp, m, scale, kinds, energized in res:
        if not energized:
            continue
        if len(kinds) >= 2:
            nontrivial = True
        if len(grp) > 1:
            tags.add("fused_group")
        bound = tol_abs + 1e-9 * scale
        err = abs(m) if ac else abs(m.real)
        if not np.isfinite(err) or err > bound:
            bad.append((err if np.isfinite(err) else np.inf, grp, m, kinds, bound))
    bad.sort(key=lambda x: -x[0])
    seen = set()
    for err, grp, m, kinds, bound in bad:
        mech = classify(net, ac, opts, grp, m, bound)
        if mech in seen:
            continue
        seen.add(mech)
        viols.append(common.viol("nodal balance violated at bus group %s: mismatch %.3e%+.3ej MVA (bound %.1e), elements %s" % (
            grp, m.real, m.imag, bound, sorted(kinds)), mechanism=mech, buses=grp, mismatch=[m.real, m.imag],
            kinds=sorted(kinds), options=opts, n_bad_groups=len(bad)))
    # res_bus p/q == consumption of the elements that have their own table rows at the bus (dcline terminals are reported
    # in res_dcline only; the repository's own consistency check uses the same convention)
    cons_d, _ = balance.element_consumption(net, ac, with_dcline=False)
    rb = net.res_bus
    finite = rb.vm_pu.notna().values if ac else rb.va_degree.notna().values
    dp = (rb.p_mw.values - cons_d.values.real)[finite]
    if len(dp) and np.nanmax(np.abs(dp)) > 1e-8 + 1e-10 * np.abs(cons_d.values).max():
        i = int(np.nanargmax(np.abs(dp)))
        viols.append(common.viol("res_bus.p_mw differs from the net consumption of the bus elements by %.3e MW at bus %s" % (
            dp[i], net.bus.index[finite][i]), options=opts))
    if ac:
        dq = (rb.q_mvar.values - cons_d.values.imag)[finite]
        if len(dq) and np.nanmax(np.abs(dq)) > 1e-8 + 1e-10 * np.abs(cons_d.values).max():
            i = int(np.nanargmax(np.abs(dq)))
            viols.append(common.viol("res_bus.q_mvar differs from the net consumption of the bus elements by %.3e Mvar at bus %s" % (
                dq[i], net.bus.index[finite][i]), options=opts))
    return viols, tags, nontrivial


def net_tags(net, opts, ac):
    tags = set()
    if len(net.load) and ac and opts.get("voltage_depend_loads", True):
        zl = net.load[(net.load.in_service) & ((net.load.const_z_p_percent + net.load.const_i_p_percent + net.load.const_z_q_percent +
                                                 net.load.const_i_q_percent) > 0)]
        if len(zl):
            tags.add("zip")
            for b in zl.bus.unique():
                n_other = sum(int(((net[e].bus == b) & net[e].in_service).sum()) for e in ["load", "sgen", "storage", "motor", "ward", "xward"])
                if n_other >= 2:
                    tags.add("zip_mixed_bus")
    for el in ["xward", "ward", "dcline", "trafo3w", "impedance", "motor", "storage", "shunt", "gen", "asymmetric_load", "asymmetric_sgen"]:
        if len(net[el]) and net[el].in_service.any():
            tags.add(el)
    if len(net.switch) and ((net.switch.et == "b") & net.switch.closed & (net.switch.z_ohm > 0)).any():
        tags.add("z_switch")
    if (~net.bus.in_service).any():
        tags.add("oos_bus")
    sl = list(net.ext_grid.bus[net.ext_grid.in_service].values) + (list(net.gen.bus[net.gen.in_service & net.gen.slack].values) if len(net.gen) else [])
    grp = {b: i for i, gr in enumerate(balance.fused_groups(net)) for b in gr}
    if len(sl) != len({grp.get(b) for b in sl}):
        tags.add("co_located_slacks")
    if len(net.switch) and (~net.switch.closed & (net.switch.et != "b")).any():
        tags.add("open_branch_switch")
    return tags


def run_case(seed, tier, case_no):
    g = netgen.G(seed)
    profile = g.C(PROFILES)
    plain = g.B(0.12)
    if plain:
        # single slack, no PV-like elements, constant-power loads: the configuration in which pandapower takes its fast
        # single-slack result routine; bus shunt admittances purely conductive or purely susceptive or absent
        profile = g.C(["dist_radial", "weakly_meshed"])
        net = netgen.rnd_net(seed, profile, {"gen": 0.0, "xward": 0.0, "dcline": 0.0, "zip_load": 0.0, "second_eg": 0.0, "slack_gen": 0.0,
                                             "co_slack": 0.0, "extra_island": 0.0, "shunt": 0.9, "ward": 0.6})
        kind = g.C(["conductive", "susceptive", "none", "mixed"])
        if kind in ("conductive", "none"):
            net.shunt["q_mvar"] = 0.
            net.ward["qz_mvar"] = 0.
            net.line["c_nf_per_km"] = 0.
            net.trafo["i0_percent"] = net.trafo.pfe_kw / net.trafo.sn_mva / 10. if kind == "conductive" else 0.
            if len(net.trafo3w):
                net.trafo3w["i0_percent"] = net.trafo3w.pfe_kw / net.trafo3w.sn_hv_mva / 10. if kind == "conductive" else 0.
        if kind in ("susceptive", "none"):
            net.shunt["p_mw"] = 0.
            net.ward["pz_mw"] = 0.
            net.line["g_us_per_km"] = 0.
        if kind == "none":
            net.trafo["pfe_kw"] = 0.
            if len(net.trafo3w):
                net.trafo3w["pfe_kw"] = 0.
    else:
        net = netgen.rnd_net(seed, profile)
    ac = not g.B(0.15)
    if ac:
        # plain cases mostly with the defaults (numba on): the fast single-slack result path
        opts = {} if (plain and g.B(0.7)) else pf.rnd_pf_options(g, net)
        opts.setdefault("tolerance_mva", 1e-8)
        status, exc = pf.try_run(pp.runpp, net, **opts)
    else:
        opts = {}
        if g.B(0.5):
            opts["calculate_voltage_angles"] = g.B(0.5)
        if g.B(0.3):
            opts["trafo_model"] = g.C(["t", "pi"])
        status, exc = pf.try_run(pp.rundcpp, net, **opts)
    digest = common.net_digest(net, {"ac": ac, "o": opts})
    sample = {"profile": profile, "net": netgen.describe(net), "calc": "runpp" if ac else "rundcpp", "options": opts}
    tags = {"ac" if ac else "dc", "profile:" + profile}
    if plain:
        tags.add("plain_single_slack:" + kind)
    for k, v in opts.items():
        if k in ("algorithm", "trafo_model", "init"):
            tags.add("%s=%s" % (k, v))
        elif v is True and k in ("distributed_slack", "enforce_q_lims"):
            tags.add(k)
    if status != "ok":
        return common.case(digest, nontrivial=False, tags=tags, skipped=status, sample=sample)
    alg = opts.get("algorithm", "nr")
    tol = 1e-6 if alg in ("nr", "iwamoto_nr") else 2e-5
    viols, t2, nontrivial = check_balance(net, ac, tol, opts)
    tags |= t2 | net_tags(net, opts, ac)
    for v in viols:
        v["witness"]["seed"] = seed
        v["witness"]["profile"] = profile
    return common.case(digest, nontrivial=nontrivial, tags=tags, violations=viols, sample=sample)
