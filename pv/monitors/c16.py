"""C16 - OPF results are feasible operating points and are reproduced by a power flow with the OPF dispatch as set-points."""
import copy

import numpy as np
import pandapower as pp
from pandapower.auxiliary import OPFNotConverged

from .. import common
from ..gen import netgen, opfgen
from ..oracles import balance

PROPERTY = "C16"
READY = True
TECHNIQUE = ("runtime monitoring: declared constraints and the nodal power balance evaluated on the result tables of every "
             "converged runopp/rundcopp of feasible-by-construction problems; the dispatch is re-executed as a power flow on a "
             "fresh copy")
LEVEL = "exploration"
CASES = {"quick": 500, "thorough": 12000}
BUDGET = {"quick": 60, "thorough": 1200}
CASE_TIMEOUT = 90
FLOORS = {"quick": {"nontrivial": 180, "max_skip_frac": 0.45,
                    "tags": {"ac": 120, "dc": 80, "binding_branch_limit": 50, "binding_voltage_limit": 25, "controllable:gen": 120,
                             "controllable:sgen": 80, "controllable:load": 120, "controllable:storage": 60, "fixed:gen": 80,
                             "fixed:load": 120, "tight_convergence": 180, "reproduced_pf": 180, "dcline": 12},
                    "extras": {"constraints": 15000}},
          "thorough": {"nontrivial": 4500, "max_skip_frac": 0.45,
                       "tags": {"ac": 3000, "dc": 2000, "binding_branch_limit": 1200, "binding_voltage_limit": 600,
                                "controllable:storage": 1500, "fixed:gen": 2000, "tight_convergence": 4500, "reproduced_pf": 4500,
                                "dcline": 300},
                       "extras": {"constraints": 350000}}}
RULE = ("one case = one seeded OPF problem (pv/gen/opfgen.py): bundled case5/9/14/30/ieee30 or a small generated network, extended by "
        "sgens, storages, loads and sometimes a DC line; random subset controllable; all limits (bus voltage, branch loading, p/q "
        "ranges, ext_grid) wrapped around a converged power flow, so the problem is feasible by construction; random poly/pwl costs; "
        "runopp (65 %, init flat/pf) or rundcopp. Non-trivial = converged and judged; distinct = digest of input tables + options")
ASSUMPTIONS = [
    "a constraint counts as violated beyond 4 x OPF_VIOLATION (5e-6 p.u.) x (1 + max(|x|, |z|)): PIPS tests feasibility relative to "
    "the largest variable / slack; with piecewise linear costs the cost variables (currency units) enter that norm, so such runs "
    "are judged with a correspondingly wider tolerance (evidence counter solver_scale_log10)",
    "loading limits: 1e-3 % + relative solver tolerance; non-controllable elements must keep p (x scaling), q and vm set-points",
    "the nodal balance of the reported operating point is computed from the result tables only (pv/oracles/balance.py); the "
    "power-flow re-execution is compared (vm 1e-5, va 1e-3 degree, slack and branch flows 2e-5 p.u. x n_bus) when the OPF stopped "
    "with a balance mismatch <= 2e-5 p.u. (tight_convergence)",
    "OPF non-convergence (documented weak spot of the PYPOWER solver, ~22 % of the cases) is skipped, bounded by max_skip_frac",
    "DC lines are removed for rundcopp (never converges); trafo3w loading limits are generated but trafo3w branch flows are not "
    "re-compared",
]

VIOL_PU = 5e-6          # OPF_VIOLATION: constraint violation tolerance of the solver in p.u.


def run_opf(net, dc, **kw):
    try:
        (pp.rundcopp if dc else pp.runopp)(net, **kw)
        return "ok", None
    except OPFNotConverged as e:
        return "notconv", e
    except Exception as e:  # noqa
        return "exc", e


def solver_scale(net, dc):
    """1 + max(|x|, |z|) of the interior point solver, estimated from the result tables.  PIPS accepts a point when
    max(|g|, h) / (1 + max(|x|, |z|)) < OPF_VIOLATION, where x are the variables (angles in rad, voltages, powers in p.u. and one
    cost variable per piecewise linear cost in currency units) and z the slacks of the inequality constraints (p.u.)"""
    sn = float(net.sn_mva)
    k = np.pi
    for et in ("gen", "sgen", "load", "storage", "ext_grid"):
        tab = net[et]
        if not len(tab):
            continue
        res = net["res_" + et]
        for col, lo, hi in (("p_mw", "min_p_mw", "max_p_mw"), ("q_mvar", "min_q_mvar", "max_q_mvar")):
            if col in res and lo in tab:
                v = np.nan_to_num(res[col].values)
                k = max(k, float(np.nanmax(np.abs(np.r_[v, np.nan_to_num(tab[hi].values) - v, v - np.nan_to_num(tab[lo].values)]))) / sn)
    if len(net.pwl_cost):
        _, parts = opfgen.user_cost(net, per_element=True)
        k = max([k] + [abs(p[3]) for p in parts])          # with pwl costs every cost entry becomes an epigraph variable
    return 1. + k


def check_limits(net, dc, scale=1.):
    """list of (what, size, details) for every declared constraint that the result tables violate"""
    out = []
    sn = float(net.sn_mva)
    tp = 4 * VIOL_PU * scale * sn + 1e-9

    def worst(name, excess, index, **kw):
        excess = np.asarray(excess, dtype=float)
        bad = ~(excess <= kw.pop("tol", tp))
        if bad.any():
            k = int(np.nanargmax(np.where(np.isnan(excess), np.inf, excess)))
            out.append((name, float(excess[k]), dict(index=int(index[k]), n_violated=int(bad.sum()), **kw)))

    if not dc:
        live = net.res_bus.vm_pu.notna().values
        vm = net.res_bus.vm_pu.values[live]
        idx = net.bus.index.values[live]
        worst("bus voltage above max_vm_pu", vm - net.bus.max_vm_pu.values[live], idx, tol=4 * VIOL_PU * scale)
        worst("bus voltage below min_vm_pu", net.bus.min_vm_pu.values[live] - vm, idx, tol=4 * VIOL_PU * scale)
    for et in ("gen", "sgen", "load", "storage", "ext_grid"):
        tab = net[et]
        if not len(tab):
            continue
        res = net["res_" + et]
        ins = tab.in_service.values.astype(bool)
        if et == "ext_grid":
            ctrl = ins.copy()
        else:
            ctrl = tab.controllable.values.astype(bool) & ins
        fixed = ins & ~ctrl
        idx = tab.index.values
        p = res.p_mw.values
        if ctrl.any():
            worst("%s.p_mw above max_p_mw" % et, (p - tab.max_p_mw.values)[ctrl], idx[ctrl])
            worst("%s.p_mw below min_p_mw" % et, (tab.min_p_mw.values - p)[ctrl], idx[ctrl])
            if not dc:
                q = res.q_mvar.values
                worst("%s.q_mvar above max_q_mvar" % et, (q - tab.max_q_mvar.values)[ctrl], idx[ctrl])
                worst("%s.q_mvar below min_q_mvar" % et, (tab.min_q_mvar.values - q)[ctrl], idx[ctrl])
        if fixed.any():
            sc_ = tab.scaling.values if "scaling" in tab else np.ones(len(tab))
            worst("non-controllable %s does not keep its active power set-point" % et, np.abs(p - tab.p_mw.values * sc_)[fixed], idx[fixed])
            if et != "gen" and not dc:
                worst("non-controllable %s does not keep its reactive power set-point" % et,
                      np.abs(res.q_mvar.values - tab.q_mvar.values * sc_)[fixed], idx[fixed])
            if et == "gen" and not dc:
                worst("non-controllable gen does not keep its voltage set-point", np.abs(res.vm_pu.values - tab.vm_pu.values)[fixed],
                      idx[fixed], tol=4 * VIOL_PU * scale)
    if not dc:
        eg = net.ext_grid[net.ext_grid.in_service.values]
        fixed_v = eg if "controllable" not in eg else eg[~eg.controllable.values.astype(bool)]
        if len(fixed_v):
            worst("bus of a non-controllable ext_grid is not at its voltage set-point",
                  np.abs(net.res_bus.vm_pu.loc[fixed_v.bus.values].values - fixed_v.vm_pu.values), fixed_v.index.values, tol=4 * VIOL_PU * scale)
    for et in ("line", "trafo", "trafo3w"):
        tab = net[et]
        if len(tab) and "max_loading_percent" in tab:
            ld = net["res_" + et].loading_percent.values
            ok = np.isfinite(ld) & np.isfinite(tab.max_loading_percent.values)
            worst("%s loading above max_loading_percent" % et, (ld - tab.max_loading_percent.values)[ok], tab.index.values[ok],
                  tol=1e-3 + (1e-5 + 4 * VIOL_PU * scale * 10) * float(np.nanmax(tab.max_loading_percent.values)))
    if len(net.dcline):
        r = net.res_dcline
        d = net.dcline
        worst("dcline power above max_p_mw", np.abs(r.p_from_mw.values) - d.max_p_mw.values, d.index.values)
        if not dc:
            for side in ("from", "to"):
                # res_dcline q is in load convention (positive = consumed by the converter), the limits in generator convention
                q = -r["q_%s_mvar" % side].values
                worst("dcline q_%s above max" % side, q - d["max_q_%s_mvar" % side].values, d.index.values)
                worst("dcline q_%s below min" % side, d["min_q_%s_mvar" % side].values - q, d.index.values)
    return out


def as_power_flow(net, res, dc):
    """fresh copy of the input network with the OPF dispatch written into the set-point columns"""
    n = copy.deepcopy(net)
    for et in ("sgen", "load", "storage"):
        if len(n[et]):
            n[et]["p_mw"] = res["res_" + et].p_mw.values
            if not dc:
                n[et]["q_mvar"] = res["res_" + et].q_mvar.values
            n[et]["scaling"] = 1.
    if len(n.gen):
        n.gen["p_mw"] = res.res_gen.p_mw.values
        n.gen["scaling"] = 1.
        if not dc:
            n.gen["vm_pu"] = res.res_gen.vm_pu.values
    if not dc:
        n.ext_grid["vm_pu"] = res.res_bus.vm_pu.loc[n.ext_grid.bus.values].values
    n.ext_grid["va_degree"] = res.res_bus.va_degree.loc[n.ext_grid.bus.values].values
    if len(n.dcline):
        n.dcline["p_mw"] = res.res_dcline.p_from_mw.values
        if not dc:
            n.dcline["vm_from_pu"] = res.res_bus.vm_pu.loc[n.dcline.from_bus.values].values
            n.dcline["vm_to_pu"] = res.res_bus.vm_pu.loc[n.dcline.to_bus.values].values
    return n


def trafo_base_explains(net, res, ti):
    """the OPF limits the transformer current in the per-unit system of the *bus* voltages (RATE_A = max_loading * sn_mva), the
    reported loading_percent relates the current to the rated current at the *transformer's* rated voltages: a binding limit shows up
    as loading = max_loading * max(vn_hv / vn_hv_bus, vn_lv / vn_lv_bus)"""
    t = net.trafo.loc[ti]
    f = max(t.vn_hv_kv / float(net.bus.vn_kv.at[t.hv_bus]), t.vn_lv_kv / float(net.bus.vn_kv.at[t.lv_bus]))
    ld = float(res.res_trafo.loading_percent.at[ti])
    return f > 1 + 1e-6 and ld <= t.max_loading_percent * f * (1 + 1e-4) + 1e-3


def dcline_relations(net, res):
    """does res_dcline follow the power-flow loss model p_to = -(p_from * (1 - loss%) - loss_mw), or the relation that the OPF
    constraint (optimal_powerflow._add_dcline_constraints) actually imposes: p_from = loss_mw * sn_mva + (1 + loss%) * (-p_to)
    (loss_mw is used as a per-unit number, the percentage is applied to the receiving end)"""
    d, r = net.dcline[net.dcline.in_service.values], res.res_dcline
    pf_, pt_ = r.p_from_mw.loc[d.index].values, r.p_to_mw.loc[d.index].values
    lp, lm = d.loss_percent.values / 100., d.loss_mw.values
    tol = 1e-4 * (1 + np.abs(pf_))
    return {"pf_relation_holds": bool((np.abs(pt_ + (pf_ * (1 - lp) - lm)) <= tol).all()),
            "opf_relation_holds": bool((np.abs(pf_ - (lm * float(net.sn_mva) + (1 + lp) * (-pt_))) <= tol).all()),
            "p_from_mw": pf_.tolist(), "p_to_mw": pt_.tolist()}


def reproduce(net, work, dc, replace_dcline=False, f=1.):
    """list of differences between the OPF result tables and a power flow with the OPF dispatch as set-points; f loosens the
    tolerances (used when the OPF itself stopped with a larger power mismatch)"""
    n2 = as_power_flow(net, work, dc)
    if replace_dcline and len(n2.dcline):
        for i, r in n2.dcline.iterrows():
            rr = work.res_dcline.loc[i]
            pp.create_load(n2, int(r.from_bus), p_mw=float(rr.p_from_mw), q_mvar=float(rr.q_from_mvar))
            pp.create_load(n2, int(r.to_bus), p_mw=float(rr.p_to_mw), q_mvar=float(rr.q_to_mvar))
        n2.dcline.drop(n2.dcline.index, inplace=True)
    try:
        if dc:
            pp.rundcpp(n2)
        else:
            pp.runpp(n2, calculate_voltage_angles=True, tolerance_mva=1e-9)
    except Exception as e:  # noqa
        return ["power flow with the OPF dispatch as set-points fails: %s: %s" % (type(e).__name__, e)]
    out = []
    sn, nb = float(net.sn_mva), len(net.bus)
    live = work.res_bus.va_degree.notna().values
    if not dc:
        dv = np.abs(n2.res_bus.vm_pu.values - work.res_bus.vm_pu.values)[live]
        if not (dv.max() <= 1e-5 * f):
            out.append("power flow of the OPF dispatch gives other voltages: max |dvm| = %.3e p.u." % dv.max())
    da = n2.res_bus.va_degree.values[live] - work.res_bus.va_degree.values[live]
    da = np.abs((da + 180.) % 360. - 180.)          # angles are only defined modulo 360 degree
    if not (da.max() <= (1e-3 if not dc else 1e-5) * f):
        out.append("power flow of the OPF dispatch gives other angles: max |dva| = %.3e degree" % da.max())
    # the share of several ext_grids at one (fused) bus is not determined by the power flow equations: compare the sum per bus group
    from ..oracles import balance
    grp = {b: k for k, members in enumerate(balance.fused_groups(net)) for b in members}
    key = np.array([grp[b] for b in net.ext_grid.bus.values])
    sl = net.gen.slack.values.astype(bool) & net.gen.in_service.values if len(net.gen) else np.zeros(0, dtype=bool)
    gkey = np.array([grp[b] for b in net.gen.bus.values[sl]])

    def slack_p(res, k):
        p_sl = np.nansum(res.res_ext_grid.p_mw.values[key == k])
        if sl.any():
            p_sl += np.nansum(res.res_gen.p_mw.values[sl][gkey == k])       # slack generators share the slack power of the group
        return p_sl
    dp = np.array([abs(slack_p(n2, k) - slack_p(work, k)) for k in np.unique(key)])
    if not (dp.max() <= (4 * VIOL_PU * sn * nb + 1e-6) * f):
        out.append("slack power of the reproduced power flow differs by %.3e MW" % dp.max())
    for et, cols in (("line", ("p_from_mw", "p_to_mw")), ("trafo", ("p_hv_mw", "p_lv_mw"))):
        if len(net[et]):
            for c in cols:
                d = np.abs(n2["res_" + et][c].values - work["res_" + et][c].values)
                d = d[np.isfinite(d)]
                if len(d) and not (d.max() <= (4 * VIOL_PU * sn * nb + 1e-5 * (1 + np.nanmax(np.abs(work["res_" + et][c].values)))) * f):
                    out.append("res_%s.%s of the reproduced power flow differs by %.3e MW" % (et, c, d.max()))
    return out


def run_case(seed, tier, case_no):
    g = netgen.G(seed)
    dc = g.B(0.35)
    net, info = opfgen.build(seed, dc=dc)
    tags = {"dc" if dc else "ac", "base:" + info["base"]}
    if net is None:
        return common.case(common.sha([seed, info]), nontrivial=False, tags=tags, skipped=info["skip"], sample=info)
    if dc and len(net.dcline):
        net.dcline.drop(net.dcline.index, inplace=True)
        net.poly_cost = net.poly_cost[net.poly_cost.et != "dcline"]
        net.pwl_cost = net.pwl_cost[net.pwl_cost.et != "dcline"]
    opts = {}
    if not dc and g.B(0.3):
        opts["init"] = "pf"
    sample = dict(info, calc="rundcopp" if dc else "runopp", options=opts)
    digest = common.net_digest(net, {"dc": dc, "o": opts})
    wit = dict(seed=seed, calc=sample["calc"], base=info["base"])
    work = copy.deepcopy(net)
    st, exc = run_opf(work, dc, **opts)
    if st == "notconv":
        return common.case(digest, nontrivial=False, tags=tags, skipped="opf_not_converged", sample=sample)
    if st == "exc":
        if isinstance(exc, ValueError) and "iecewise linear costs can not be mixed" in str(exc):
            return common.case(digest, nontrivial=False, tags=tags, skipped="refused_pwl_with_quadratic", sample=sample)
        return common.case(digest, nontrivial=True, tags=tags, sample=sample, violations=[common.viol(
            "%s raised %s: %s on a feasible problem" % (sample["calc"], type(exc).__name__, exc), **wit)])
    viols = []
    extra = {"constraints": 0}
    # ---- 1. declared constraints
    scale = solver_scale(work, dc)
    extra["solver_scale_log10"] = float(np.log10(scale))
    for what, size, det in check_limits(work, dc, scale):
        mech = None
        if what.startswith("trafo loading") and trafo_base_explains(net, work, det["index"]):
            mech = "trafo_limit_in_bus_voltage_base"
        viols.append(common.viol("%s by %.3e" % (what, size), mechanism=mech, solver_scale=scale, **det, **wit))
    # ---- 1b. power balance of the reported operating point (result tables only)
    res_, _ = balance.nodal_mismatch(work, not dc)
    mism = max([abs(m if not dc else m.real) for grp, m, sc_, k_, en in res_ if en] + [0.])
    sn = float(net.sn_mva)
    if not (mism <= 8 * VIOL_PU * scale * sn + 1e-6) and not (len(net.dcline) and not dc):
        viols.append(common.viol("nodal power balance of the OPF result violated by %.3e MVA (solver tolerance %.1e p.u. x scale %.1f)" % (
            mism, VIOL_PU, scale), **wit))
    tight = mism <= 2e-5 * sn
    tags.add("tight_convergence" if tight else "loose_convergence")
    for et in ("gen", "sgen", "load", "storage"):
        if len(net[et]):
            c = net[et].controllable.values.astype(bool) & net[et].in_service.values
            if c.any():
                tags.add("controllable:" + et)
            if (~c & net[et].in_service.values).any():
                tags.add("fixed:" + et)
            extra["constraints"] += int(4 * c.sum() + 2 * (~c).sum())
    extra["constraints"] += 2 * len(net.bus) + len(net.line) + len(net.trafo)
    if len(net.dcline):
        tags.add("dcline")
    # binding constraints make the check meaningful
    for et in ("line", "trafo"):
        if len(net[et]) and (work["res_" + et].loading_percent.values >= net[et].max_loading_percent.values - 1e-2).any():
            tags.add("binding_branch_limit")
    if not dc and ((work.res_bus.vm_pu.values >= net.bus.max_vm_pu.values - 1e-5) | (work.res_bus.vm_pu.values <= net.bus.min_vm_pu.values + 1e-5)).any():
        tags.add("binding_voltage_limit")
    # ---- 2. the result is a power-flow solution of the dispatch
    diffs = reproduce(net, work, dc) if (tight or len(net.dcline)) else []
    ok = not (diffs and diffs[0].startswith("power flow with the OPF dispatch"))
    if ok:
        tags.add("reproduced_pf")
    if diffs:
        mech = None
        if len(net.dcline) and not dc:
            # DC line: the OPF ties the two terminal powers by its own constraint. If the operating point is a power-flow
            # solution once the DC line is replaced by its two terminal injections, the rest of the result is consistent and
            # the deviation is the DC line loss relation itself
            rel = dcline_relations(net, work)
            if rel["opf_relation_holds"] and not rel["pf_relation_holds"] and \
                    not reproduce(net, work, dc, replace_dcline=True, f=max(1., mism / (1e-6 * sn))):
                mech = "dcline_opf_loss_relation"
                tags.add("dcline_terminals_replaced")
        for d in diffs[:3]:
            viols.append(common.viol(d, mechanism=mech, **(dcline_relations(net, work) if mech else {}), **wit))
    elif len(net.dcline):
        tags.add("dcline_reproduced")
    return common.case(digest, nontrivial=True, tags=tags, violations=viols, sample=sample, extra=extra, evals=1 + int(ok))
