"""C05 - invariance of power flow results under equivalent re-representations (metamorphic monitor)."""
import copy

import numpy as np
import pandas as pd
import pandapower as pp

from .. import common, pf
from ..gen import netgen

PROPERTY = "C05"
READY = True
LEVEL = "exploration"
TECHNIQUE = "runtime monitoring: metamorphic pairs (original run, re-represented run) of the real power flow compared through the transformation's row mapping"
CASES = {"quick": 260, "thorough": 12000}
BUDGET = {"quick": 60, "thorough": 1200}
TRANSFORMS = ["sn_mva", "relabel_buses", "permute_rows", "split_load", "split_sgen", "parallel_lines", "swap_line_ends", "add_neutral",
              "split_bus", "relabel_elements"]
FLOORS = {"quick": {"nontrivial": 80, "tags": {("T:" + t): 25 for t in TRANSFORMS}, "max_skip_frac": 0.5},
          "thorough": {"nontrivial": 4000, "tags": {("T:" + t): 1500 for t in TRANSFORMS}, "max_skip_frac": 0.5}}
RULE = ("seeded random networks; every case runs the original once and then each of the 10 transformations (applied at seeded "
        "targets by the harness' own table rewriting, not by the toolbox) with the same options; non-trivial = original converged "
        "and at least 6 transformations were compared; distinct = digest of the original inputs + options")
ASSUMPTIONS = ["distributed_slack runs: bus angles are compared up to one common offset per island (the angle reference is the first ext_grid in table order)",
               "both runs use tolerance_mva=1e-8; comparison tolerance 1e-6 p.u. / 1e-5 deg / 1e-5*(1+|S|) MVA",
               "a pair in which both results balance (C01) but one is a low-voltage root is counted as alternate_root, not a violation",
               "bus relabelling rewrites every *_bus column, switch.bus and switch.element of bus-bus switches; element relabelling "
               "rewrites switch.element of the matching et"]

BUS_COLS = {"line": ["from_bus", "to_bus"], "trafo": ["hv_bus", "lv_bus"], "trafo3w": ["hv_bus", "mv_bus", "lv_bus"],
            "impedance": ["from_bus", "to_bus"], "dcline": ["from_bus", "to_bus"], "load": ["bus"], "sgen": ["bus"], "gen": ["bus"],
            "ext_grid": ["bus"], "storage": ["bus"], "motor": ["bus"], "shunt": ["bus"], "ward": ["bus"], "xward": ["bus"],
            "asymmetric_load": ["bus"], "asymmetric_sgen": ["bus"]}


_FRESH = {}


def scrub(net):
    """copy of the inputs without any result / internal state: private entries are reset to those of a new empty network"""
    if not _FRESH:
        _FRESH["net"] = pp.create_empty_network()
    fresh = _FRESH["net"]
    n = copy.deepcopy(net)
    for k in list(n.keys()):
        if k.startswith("res_") and isinstance(n[k], pd.DataFrame):
            n[k] = n[k].iloc[0:0]
        elif k.startswith("_") and not k.startswith("_empty"):
            if k in fresh:
                n[k] = copy.deepcopy(fresh[k])
            else:
                del n[k]
    if "converged" in n:
        n["converged"] = False
    return n


# ------------------------------------------------------------------------------------------------ transformations
def t_sn_mva(net, g):
    net.sn_mva = float(net.sn_mva) * g.C([0.1, 7.3, 100., 0.37])
    return {}


def t_relabel_buses(net, g):
    old = list(net.bus.index)
    new = [int(x) for x in g.rng.permutation(len(old)) * 3 + 1000]
    m = dict(zip(old, new))
    net.bus.index = [m[b] for b in net.bus.index]
    for el, cols in BUS_COLS.items():
        for c in cols:
            if len(net[el]):
                net[el][c] = net[el][c].map(m).astype(np.int64)
    if len(net.switch):
        net.switch["bus"] = net.switch.bus.map(m).astype(np.int64)
        bb = net.switch.et == "b"
        net.switch.loc[bb, "element"] = net.switch.loc[bb, "element"].map(m).astype(np.int64)
    if "bus_geodata" in net and len(net.bus_geodata):
        net.bus_geodata.index = [m.get(b, b) for b in net.bus_geodata.index]
    return {"bus": m}


def t_relabel_elements(net, g):
    maps = {}
    for el, et in (("line", "l"), ("trafo", "t"), ("trafo3w", "t3"), ("load", None), ("gen", None), ("sgen", None)):
        if not len(net[el]):
            continue
        old = list(net[el].index)
        new = [int(x) for x in g.rng.permutation(len(old)) * 2 + 500]
        m = dict(zip(old, new))
        net[el].index = new
        if et is not None and len(net.switch):
            sel = net.switch.et == et
            net.switch.loc[sel, "element"] = net.switch.loc[sel, "element"].map(m).astype(np.int64)
        maps[el] = m
    return maps


def t_permute_rows(net, g):
    for el in ["bus", "load", "sgen", "gen", "line", "trafo", "switch", "shunt", "ext_grid", "trafo3w", "storage", "ward", "xward"]:
        if len(net[el]) > 1:
            net[el] = net[el].iloc[g.rng.permutation(len(net[el]))]
    return {}


def _split(net, g, el):
    t = net[el]
    cand = t.index[t.in_service.values]
    if not len(cand):
        return None
    i = int(g.C(list(cand)))
    n = g.I(2, 4)
    w = g.rng.dirichlet(np.ones(n))
    row = t.loc[i].copy()
    p, q = row.p_mw, row.q_mvar
    t.at[i, "p_mw"] = p * w[0]
    t.at[i, "q_mvar"] = q * w[0]
    nxt = int(t.index.max()) + 1
    for k in range(1, n):
        r = row.copy()
        r["p_mw"], r["q_mvar"] = p * w[k], q * w[k]
        net[el].loc[nxt] = r
        nxt += 1
    for c in t.columns:
        net[el][c] = net[el][c].astype(t[c].dtype, errors="ignore")
    return {"dropped_rows": {el: list(range(nxt - n + 1, nxt))}, "merged": {el: i}}


def t_split_load(net, g):
    return _split(net, g, "load")


def t_split_sgen(net, g):
    return _split(net, g, "sgen")


def t_parallel_lines(net, g):
    sw_lines = set(net.switch.element[net.switch.et == "l"].values) if len(net.switch) else set()
    cand = [i for i in net.line.index if net.line.parallel.at[i] >= 2 and i not in sw_lines]
    if not cand:
        # make one: raise parallel of a random switch-free line in BOTH nets is not possible here -> expand a single line into parallel=1 copies is identity
        return None
    i = int(g.C(cand))
    n = int(net.line.parallel.at[i])
    row = net.line.loc[i].copy()
    net.line.at[i, "parallel"] = 1
    nxt = int(net.line.index.max()) + 1
    new = []
    for k in range(1, n):
        r = row.copy()
        r["parallel"] = 1
        net.line.loc[nxt] = r
        new.append(nxt)
        nxt += 1
    for c in net.line.columns:
        net.line[c] = net.line[c].astype(row.to_frame().T[c].infer_objects().dtype, errors="ignore") if False else net.line[c]
    net.line["parallel"] = net.line.parallel.astype(np.int64)
    net.line["from_bus"] = net.line.from_bus.astype(np.int64)
    net.line["to_bus"] = net.line.to_bus.astype(np.int64)
    net.line["in_service"] = net.line.in_service.astype(bool)
    return {"expanded_line": (i, new, n)}


def t_swap_line_ends(net, g):
    if not len(net.line):
        return None
    i = int(g.C(list(net.line.index)))
    f, t = net.line.from_bus.at[i], net.line.to_bus.at[i]
    net.line.at[i, "from_bus"], net.line.at[i, "to_bus"] = t, f
    return {"swapped_line": i}


def t_add_neutral(net, g):
    b = [int(x) for x in net.bus.index]
    pp.create_load(net, g.C(b), 0., 0.)
    pp.create_load(net, g.C(b), 3., 1., in_service=False)
    pp.create_sgen(net, g.C(b), 5., 1., in_service=False)
    pp.create_sgen(net, g.C(b), 2., 1., scaling=0.)
    pp.create_shunt(net, g.C(b), 1., 0.5, step=0)
    a, c = g.C(b), g.C(b)
    if a != c and net.bus.vn_kv.at[a] == net.bus.vn_kv.at[c]:
        pp.create_line_from_parameters(net, a, c, 1., 0.1, 0.1, 10, 1., in_service=False)
    pp.create_gen(net, g.C(b), 5., 1.07, in_service=False)
    # further elements that are out of service: dc line (two auxiliary generators inside pandapower), ward, xward, ext_grid
    a, c = g.C(b), g.C(b)
    if a != c:
        pp.create_dcline(net, a, c, p_mw=g.R(1, 4), loss_percent=1., loss_mw=0.01, vm_from_pu=1.06, vm_to_pu=0.97, in_service=False)
    pp.create_ward(net, g.C(b), 1., 0.5, 0.3, 0.2, in_service=False)
    pp.create_xward(net, g.C(b), 1., 0.5, 0.3, 0.2, 0.1, 0.3, 1.05, in_service=False)
    pp.create_ext_grid(net, g.C(b), vm_pu=1.08, va_degree=20., in_service=False)
    return {"added": True}


def t_split_bus(net, g):
    """split a bus into two buses joined by a closed zero-impedance bus-bus switch; some bus elements move to the new bus"""
    cand = [int(b) for b in net.bus.index[net.bus.in_service.values]]
    b = g.C(cand)
    nb = pp.create_bus(net, float(net.bus.vn_kv.at[b]), name="split")
    pp.create_switch(net, b, nb, "b", closed=True)
    moved = 0
    for el in ("load", "sgen", "storage", "shunt"):
        for i in net[el].index[net[el].bus.values == b]:
            if g.B(0.6):
                net[el].at[i, "bus"] = nb
                moved += 1
    # move one line end as well
    ends = [(i, "from_bus") for i in net.line.index[net.line.from_bus.values == b]] + [(i, "to_bus") for i in net.line.index[net.line.to_bus.values == b]]
    if ends and g.B(0.6):
        i, col = g.C(ends)
        sw_here = len(net.switch) and ((net.switch.et == "l") & (net.switch.element == i) & (net.switch.bus == b)).any()
        if not sw_here:
            net.line.at[i, col] = nb
            moved += 1
    return {"split_bus": (b, nb), "moved": moved}


T = {"sn_mva": t_sn_mva, "relabel_buses": t_relabel_buses, "permute_rows": t_permute_rows, "split_load": t_split_load,
     "split_sgen": t_split_sgen, "parallel_lines": t_parallel_lines, "swap_line_ends": t_swap_line_ends, "add_neutral": t_add_neutral,
     "split_bus": t_split_bus, "relabel_elements": t_relabel_elements}


# ------------------------------------------------------------------------------------------------ comparison
def compare(orig, new, info, opts, name):
    viols = []
    bmap = info.get("bus", {b: b for b in orig.bus.index})
    ob = orig.res_bus
    nbus = new.res_bus.reindex([bmap[b] for b in ob.index])
    dvm = np.abs(ob.vm_pu.values - nbus.vm_pu.values)
    nanmis = np.isnan(ob.vm_pu.values) != np.isnan(nbus.vm_pu.values)
    if nanmis.any():
        viols.append(common.viol("%s: NaN pattern of res_bus differs at buses %s" % (name, list(ob.index[nanmis][:5])), options=opts, transform=name))
        return viols, False
    sva = (ob.va_degree.values - nbus.va_degree.values + 180) % 360 - 180
    if opts.get("distributed_slack"):
        # with distributed slack only one ext_grid per island is the angle reference (the first in table order); which one is
        # a matter of representation, so angles are compared up to a common offset per island
        from ..oracles import graph
        uf, isb = graph.energized_components(orig)
        roots = np.array([uf.find(b) if b in isb else -1 for b in ob.index])
        for r in set(roots):
            m = (roots == r) & ~np.isnan(sva)
            if r != -1 and m.any():
                sva[m] = sva[m] - np.median(sva[m])
    dva = np.abs(sva)
    ok = ~np.isnan(dvm)
    if ok.any() and (dvm[ok].max() > 1e-6 or dva[ok].max() > 1e-5):
        # alternate root?
        if min(np.nanmin(ob.vm_pu.values), np.nanmin(nbus.vm_pu.values)) < 0.5:
            return [], True
        i = int(np.nanargmax(dvm))
        viols.append(common.viol("%s: bus %s vm %.9f -> %.9f, max dva %.3e deg" % (name, ob.index[i], ob.vm_pu.values[i], nbus.vm_pu.values[i],
                                                                                   np.nanmax(dva)), options=opts, transform=name))
        return viols, False
    if name == "split_bus":
        b, nb = info["split_bus"]
        if abs(new.res_bus.vm_pu.at[nb] - new.res_bus.vm_pu.at[b]) > 1e-12 or abs(new.res_bus.va_degree.at[nb] - new.res_bus.va_degree.at[b]) > 1e-10:
            viols.append(common.viol("split_bus: fused buses %s/%s report different voltages" % (b, nb), options=opts, transform=name))
    # element results
    for el, cols in (("line", ["p_from_mw", "q_from_mvar", "p_to_mw", "q_to_mvar", "i_ka", "loading_percent"]),
                     ("trafo", ["p_hv_mw", "q_hv_mvar", "p_lv_mw", "q_lv_mvar", "loading_percent"]),
                     ("trafo3w", ["p_hv_mw", "q_hv_mvar", "p_mv_mw", "q_mv_mvar", "p_lv_mw", "q_lv_mvar", "loading_percent"]),
                     ("ext_grid", ["p_mw", "q_mvar"]), ("gen", ["p_mw", "q_mvar", "vm_pu"]), ("load", ["p_mw", "q_mvar"]),
                     ("sgen", ["p_mw", "q_mvar"]), ("impedance", ["p_from_mw", "q_from_mvar", "p_to_mw", "q_to_mvar"]),
                     ("xward", ["p_mw", "q_mvar"]), ("ward", ["p_mw", "q_mvar"]), ("shunt", ["p_mw", "q_mvar"]),
                     ("dcline", ["p_from_mw", "q_from_mvar", "p_to_mw", "q_to_mvar"])):
        if not len(orig[el]):
            continue
        o = orig["res_" + el][cols]
        emap = info.get(el)
        idx = [emap[i] for i in o.index] if emap else list(o.index)
        n = new["res_" + el][cols].reindex(idx)
        ov, nv = o.values.astype(float).copy(), n.values.astype(float).copy()
        if el == "line" and "swapped_line" in info:
            k = list(o.index).index(info["swapped_line"])
            nv[k, :4] = nv[k, [2, 3, 0, 1]]
        if el == "line" and "expanded_line" in info:
            i0, newl, npar = info["expanded_line"]
            k = list(o.index).index(i0)
            rows = new["res_line"][cols].loc[[i0] + newl].values.astype(float)
            nv[k, :5] = rows[:, :5].sum(axis=0)
            nv[k, 5] = rows[:, 5].max()
            if np.abs(rows[:, :4] - rows[0, :4]).max() > 1e-7:
                viols.append(common.viol("parallel_lines: identical lines report different flows", options=opts, transform=name))
        if el in info.get("merged", {}):
            i0 = info["merged"][el]
            k = list(o.index).index(i0)
            extra = info["dropped_rows"][el]
            nv[k, :] = new["res_" + el][cols].loc[[i0] + extra].values.astype(float).sum(axis=0)
        d = np.abs(ov - nv)
        tol = 1e-5 * (1 + np.abs(ov))
        bad = ~((d <= tol) | (np.isnan(ov) & np.isnan(nv)))
        if bad.any():
            r, c = np.argwhere(bad)[0]
            viols.append(common.viol("%s: res_%s.%s[%s] %.9g -> %.9g" % (name, el, cols[c], o.index[r], ov[r, c], nv[r, c]), options=opts, transform=name))
            break
    return viols, False


def run_case(seed, tier, case_no):
    g = netgen.G(seed)
    profile = g.C(["full_mix", "weakly_meshed", "transmission", "multi_island", "dist_radial"])
    net = netgen.rnd_net(seed, profile, {"multi": 0.8})
    # make sure some line has parallel >= 2 and no switch
    if len(net.line) and g.B(0.9):
        sw_lines = set(net.switch.element[net.switch.et == "l"].values) if len(net.switch) else set()
        free = [i for i in net.line.index if i not in sw_lines]
        if free:
            net.line.at[g.C(free), "parallel"] = g.I(2, 3)
    opts = {"tolerance_mva": 1e-8}
    if g.B(0.5):
        opts["trafo_model"] = g.C(["t", "pi"])
    if g.B(0.5):
        opts["calculate_voltage_angles"] = g.B(0.7)
    if g.B(0.2):
        opts["numba"] = False
    if g.B(0.2):
        opts["enforce_q_lims"] = False
    if g.B(0.15):
        opts["distributed_slack"] = True
    if g.B(0.5):
        opts["init"] = "dc" if opts.get("calculate_voltage_angles", True) else "flat"
    dc = g.B(0.12)
    fn = pp.rundcpp if dc else pp.runpp
    if dc:
        opts = {k: v for k, v in opts.items() if k in ("trafo_model", "calculate_voltage_angles")}
    base = scrub(net)
    digest = common.net_digest(net, {"o": opts, "dc": dc})
    status, exc = pf.try_run(fn, net, **opts)
    sample = {"profile": profile, "net": netgen.describe(net), "calc": fn.__name__, "options": opts}
    if status != "ok":
        return common.case(digest, nontrivial=False, skipped=status, sample=sample)
    tags, viols, compared, alt = set(), [], 0, 0
    for name in TRANSFORMS:
        n2 = copy.deepcopy(base)
        g2 = netgen.G(seed ^ hash(name) % (2 ** 31) if False else (seed + TRANSFORMS.index(name) * 7919) % (2 ** 63))
        try:
            info = T[name](n2, g2)
        except Exception as e:  # harness problem: surface it
            raise
        if info is None:
            continue
        st2, e2 = pf.try_run(fn, n2, **opts)
        if st2 != "ok":
            if st2 == "notconv":
                tags.add("notconv_after:" + name)
                continue
            viols.append(common.viol("%s: original converged, transformed run ended with %s (%r)" % (name, st2, e2), options=opts, transform=name))
            continue
        v, a = compare(net, n2, info, opts, name)
        if v and name == "sn_mva" and not dc:
            # known finding: runpp applies tolerance_mva to the per-unit mismatch, i.e. the effective tolerance is
            # tolerance_mva * sn_mva MVA. Signature: with the tolerance divided by the larger sn_mva both runs agree.
            k = max(float(net.sn_mva), float(n2.sn_mva), 1.0)
            o3 = dict(opts, tolerance_mva=opts["tolerance_mva"] / k)
            a3, b3 = copy.deepcopy(base), copy.deepcopy(base)
            b3.sn_mva = n2.sn_mva
            if pf.try_run(fn, a3, **o3)[0] == "ok" and pf.try_run(fn, b3, **o3)[0] == "ok" and not compare(a3, b3, info, o3, name)[0]:
                for x in v:
                    x["mechanism"] = "tolerance_mva_applied_in_per_unit"
        alt += a
        viols += v
        compared += 1
        tags.add("T:" + name)
    sample["transforms_compared"] = compared
    return common.case(digest, nontrivial=compared >= 6, tags=tags | {"dc" if dc else "ac"}, violations=viols[:5], sample=sample, evals=compared,
                       extra={"alternate_root": alt, "compared": compared})
