"""C32 - Characteristic / SplineCharacteristic / LogSplineCharacteristic: support points, shape preservation, serialisation.

One case = one network holding several seeded characteristic objects.  Every object is judged against
  (1) its own support points,
  (2) a reference written from the class documentation (own piecewise-linear model for Characteristic, the documented scipy
      interpolator built directly by the monitor for the spline classes),
  (3) the between-neighbours / monotonicity contract of shape-preserving kinds on monotone data,
  (4) copies of itself obtained through to_json (string / file / encrypted), pickle and deepcopy of the holding network.
"""
import copy
import os

import numpy as np
import pandas as pd
import pandapower as pp
from scipy.interpolate import PchipInterpolator, interp1d

from pandapower.control.util.characteristic import Characteristic, LogSplineCharacteristic, SplineCharacteristic

from .. import common
from ..gen import netgen

PROPERTY = "C32"
READY = True
LEVEL = "exploration"
TECHNIQUE = ("runtime monitoring: contract + documentation-derived reference interpolator evaluated on seeded characteristic "
             "objects, before and after every serialisation route of the holding network")
CASES = {"quick": 640, "thorough": 25000}
BUDGET = {"quick": 60, "thorough": 1500}
FLOORS = {"quick": {"nontrivial": 320, "max_skip_frac": 0.05,
                    "tags": {"cls:Characteristic": 270, "cls:SplineCharacteristic": 270, "cls:LogSplineCharacteristic": 270,
                             "kind:Pchip": 260, "kind:quadratic": 100, "kind:cubic": 40, "kind:linear": 75, "route:json_string": 160,
                             "route:json_file": 70, "route:json_encrypted": 90, "route:pickle": 160, "route:deepcopy": 160,
                             "from_gradient": 110, "from_points": 120, "called_before_save": 180, "fill_tuple": 180},
                    "extras": {"objects": 1750, "support_points": 9000, "shape_checked": 1100, "reference_evals": 215000,
                               "roundtrip_objects": 3500}},
          "thorough": {"nontrivial": 12000, "max_skip_frac": 0.05,
                       "tags": {"cls:Characteristic": 10000, "cls:SplineCharacteristic": 10000, "cls:LogSplineCharacteristic": 10000,
                                "kind:Pchip": 10000, "route:json_string": 6000, "route:json_encrypted": 3500},
                       "extras": {"objects": 68000, "shape_checked": 40000}}}
RULE = ("one case = a network with 3-8 characteristic objects (class, interpolator kind, constructor route, container type, "
        "2-9 strictly increasing x, monotone or arbitrary y drawn from the seed) + one serialisation route; non-trivial = at "
        "least one object with >= 3 support points evaluated and round-tripped; distinct = digest of all object specs + route")
ASSUMPTIONS = ["scipy.interpolate (interp1d, PchipInterpolator) is the trusted base named by the class documentation",
               "support points 1e-9 relative to max|y| (measured noise <= 1e-13); reference agreement 1e-9 relative to the "
               "value scale (same formula evaluated twice); round trip outputs 1e-12 relative (JSON writes repr floats)",
               "domain: strictly increasing finite x with neighbouring gap ratio <= 20, LogSpline x,y > 0, from_gradient gradient > 0"]

SHAPE_KINDS = {"linear", "slinear", "nearest", "previous", "next", "zero", "Pchip", "piecewise"}
KINDS = ["quadratic", "quadratic", "cubic", "linear", "slinear", "nearest", "previous", "next", "zero"]
MIN_PTS = {"quadratic": 3, "cubic": 4, "zero": 2, "slinear": 2}
ROUTES = ["json_string", "json_string", "json_file", "json_encrypted"]   # + one of pickle / deepcopy in every case
TABLES = ["characteristic", "characteristic", "characteristic", "trafo_characteristic_spline", "shunt_characteristic_spline",
          "my_curves"]


def _container(g, vals):
    k = g.C(["list", "list", "array", "tuple"])
    if k == "array":
        return np.array(vals, dtype=float), k
    if k == "tuple":
        return tuple(float(v) for v in vals), k
    return [float(v) for v in vals], k


def gen_spec(g):
    """a JSON-able description of one characteristic object"""
    cls = g.C(["Characteristic", "SplineCharacteristic", "LogSplineCharacteristic"])
    n = g.I(2, 9)
    log = cls == "LogSplineCharacteristic"
    scale_x = 10 ** g.R(-2, 3)
    gaps = np.array([g.R(0.05, 1.0) for _ in range(n - 1)])
    x0 = g.R(0.01, 2) if (log or g.B(0.5)) else g.R(-3, 0)
    x = (x0 + np.concatenate([[0.], np.cumsum(gaps)])) * scale_x
    shape = g.C(["inc", "dec", "arb", "arb", "flat_parts"])
    scale_y = 10 ** g.R(-3, 4)
    if shape == "arb":
        y = np.array([g.R(0.05, 1) if log else g.R(-1, 1) for _ in range(n)])
    else:
        st = np.array([g.R(0.01, 1) for _ in range(n - 1)])
        if shape == "flat_parts":
            st[g.rng.random(n - 1) < 0.4] = 0.
        y = np.concatenate([[0.], np.cumsum(st)])
        if shape == "dec" or (shape == "flat_parts" and g.B(0.5)):
            y = y[::-1].copy()
        y = y + (g.R(0.01, 1) if log else g.R(-2, 1))
    y = y * scale_y
    if g.B(0.15) and not log:
        y = np.round(y / scale_y * 10)  # integer valued data
    spec = {"cls": cls, "x": [float(v) for v in x], "y": [float(v) for v in y], "table": g.C(TABLES), "route_ctor": "init",
            "kind": "piecewise", "fill": None}
    if cls == "Characteristic":
        r = g.rng.random()
        if r < 0.25:
            spec["route_ctor"] = "from_points"
        elif r < 0.5:
            spec["route_ctor"] = "from_gradient"
            grad = g.R(0.05, 50) * scale_y / scale_x
            zc = g.R(-3, 3) * scale_y
            ymin = g.R(-2, 2) * scale_y
            ymax = ymin + g.R(0.05, 3) * scale_y
            spec.update(gradient=grad, zero_crossing=zc, y_min=ymin, y_max=ymax)
            xl, xr = (ymin - zc) / grad, (ymax - zc) / grad
            spec["x"], spec["y"] = [xl, xr], [ymin, ymax]
    else:
        if g.B(0.45):
            spec["kind"] = "Pchip"
            if g.B(0.3):
                spec["fill"] = "extrapolate_flag:" + str(g.B(0.5))
        else:
            ks = [k for k in KINDS if MIN_PTS.get(k, 2) <= n]
            spec["kind"] = g.C(ks)
            spec["explicit_kind"] = spec["kind"] != "quadratic" or g.B(0.3)
            if g.B(0.4):
                # "the behavior of Characteristic can be followed by providing a tuple for the fill value"
                yy = np.log10(spec["y"]) if log else np.array(spec["y"])
                spec["fill"] = [float(yy[0]), float(yy[-1])] if g.B(0.7) else [float(g.R(-1, 1)), float(g.R(-1, 1))]
    return spec


def build(net, spec, g):
    """create the object with the real classes; returns (obj, container kinds)"""
    x, kx = _container(g, spec["x"])
    y, ky = _container(g, spec["y"])
    if spec["cls"] == "LogSplineCharacteristic" and g.B(0.5):
        x, y, kx, ky = np.array(spec["x"]), np.array(spec["y"]), "array", "array"
    kw = {"table": spec["table"]}
    if spec["cls"] == "Characteristic":
        if spec["route_ctor"] == "from_points":
            return Characteristic.from_points(net, list(zip(spec["x"], spec["y"])), **kw), "points"
        if spec["route_ctor"] == "from_gradient":
            return Characteristic.from_gradient(net, spec["zero_crossing"], spec["gradient"], spec["y_min"], spec["y_max"], **kw), "grad"
        return Characteristic(net, x, y, **kw), kx + "/" + ky
    if spec["kind"] == "Pchip":
        kw["interpolator_kind"] = "Pchip"
        if spec["fill"]:
            kw["extrapolate"] = spec["fill"].endswith("True")
    else:
        if spec.get("explicit_kind"):
            kw["kind"] = spec["kind"]
        if spec["fill"] is not None:
            kw["fill_value"] = tuple(spec["fill"])
    c = SplineCharacteristic if spec["cls"] == "SplineCharacteristic" else LogSplineCharacteristic
    return c(net, x, y, **kw), kx + "/" + ky


def _lin(x, xs, ys):
    """own piecewise-linear interpolation, constant beyond the end points (class docstring of Characteristic)"""
    x = np.atleast_1d(np.asarray(x, dtype=float))
    out = np.empty(len(x))
    for k, v in enumerate(x):
        if v <= xs[0]:
            out[k] = ys[0]
        elif v >= xs[-1]:
            out[k] = ys[-1]
        else:
            i = int(np.searchsorted(xs, v, side="right")) - 1
            t = (v - xs[i]) / (xs[i + 1] - xs[i])
            out[k] = ys[i] + t * (ys[i + 1] - ys[i])
    return out


def reference(spec):
    """callable reference built from the documentation of the class"""
    xs, ys = np.array(spec["x"], dtype=float), np.array(spec["y"], dtype=float)
    if spec["cls"] == "Characteristic":
        return lambda x: _lin(x, xs, ys)
    log = spec["cls"] == "LogSplineCharacteristic"
    if log:
        xs, ys = np.log10(xs), np.log10(ys)
    if spec["kind"] == "Pchip":
        kw = {}
        if spec["fill"]:
            kw["extrapolate"] = spec["fill"].endswith("True")
        f = PchipInterpolator(xs, ys, **kw)
    else:
        fv = "extrapolate" if spec["fill"] is None else tuple(spec["fill"])
        f = interp1d(xs, ys, kind=spec["kind"], bounds_error=False, fill_value=fv)
    if log:
        return lambda x: np.power(10., f(np.log10(np.asarray(x, dtype=float))))
    return lambda x: f(np.asarray(x, dtype=float))


def grid(spec, g, n=120):
    xs = np.array(spec["x"])
    span = xs[-1] - xs[0]
    if spec["cls"] == "LogSplineCharacteristic":
        return np.geomspace(xs[0] * 0.7, xs[-1] * 1.4, n)
    gr = np.linspace(xs[0] - 0.25 * span, xs[-1] + 0.25 * span, n)
    return np.concatenate([gr, (xs[:-1] + xs[1:]) / 2.])


def _close(a, b, rtol, scale):
    a, b = np.asarray(a, dtype=float), np.asarray(b, dtype=float)
    if a.shape != b.shape:
        return False, np.inf
    both_nan = np.isnan(a) & np.isnan(b)
    same_inf = np.isinf(a) & np.isinf(b) & (np.sign(a) == np.sign(b))
    d = np.abs(a - b)
    d[both_nan | same_inf] = 0.
    ok = (d <= rtol * np.maximum(scale, np.maximum(np.abs(a), np.abs(b)))) | both_nan | same_inf
    return bool(np.all(ok)), (float(np.max(np.where(np.isnan(d), np.inf, d))) if d.size else 0.)


def check_object(obj, spec, gr, ex):
    """contract + reference checks of one live object; returns list of violations"""
    v = []
    xs, ys = np.array(spec["x"], dtype=float), np.array(spec["y"], dtype=float)
    scale = float(np.max(np.abs(ys))) or 1.
    ident = {"cls": spec["cls"], "kind": spec["kind"], "ctor": spec["route_ctor"], "x": spec["x"], "y": spec["y"], "fill": spec["fill"]}
    try:
        at_pts = np.asarray(obj(xs), dtype=float)
        single = np.array([float(obj(float(a))) for a in xs])
        on_grid = np.asarray(obj(gr), dtype=float)
    except Exception as e:  # noqa
        return [common.viol("calling the characteristic raised %s: %s" % (type(e).__name__, e), **ident)], None
    ex["support_points"] += len(xs)
    tol_pts = 1e-9 * (np.abs(ys) if spec["cls"] == "LogSplineCharacteristic" else scale)
    bad = np.abs(at_pts - ys) > tol_pts
    if at_pts.shape != ys.shape or bad.any() or not np.all(np.isfinite(at_pts)):
        i = int(np.flatnonzero(bad | ~np.isfinite(at_pts))[0]) if at_pts.shape == ys.shape else 0
        v.append(common.viol("support point missed: c(%r) = %r, given y = %r" % (xs[i], at_pts[i] if at_pts.shape == ys.shape else None, ys[i]), **ident))
    ok, d = _close(single, at_pts, 1e-12, scale)
    if not ok:
        v.append(common.viol("scalar and vector call disagree at the support points (max diff %.3e)" % d, **ident))
    ref = reference(spec)(gr)
    ex["reference_evals"] += len(gr)
    ok, d = _close(on_grid, ref, 1e-9, scale if spec["cls"] != "LogSplineCharacteristic" else 0.)
    if not ok:
        i = int(np.nanargmax(np.abs(on_grid - ref))) if np.isfinite(np.abs(on_grid - ref)).any() else 0
        v.append(common.viol("differs from the documented interpolator (%s/%s): c(%r) = %r, reference %r" % (
            spec["cls"], spec["kind"], gr[i], on_grid[i], ref[i]), **ident))
    dy = np.diff(ys)
    mono = bool(np.all(dy >= 0) or np.all(dy <= 0))
    if mono and spec["kind"] in SHAPE_KINDS:
        ex["shape_checked"] += 1
        inside = (gr >= xs[0]) & (gr <= xs[-1])
        gi, vi = gr[inside], on_grid[inside]
        idx = np.clip(np.searchsorted(xs, gi, side="right") - 1, 0, len(xs) - 2)
        lo, hi = np.minimum(ys[idx], ys[idx + 1]), np.maximum(ys[idx], ys[idx + 1])
        t = 1e-9 * (np.maximum(np.abs(lo), np.abs(hi)) if spec["cls"] == "LogSplineCharacteristic" else scale)
        out = (vi < lo - t) | (vi > hi + t) | ~np.isfinite(vi)
        if out.any():
            i = int(np.flatnonzero(out)[0])
            v.append(common.viol("shape-preserving kind %s leaves the range of its neighbours: c(%r) = %r not in [%r, %r]" % (
                spec["kind"], gi[i], vi[i], lo[i], hi[i]), **ident))
        o = np.argsort(gi, kind="stable")
        dv = np.diff(vi[o]) * (1. if np.all(dy >= 0) else -1.)
        tt = 1e-9 * (np.abs(vi[o][1:]) if spec["cls"] == "LogSplineCharacteristic" else scale)
        if np.any(dv < -tt):
            i = int(np.flatnonzero(dv < -tt)[0])
            v.append(common.viol("monotone data, shape-preserving kind %s, but the curve is not monotone near x = %r" % (
                spec["kind"], gi[o][i]), **ident))
    if spec["cls"] == "Characteristic":
        # diff / satisfies are defined through the curve
        xq = float(gr[len(gr) // 3])
        yq = float(reference(spec)(xq)[0])
        m = yq + 0.37 * scale
        eps = 0.5 * scale
        try:
            dd = float(obj.diff(xq, m))
            s1, s2 = obj.satisfies(xq, m, eps), obj.satisfies(xq, m, 0.2 * scale)
            if abs(dd - (m - yq)) > 1e-9 * scale or s1 is not True or s2 is not False:
                v.append(common.viol("diff/satisfies inconsistent with the curve: diff=%r expected %r, satisfies(eps=%r)=%r, "
                                     "satisfies(eps=%r)=%r" % (dd, m - yq, eps, s1, 0.2 * scale, s2), **ident))
        except Exception as e:  # noqa
            v.append(common.viol("diff/satisfies raised %s: %s" % (type(e).__name__, e), **ident))
    return v, on_grid


def roundtrip(net, route, g, tag):
    d = os.path.join(common.WORK, "c32")
    os.makedirs(d, exist_ok=True)
    if route == "json_string":
        return pp.from_json_string(pp.to_json(net))
    if route == "json_file":
        p = os.path.join(d, "n%d_%s.json" % (os.getpid(), tag))
        try:
            pp.to_json(net, p)
            return pp.from_json(p)
        finally:
            if os.path.exists(p):
                os.remove(p)
    if route == "json_encrypted":
        key = g.C(["k", "pässwörd 1", "x" * 40])
        return pp.from_json_string(pp.to_json(net, encryption_key=key), encryption_key=key)
    if route == "pickle":
        p = os.path.join(d, "n%d_%s.p" % (os.getpid(), tag))
        try:
            pp.to_pickle(net, p)
            return pp.from_pickle(p)
        finally:
            if os.path.exists(p):
                os.remove(p)
    return copy.deepcopy(net)


def _plain(v):
    if isinstance(v, np.ndarray):
        return [_plain(a) for a in v.tolist()]
    if isinstance(v, (list, tuple)):
        return [_plain(a) for a in v]
    if isinstance(v, dict):
        return {str(k): _plain(a) for k, a in v.items()}
    if isinstance(v, (np.floating, float)):
        return float(v)
    if isinstance(v, (np.integer, int)) and not isinstance(v, (bool, np.bool_)):
        return int(v)
    if isinstance(v, (bool, np.bool_)):
        return bool(v)
    return v


def state_of(obj):
    """the persistent attributes of a characteristic (the cached scipy object is documented as not stored)"""
    return {k: _plain(v) for k, v in obj.__dict__.items() if k != "_interpolator"}


def run_case(seed, tier, case_no):
    g = netgen.G(seed)
    net = pp.create_empty_network()
    if g.B(0.3):
        b = pp.create_bus(net, 20.)
        pp.create_ext_grid(net, b)
    routes = [g.C(ROUTES), g.C(["pickle", "deepcopy"])]
    call_before = g.B(0.6)
    specs = [gen_spec(g) for _ in range(g.I(3, 8))]
    tags = {"route:" + r for r in routes}
    if call_before:
        tags.add("called_before_save")
    ex = {"objects": 0, "support_points": 0, "shape_checked": 0, "reference_evals": 0, "roundtrip_objects": 0}
    viols, objs = [], []
    for sp in specs:
        try:
            obj, cont = build(net, sp, g)
        except Exception as e:  # noqa
            viols.append(common.viol("constructor raised %s: %s" % (type(e).__name__, e), spec=sp))
            objs.append(None)
            continue
        objs.append(obj)
        tags |= {"cls:" + sp["cls"], "kind:" + sp["kind"], "cont:" + cont, "table:" + sp["table"]}
        if sp["route_ctor"] != "init":
            tags.add(sp["route_ctor"])
        if isinstance(sp["fill"], list):
            tags.add("fill_tuple")
        if sp["kind"] == "Pchip" and sp["fill"]:
            tags.add("pchip_extrapolate_kw")
        dy = np.diff(sp["y"])
        tags.add("monotone" if (np.all(dy >= 0) or np.all(dy <= 0)) else "non_monotone")
    # index bookkeeping: every object sits in its table at obj.index
    for sp, obj in zip(specs, objs):
        if obj is not None and not (sp["table"] in net and obj.index in net[sp["table"]].index
                                    and net[sp["table"]].object.at[obj.index] is obj):
            viols.append(common.viol("object not registered at net.%s.object[%r]" % (sp["table"], obj.index), spec=sp))
    grids = [grid(sp, g) for sp in specs]
    before = [None] * len(specs)
    states = [state_of(o) if o is not None else None for o in objs]
    loaded = {}
    if not call_before:
        loaded = {r: _safe_roundtrip(net, r, g, "a", viols) for r in routes}
    for k, (sp, obj) in enumerate(zip(specs, objs)):
        if obj is None:
            continue
        ex["objects"] += 1
        vv, before[k] = check_object(obj, sp, grids[k], ex)
        viols += vv
    if call_before:
        loaded = {r: _safe_roundtrip(net, r, g, "b", viols) for r in routes}
    nontrivial = False
    for route, ld in loaded.items():
        if ld is None:
            continue
        for k, (sp, obj) in enumerate(zip(specs, objs)):
            if obj is None or before[k] is None:
                continue
            ident = {"cls": sp["cls"], "kind": sp["kind"], "x": sp["x"], "y": sp["y"], "fill": sp["fill"], "route": route}
            t = sp["table"]
            if t not in ld or not isinstance(ld[t], pd.DataFrame) or obj.index not in ld[t].index:
                viols.append(common.viol("after %s: net.%s has no row %r" % (route, t, obj.index), **ident))
                continue
            o2 = ld[t].object.at[obj.index]
            if type(o2) is not type(obj):
                viols.append(common.viol("after %s: object class %s became %s" % (route, type(obj).__name__, type(o2).__name__), **ident))
                continue
            if o2 is obj:
                viols.append(common.viol("after %s: the loaded net shares the object with the original" % route, **ident))
            try:
                out2 = np.asarray(o2(grids[k]), dtype=float)
            except Exception as e:  # noqa
                viols.append(common.viol("after %s: calling the loaded characteristic raised %s: %s" % (route, type(e).__name__, e), **ident))
                continue
            ex["roundtrip_objects"] += 1
            scale = float(np.max(np.abs(sp["y"]))) or 1.
            ok, d = _close(out2, before[k], 1e-12, 0. if sp["cls"] == "LogSplineCharacteristic" else scale)
            if not ok:
                viols.append(common.viol("after %s: outputs on the dense grid changed (max abs diff %.3e)" % (route, d), **ident))
            s2 = state_of(o2)
            if s2 != states[k] and not _state_close(s2, states[k]):
                keys = sorted(set(s2) ^ set(states[k])) or [kk for kk in s2 if s2[kk] != states[k].get(kk)]
                viols.append(common.viol("after %s: stored attributes changed: %s" % (route, keys), before=states[k], after=s2, **ident))
            if len(sp["x"]) >= 3:
                nontrivial = True
    digest = common.sha({"specs": specs, "route": routes, "cb": call_before})
    sample = {"routes": routes, "called_before_save": call_before,
              "objects": [{"cls": s["cls"], "kind": s["kind"], "ctor": s["route_ctor"], "n": len(s["x"]), "table": s["table"],
                           "fill": s["fill"]} for s in specs]}
    for v in viols:
        v["witness"]["seed"] = seed
    return common.case(digest, nontrivial=nontrivial, tags=tags, violations=viols[:6], sample=sample, evals=max(1, ex["objects"]), extra=ex)


def _state_close(a, b):
    """equal up to float representation (1e-14 relative) - JSON floats"""
    if isinstance(a, dict) and isinstance(b, dict):
        return set(a) == set(b) and all(_state_close(a[k], b[k]) for k in a)
    if isinstance(a, list) and isinstance(b, list):
        return len(a) == len(b) and all(_state_close(p, q) for p, q in zip(a, b))
    if isinstance(a, float) or isinstance(b, float):
        try:
            return bool(abs(a - b) <= 1e-14 * max(abs(a), abs(b))) or (a != a and b != b)
        except TypeError:
            return False
    return a == b


def _safe_roundtrip(net, route, g, tag, viols):
    try:
        return roundtrip(net, route, g, tag)
    except Exception as e:  # noqa
        viols.append(common.viol("serialisation route %s raised %s: %s" % (route, type(e).__name__, str(e)[:300]), route=route))
        return None
