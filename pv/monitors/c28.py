"""C28 - ward / xward / REI equivalents returned by get_equivalent reproduce the operating point of the retained (internal +
boundary) buses and leave the original network unchanged."""
import sys

import numpy as np
import pandapower as pp
import pandapower.networks as pn
import pandapower.topology as top
from pandapower.auxiliary import LoadflowNotConverged
from pandapower.grid_equivalents import get_equivalent

from .. import common
from ..gen import netgen
from ..probe import snapshot

PROPERTY = "C28"
READY = False
NOT_READY_REASON = "under construction"
LEVEL = "exploration"
TECHNIQUE = ("runtime monitoring: every equivalent returned by get_equivalent for a seeded random network split is re-solved with runpp "
             "and judged against the operating point of the original network; deep snapshot of the original before/after")
CASES = {"quick": 400, "thorough": 12000}
BUDGET = {"quick": 60, "thorough": 1500}
CASE_TIMEOUT = 180
FLOORS = {"quick": {"nontrivial": 150, "tags": {}, "extras": {}, "max_skip_frac": 0.3},
          "thorough": {"nontrivial": 5000, "max_skip_frac": 0.3}}
RULE = ("IEEE/MATPOWER cases bundled with pandapower (case9/14/30/ieee30/39/57) with seeded perturbations (load and generation scaling, "
        "line outages, added sgens / shunts / wards / xwards / motors / storages) x random connected internal sets grown from the slack "
        "bus (or a random bus) with boundary = their external neighbours x the three equivalent types with random method options; "
        "one case = one network split, 3 evaluations; non-trivial = at least one equivalent was returned and judged")
ASSUMPTIONS = ["original solved with runpp(calculate_voltage_angles=True, tolerance 1e-8 MVA); the equivalent is re-solved with the same call; "
               "bounds 1e-6 p.u. and 1e-4 deg (the documentation promises 1e-6 p.u./deg)",
               "REI is only judged on networks without phase shifting transformers (documented known problem)",
               "a None result (no external bus) and the documented ValueErrors are skips; every other exception is a violation"]

BASES = [("case9", pn.case9), ("case14", pn.case14), ("case30", pn.case30), ("case_ieee30", pn.case_ieee30), ("case39", pn.case39),
         ("case57", pn.case57)]
REFUSALS = ("unsupplied boundary", "No boundary buses", "no active slack", "if controllers are used")
V_TOL, A_TOL = 1e-6, 1e-4

# observation point: the xward parameters computed inside get_equivalent (read-only spy, used to name a known-finding signature)
SPY = {}
ge_mod = sys.modules["pandapower.grid_equivalents.get_equivalent"]   # the package attribute of that name is the function
_orig_xw = ge_mod._calculate_xward_and_impedance_parameters


def _spy_xw(*a, **k):
    r = _orig_xw(*a, **k)
    SPY["xward"] = r[0].copy()
    return r


ge_mod._calculate_xward_and_impedance_parameters = _spy_xw


def perturbed_net(g, name, factory):
    net = factory()
    R, B, I, C = g.R, g.B, g.I, g.C
    feats = set()
    net.load["p_mw"] *= g.rng.uniform(0.6, 1.15, len(net.load))
    net.load["q_mvar"] *= g.rng.uniform(0.6, 1.15, len(net.load))
    if len(net.gen):
        net.gen["p_mw"] *= g.rng.uniform(0.7, 1.1, len(net.gen))
    buses = list(net.bus.index)
    pv = set(net.gen.bus) | set(net.ext_grid.bus)
    s = float(net.load.p_mw.abs().mean()) if len(net.load) else 10.
    for _ in range(I(0, 3)):
        pp.create_sgen(net, C(buses), R(0, 0.6) * s, R(-0.2, 0.2) * s)
        feats.add("sgen")
    if B(0.3):
        pp.create_shunt(net, C(buses), q_mvar=R(-0.3, 0.3) * s, p_mw=R(0, 0.05) * s)
        feats.add("shunt")
    if B(0.25):
        pp.create_ward(net, C(buses), ps_mw=R(-0.3, 0.3) * s, qs_mvar=R(-0.1, 0.1) * s, pz_mw=R(0, 0.2) * s, qz_mvar=R(-0.2, 0.2) * s)
        feats.add("ward")
    if B(0.2):
        b = C([x for x in buses if x not in pv])
        zb = float(net.bus.vn_kv.at[b]) ** 2 / net.sn_mva
        pp.create_xward(net, b, ps_mw=R(-0.3, 0.3) * s, qs_mvar=R(-0.1, 0.1) * s, pz_mw=R(0, 0.2) * s, qz_mvar=R(-0.2, 0.2) * s,
                        r_ohm=R(0.005, 0.05) * zb, x_ohm=R(0.02, 0.2) * zb, vm_pu=R(0.98, 1.03))
        feats.add("xward")
    if B(0.15):
        pp.create_motor(net, C(buses), pn_mech_mw=R(0.05, 0.4) * s, cos_phi=R(0.75, 0.95), efficiency_percent=R(85, 98),
                        loading_percent=R(50, 100), scaling=1.)
        feats.add("motor")
    if B(0.15):
        pp.create_storage(net, C(buses), R(-0.3, 0.3) * s, max_e_mwh=10., q_mvar=R(-0.1, 0.1) * s)
        feats.add("storage")
    if B(0.3) and len(net.line) > 3:
        li = int(C(list(net.line.index)))
        net.line.at[li, "in_service"] = False
        if len(top.unsupplied_buses(net)):
            net.line.at[li, "in_service"] = True
        else:
            feats.add("line_oos")
    return net, feats


def split(g, net):
    """connected internal set grown from a start bus; boundary = external neighbours"""
    mg = top.create_nxgraph(net)
    slack = int(net.ext_grid.bus.iloc[0])
    start = slack if g.B(0.8) else int(g.C(list(net.bus.index)))
    n = len(net.bus)
    n_int = g.I(1, max(1, n - 4))
    internal = {start}
    while len(internal) < n_int:
        cand = sorted({v for u in internal for v in mg.neighbors(u) if v not in internal})
        if not cand:
            break
        internal.add(int(g.C(cand)))
    boundary = sorted({int(v) for u in internal for v in mg.neighbors(u) if v not in internal})
    external = sorted(set(int(b) for b in net.bus.index) - internal - set(boundary))
    return sorted(internal), boundary, external, start == slack


def rnd_eq_options(g, eq):
    o = {}
    if eq in ("ward", "xward") and g.B(0.3):
        o["ward_type"] = "ward_admittance"
    if eq == "rei":
        if g.B(0.3):
            o["load_separate"] = True
        if g.B(0.3):
            o["sgen_separate"] = False
        if g.B(0.3):
            o["gen_separate"] = False
    return o


def _res_snapshot(net):
    return {k: net[k].copy(deep=True) for k in ("res_bus", "res_line", "res_trafo", "res_gen", "res_ext_grid") if k in net}


def _res_diff(before, net):
    out = []
    for k, old in before.items():
        new = net[k]
        if old.shape != new.shape or not np.array_equal(old.index.values, new.index.values) or not np.array_equal(
                old.values.astype(float), new.values.astype(float), equal_nan=True):
            out.append("%s changed" % k)
    return out


def classify_exception(eq, e):
    """known-finding signature of an exception raised inside get_equivalent / by runpp on its result"""
    xw = SPY.get("xward")
    if eq == "xward" and isinstance(e, FloatingPointError) and xw is not None:
        x = np.abs(np.asarray(xw.x_ohm.values, dtype=float))
        b = np.abs(np.asarray(xw.shunt.values).imag)
        # a boundary bus whose reduced external admittance has (numerically) no susceptance gets x_ohm = -1/0 -> inf -> 1.8e308
        if ((~np.isfinite(x) | (x > 1e100)) & (b < 1e-9)).any():
            return "xward_zero_susceptance_inf_reactance"
    return None


def judge(net, res0, net_eq, keep):
    """violations of the equivalence for the retained buses keep; returns (violation text or None, stats)"""
    try:
        pp.runpp(net_eq, calculate_voltage_angles=True)
    except LoadflowNotConverged:
        return "runpp on the returned equivalent does not converge", None, {}
    missing = [b for b in keep if b not in net_eq.bus.index]
    if missing:
        return "retained buses %s are missing in the equivalent" % missing[:8], None, {}
    vm0, va0 = res0.vm_pu.loc[keep].values, res0.va_degree.loc[keep].values
    vm1, va1 = net_eq.res_bus.vm_pu.loc[keep].values, net_eq.res_bus.va_degree.loc[keep].values
    dv = np.abs(vm1 - vm0)
    da = np.abs((va1 - va0 + 180.) % 360. - 180.)
    dv = np.where(np.isnan(dv), np.inf, dv)
    da = np.where(np.isnan(da), np.inf, da)
    st = {"dv": float(dv.max()), "da": float(da.max())}
    if dv.max() > V_TOL or da.max() > A_TOL:
        i = int(np.argmax(np.maximum(dv / V_TOL, da / A_TOL)))
        return ("equivalent does not reproduce the operating point: bus %s vm %.8f (orig %.8f), va %.6f (orig %.6f); max |dvm| %.2e, "
                "max |dva| %.2e deg" % (keep[i], vm1[i], vm0[i], va1[i], va0[i], dv.max(), da.max())), None, st
    return None, None, st


def run_case(seed, tier, case_no):
    g = netgen.G(seed)
    name, factory = g.C(BASES)
    net, feats = perturbed_net(g, name, factory)
    tags = {"base:" + name}
    sample = {"base": name, "added": sorted(feats)}
    try:
        pp.runpp(net, calculate_voltage_angles=True)
    except LoadflowNotConverged:
        return common.case(common.net_digest(net), nontrivial=False, tags=tags, skipped="orig_notconv", sample=sample)
    internal, boundary, external, from_slack = split(g, net)
    sample.update(internal=internal, boundary=boundary, n_external=len(external))
    digest = common.net_digest(net, {"i": internal, "b": boundary})
    if not external or not boundary:
        return common.case(digest, nontrivial=False, tags=tags, skipped="no_external_bus", sample=sample)
    tags.add("start_at_slack" if from_slack else "start_random")
    ext = set(external)
    for el in ("gen", "sgen", "load", "shunt", "ward", "xward", "motor", "storage", "ext_grid"):
        if len(net[el]) and net[el].bus.isin(ext).any():
            tags.add("ext_" + el)
    has_shift = bool(len(net.trafo) and (net.trafo.shift_degree != 0).any())
    keep = internal + boundary
    res0 = net.res_bus.copy()
    snap, rsnap = snapshot.snapshot(net), _res_snapshot(net)
    viols = []
    extra = {"returned": 0, "judged_ok": 0, "raised": 0}
    evals = 0
    sample["options"] = {}
    for eq in ("ward", "xward", "rei"):
        o = rnd_eq_options(g, eq)
        sample["options"][eq] = o
        if eq == "rei" and has_shift:
            tags.add("rei_skipped_shift")
            continue
        SPY.clear()
        evals += 1
        err = net_eq = None
        try:
            net_eq = get_equivalent(net, eq, list(boundary), list(internal), calculate_voltage_angles=True, **o)
        except ValueError as e:
            if any(r in str(e) for r in REFUSALS):
                tags.add("refused:" + eq)
                continue
            err = e
        except Exception as e:  # noqa
            err = e
        d = snapshot.diff(snap, net) + _res_diff(rsnap, net)
        if d:
            viols.append(common.viol("get_equivalent(%s) changed the original network: %s" % (eq, "; ".join(d[:4])), eq_type=eq,
                                     options=o, seed=seed))
        if err is None and net_eq is None:
            tags.add("none_returned:" + eq)
            continue
        what = None
        if err is None:
            extra["returned"] += 1
            extra["returned_" + eq] = extra.get("returned_" + eq, 0) + 1
            tags.add("returned:" + eq)
            for k, v in o.items():
                tags.add("%s:%s=%s" % (eq, k, v))
            try:
                what, _, st = judge(net, res0, net_eq, keep)
                for k, v in st.items():
                    extra["stat_%s_%s" % (k, eq)] = v
            except Exception as e:  # noqa
                err = e
                what = "runpp on the returned %s equivalent raised %s: %s" % (eq, type(e).__name__, str(e)[:150])
            if what is None:
                extra["judged_ok"] += 1
        else:
            extra["raised"] += 1
            what = "equivalent_internal_error: get_equivalent(%s) raised %s: %s" % (eq, type(err).__name__, str(err)[:150])
        if what:
            mech = classify_exception(eq, err) if err is not None else None
            viols.append(common.viol(what, mechanism=mech, eq_type=eq, options=o, seed=seed, internal=internal, boundary=boundary))
    return common.case(digest, nontrivial=extra["returned"] > 0, tags=tags, violations=viols, sample=sample, evals=max(evals, 1),
                       extra=extra)
