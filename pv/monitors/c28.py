"""C28 - ward / xward / REI equivalents returned by get_equivalent reproduce the operating point of the retained (internal +
boundary) buses and leave the original network unchanged."""
import copy
import itertools
import sys

import numpy as np
import pandapower as pp
import pandapower.networks as pn
import pandapower.topology as top
from pandapower.auxiliary import LoadflowNotConverged
from pandapower.grid_equivalents import get_equivalent

from .. import common
from ..gen import netgen
from ..probe import snapshot

PROPERTY = "C28"
READY = True
LEVEL = "exploration"
TECHNIQUE = ("runtime monitoring: every equivalent returned by get_equivalent for a seeded random network split is re-solved with runpp "
             "and judged against the operating point of the original network; deep snapshot of the original before/after")
CASES = {"quick": 256, "thorough": 8000}
BUDGET = {"quick": 75, "thorough": 1500}
CASE_TIMEOUT = 180
FLOORS = {"quick": {"nontrivial": 130, "tags": {"returned:ward": 120, "returned:xward": 100, "returned:rei": 120, "ext_gen": 100,
                                                "ext_sgen": 35, "ext_shunt": 55, "start_random": 20, "ward:ward_type=ward_admittance": 30,
                                                "rei:load_separate=True": 30},
                    "extras": {"judged_ok": 300, "ok_ward": 100, "ok_xward": 85, "ok_rei": 100, "unchanged_checks": 400},
                    "max_skip_frac": 0.3},
          "thorough": {"nontrivial": 3500, "tags": {"returned:ward": 3400, "returned:xward": 2800, "returned:rei": 3400},
                       "extras": {"judged_ok": 8000, "ok_ward": 2800, "ok_xward": 2400, "ok_rei": 2800}, "max_skip_frac": 0.3}}
RULE = ("IEEE/MATPOWER cases bundled with pandapower (case9/14/30/ieee30/39/57) with seeded perturbations (load and generation scaling, "
        "one line outage, added sgens / shunt / ward / xward / motor / storage at random buses) x random connected internal sets grown "
        "from the slack bus (80 %) or a random bus, boundary = their external neighbours x the three equivalent types with random "
        "method options (ward_admittance, REI load_separate / sgen_separate); one case = one network split, up to 3 evaluations; "
        "non-trivial = at least one equivalent was returned and judged; distinct = digest of input tables + split")
ASSUMPTIONS = ["original solved with runpp(calculate_voltage_angles=True, tolerance 1e-8 MVA); the equivalent is re-solved with the same call "
               "(DC start, then flat start); bounds 1e-6 p.u. and 1e-4 deg (documentation: 1e-6 p.u./deg; measured <= 4.2e-8 / 1.5e-6)",
               "an equivalent whose power flow only reaches a low-voltage root or diverges from one start but reproduces the point from "
               "the other start is accepted (alternate roots are no violations)",
               "REI is only judged on networks without phase shifting transformers (documented known problem); gen_separate=False, "
               "return_internal=False and adapt_va_degree are not exercised",
               "a None result (no external bus) and the documented ValueErrors are skips; every other exception is a violation",
               "known-finding mechanisms are assigned only by observation of the defective branch (spy on the xward parameters, eq_switch in "
               "the result) or when a physically identical counterfactual input (same operating point to 1e-8) is judged ok"]

BASES = [("case9", pn.case9), ("case14", pn.case14), ("case14", pn.case14), ("case30", pn.case30), ("case_ieee30", pn.case_ieee30),
         ("case39", pn.case39), ("case57", pn.case57)]
_CACHE = {}
REFUSALS = ("unsupplied boundary", "No boundary buses", "no active slack", "if controllers are used")
V_TOL, A_TOL = 1e-6, 1e-4

# observation point: the xward parameters computed inside get_equivalent (read-only spy, used to name a known-finding signature)
SPY = {}
ge_mod = sys.modules["pandapower.grid_equivalents.get_equivalent"]   # the package attribute of that name is the function
_orig_xw = ge_mod._calculate_xward_and_impedance_parameters


def _spy_xw(*a, **k):
    r = _orig_xw(*a, **k)
    SPY["xward"] = r[0].copy()
    return r


ge_mod._calculate_xward_and_impedance_parameters = _spy_xw


def split(g, net):
    """connected internal set grown from the slack bus (or a random bus); boundary = its external neighbours"""
    mg = top.create_nxgraph(net)
    slack = int(net.ext_grid.bus.iloc[0])
    start = slack if g.B(0.8) else int(g.C(list(net.bus.index)))
    internal = {start}
    n_int = g.I(1, max(1, len(net.bus) - 4))
    while len(internal) < n_int:
        cand = sorted({v for u in internal for v in mg.neighbors(u) if v not in internal})
        if not cand:
            break
        internal.add(int(g.C(cand)))
    boundary = sorted({int(v) for u in internal for v in mg.neighbors(u) if v not in internal})
    external = sorted(set(int(b) for b in net.bus.index) - internal - set(boundary))
    return sorted(internal), boundary, external, start == slack


def build(g):
    """perturbed base case + split; returns net, name, (internal, boundary, external, from_slack)"""
    R, B, I, C = g.R, g.B, g.I, g.C
    name, factory = C(BASES)
    if name not in _CACHE:
        _CACHE[name] = factory()          # parsing the bundled JSON costs ~1 s, a deep copy 20 ms
    net = copy.deepcopy(_CACHE[name])
    net.load["p_mw"] *= g.rng.uniform(0.6, 1.15, len(net.load))
    net.load["q_mvar"] *= g.rng.uniform(0.6, 1.15, len(net.load))
    if len(net.gen):
        net.gen["p_mw"] *= g.rng.uniform(0.7, 1.1, len(net.gen))
    if B(0.3) and len(net.line) > 3:
        li = int(C(list(net.line.index)))
        net.line.at[li, "in_service"] = False
        if len(top.unsupplied_buses(net)):
            net.line.at[li, "in_service"] = True
    buses = [int(b) for b in net.bus.index]
    pv = set(net.gen.bus) | set(net.ext_grid.bus)
    s = float(net.load.p_mw.abs().mean()) if len(net.load) else 10.
    for _ in range(I(0, 3) if B(0.6) else 0):
        pp.create_sgen(net, C(buses), R(0, 0.6) * s, R(-0.2, 0.2) * s, name="sg")
    if B(0.3):
        pp.create_shunt(net, C(buses), q_mvar=R(-0.3, 0.3) * s, p_mw=R(0, 0.05) * s, name="sh")
    if B(0.2):
        pp.create_ward(net, C(buses), ps_mw=R(-0.3, 0.3) * s, qs_mvar=R(-0.1, 0.1) * s, pz_mw=R(0, 0.2) * s, qz_mvar=R(-0.2, 0.2) * s,
                       name="wd")
    if B(0.1):
        b = C([x for x in buses if x not in pv])
        zb = float(net.bus.vn_kv.at[b]) ** 2 / net.sn_mva
        pp.create_xward(net, b, ps_mw=R(-0.3, 0.3) * s, qs_mvar=R(-0.1, 0.1) * s, pz_mw=R(0, 0.2) * s, qz_mvar=R(-0.2, 0.2) * s,
                        r_ohm=R(0.005, 0.05) * zb, x_ohm=R(0.02, 0.2) * zb, vm_pu=R(0.98, 1.03), name="xw")
    if B(0.12):
        pp.create_motor(net, C(buses), pn_mech_mw=R(0.05, 0.4) * s, cos_phi=R(0.75, 0.95), efficiency_percent=R(85, 98),
                        loading_percent=R(50, 100), scaling=1., name="mo")
    if B(0.1):
        pp.create_storage(net, C(buses), R(-0.3, 0.3) * s, max_e_mwh=10., q_mvar=R(-0.1, 0.1) * s, name="st")
    return net, name, split(g, net)


def rnd_eq_options(g, eq):
    o = {}
    if eq in ("ward", "xward") and g.B(0.25):
        o["ward_type"] = "ward_admittance"
    if eq == "rei":
        if g.B(0.25):
            o["load_separate"] = True
        if g.B(0.25):
            o["sgen_separate"] = False
    return o


def _res_snapshot(net):
    return {k: net[k].copy(deep=True) for k in ("res_bus", "res_line", "res_trafo", "res_gen", "res_ext_grid") if k in net}


def _res_diff(before, net):
    out = []
    for k, old in before.items():
        new = net[k]
        if old.shape != new.shape or not np.array_equal(old.index.values, new.index.values) or not np.array_equal(
                old.values.astype(float), new.values.astype(float), equal_nan=True):
            out.append("%s changed" % k)
    return out


# ------------------------------------------------------------------------------------------------ the oracle
def judge(res0, net_eq, keep):
    """(None, stats) if a power flow on the equivalent reproduces vm/va of the retained buses, else (description, stats).
    The power flow is started from the default (DC) and from the flat start: the equivalents contain negative impedances for which
    the DC start may diverge or end in a low-voltage root - alternate roots are no property violations (DESIGN section 5)."""
    missing = [b for b in keep if b not in net_eq.bus.index]
    if missing:
        return "retained buses %s are missing in the equivalent" % missing[:8], {}
    vm0, va0 = res0.vm_pu.loc[keep].values, res0.va_degree.loc[keep].values
    worst = None
    for init in ("auto", "flat"):
        try:
            pp.runpp(net_eq, calculate_voltage_angles=True, init=init, max_iteration=10 if init == "auto" else 30)
        except LoadflowNotConverged:
            continue
        vm1, va1 = net_eq.res_bus.vm_pu.loc[keep].values, net_eq.res_bus.va_degree.loc[keep].values
        dv = np.abs(vm1 - vm0)
        da = np.abs((va1 - va0 + 180.) % 360. - 180.)
        dv, da = np.where(np.isnan(dv), np.inf, dv), np.where(np.isnan(da), np.inf, da)
        st = {"dv": float(dv.max()), "da": float(da.max())}
        if dv.max() <= V_TOL and da.max() <= A_TOL:
            return None, st
        if np.nanmin(net_eq.res_bus.vm_pu.values) < 0.5 and np.nanmin(res0.vm_pu.values) > 0.5:
            continue                                                            # low-voltage root
        i = int(np.argmax(np.maximum(dv / V_TOL, da / A_TOL)))
        worst = ("equivalent does not reproduce the operating point: bus %s vm %.8f (orig %.8f), va %.6f (orig %.6f); max |dvm| %.2e, "
                 "max |dva| %.2e deg (init=%s)" % (keep[i], vm1[i], vm0[i], va1[i], va0[i], dv.max(), da.max(), init)), st
    return worst if worst else ("runpp on the returned equivalent does not converge to a normal solution (DC and flat start)", {})


def evaluate(net, eq, o, internal, boundary, res0, more_internal=()):
    """one get_equivalent call + judgement -> dict(kind = ok / diff / raise / none / refused, what, exc, eq_switch, stats)"""
    SPY.clear()
    try:
        net_eq = get_equivalent(net, eq, list(boundary), list(internal) + list(more_internal), calculate_voltage_angles=True, **o)
    except Exception as e:  # noqa
        if isinstance(e, ValueError) and any(r in str(e) for r in REFUSALS):
            return {"kind": "refused"}
        return {"kind": "raise", "exc": e, "what": "equivalent_internal_error: get_equivalent(%s) raised %s: %s" % (
            eq, type(e).__name__, str(e)[:150])}
    if net_eq is None:
        return {"kind": "none"}
    sw = bool(len(net_eq.switch) and (net_eq.switch.name.astype(str) == "eq_switch").any())
    try:
        what, st = judge(res0, net_eq, internal + boundary)
    except Exception as e:  # noqa
        return {"kind": "raise", "exc": e, "eq_switch": sw, "returned": True,
                "what": "runpp on the returned %s equivalent raised %s: %s" % (eq, type(e).__name__, str(e)[:150])}
    return {"kind": "ok" if what is None else "diff", "what": what, "stats": st, "eq_switch": sw, "returned": True}


# ------------------------------------------------------------------------------------------------ known-finding signatures
def _ward_as_load_shunt(net, idx):
    for i in idx:
        w = net.ward.loc[i]
        pp.create_load(net, w.bus, w.ps_mw, w.qs_mvar, in_service=bool(w.in_service), name="cf")
        pp.create_shunt(net, w.bus, q_mvar=w.qz_mvar, p_mw=w.pz_mw, in_service=bool(w.in_service), name="cf")
    net.ward.drop(idx, inplace=True)


def _xward_as_elements(net, idx):
    """physically identical replacement of xwards: load + shunt + PV bus behind r+jx (per unit on net.sn_mva); returns the new buses"""
    new = []
    for i in idx:
        w = net.xward.loc[i]
        vn = float(net.bus.vn_kv.at[w.bus])
        nb = pp.create_bus(net, vn, name="cf_xward_bus")
        pp.create_load(net, w.bus, w.ps_mw, w.qs_mvar, in_service=bool(w.in_service), name="cf")
        pp.create_shunt(net, w.bus, q_mvar=w.qz_mvar, p_mw=w.pz_mw, in_service=bool(w.in_service), name="cf")
        pp.create_gen(net, nb, 0., vm_pu=w.vm_pu, in_service=bool(w.in_service), name="cf_%d" % nb)
        pp.create_impedance(net, w.bus, nb, w.r_ohm * net.sn_mva / vn ** 2, w.x_ohm * net.sn_mva / vn ** 2, net.sn_mva,
                            in_service=bool(w.in_service), name="cf")
        new.append(int(nb))
    net.xward.drop(idx, inplace=True)
    return new


def _at(net, el, buses):
    t = net[el]
    return list(t.index[t.bus.isin(buses) & t.in_service]) if len(t) else []


def mechanisms(net, eq, o, internal, boundary):
    """[(name, transform)] of the known defects whose triggering condition holds for this evaluation; transform(n) removes the
    trigger from the solved copy n without changing the physics (counterfactual input)"""
    keep = set(internal) | set(boundary)
    slack = set(net.ext_grid.bus[net.ext_grid.in_service]) | set(net.gen.bus[net.gen.in_service & net.gen.slack])
    slack_moved = not slack & keep
    if slack_moved:
        boundary = list(boundary) + sorted(int(b) for b in slack)     # get_equivalent moves external slack buses to the boundary
        keep |= slack

    def ext(n):
        return [int(b) for b in n.bus.index if int(b) not in keep and n.bus.name.at[b] != "cf_xward_bus"]
    out = []
    wb, xb = _at(net, "ward", boundary), _at(net, "xward", boundary)
    if (eq in ("ward", "rei") and wb) or (eq in ("xward", "rei") and xb):
        def t_boundary(n):
            if eq in ("ward", "rei"):
                _ward_as_load_shunt(n, _at(n, "ward", boundary))
            # the PV buses of expanded boundary xwards are retained (passed as internal buses)
            return _xward_as_elements(n, _at(n, "xward", boundary)) if eq in ("xward", "rei") else None
        out.append(("ward_element_on_boundary_bus", t_boundary))
    if _at(net, "xward", ext(net)):
        out.append(("external_xward_replaced_with_wrong_impedance", lambda n: _xward_as_elements(n, _at(n, "xward", ext(n))) and None))

    if eq == "xward" and slack_moved and _at(net, "gen", ext(net)):
        # the xward reduction grounds every external PV bus (diagonal 1e8): a slack bus that was moved to the boundary and reaches the
        # retained part only through such buses is cut off, all angles shift. Counterfactual: external gens as sgens with their result
        def t_gens(n):
            for i in _at(n, "gen", ext(n)):
                pp.create_sgen(n, n.gen.bus.at[i], float(n.res_gen.p_mw.at[i]), float(n.res_gen.q_mvar.at[i]), name="cf")
                n.gen.drop(i, inplace=True)
        out.append(("xward_grounded_pv_bus_cuts_off_moved_slack", t_gens))

    def t_as_load(n, kinds):
        for el in kinds:
            idx = _at(n, el, ext(n))
            for i in idx:
                pp.create_load(n, n[el].bus.at[i], float(n["res_" + el].p_mw.at[i]), float(n["res_" + el].q_mvar.at[i]), name="cf")
            n[el].drop(idx, inplace=True)
    if eq == "rei" and _at(net, "storage", ext(net)):
        out.append(("rei_ignores_external_storage", lambda n: t_as_load(n, ["storage"])))
    if eq == "rei" and _at(net, "motor", ext(net)):
        # external motors become loads that do not exist in the original load table: the column matching of the REI loads fails
        out.append(("rei_load_column_lookup_fails_for_external_motor", lambda n: t_as_load(n, ["motor"])))
    if eq in ("ward", "xward") and o.get("ward_type") == "ward_admittance" and any(
            _at(net, el, ext(net)) for el in ("shunt", "ward", "xward", "motor")):
        # res_bus.p_mw/q_mvar of the external buses are turned into shunts, but only load/sgen/gen/storage are removed afterwards
        out.append(("ward_admittance_double_counts_external_elements", lambda n: t_as_load(n, ["shunt", "ward", "motor"])))
    return out


def explain(net, eq, o, internal, boundary, external, res0, out):
    """names of the known-finding mechanisms that explain the failed evaluation out (empty list = unexplained)"""
    exc = out.get("exc")
    xw = SPY.get("xward")
    if eq == "xward" and isinstance(exc, FloatingPointError) and xw is not None:
        x = np.abs(np.asarray(xw.x_ohm.values, dtype=float))
        b = np.abs(np.asarray(xw.shunt.values).imag)
        # a boundary bus whose reduced external admittance has (numerically) no susceptance gets x_ohm = -1/0 -> inf -> 1.8e308
        if ((~np.isfinite(x) | (x > 1e100)) & (b < 1e-9)).any():
            return ["xward_zero_susceptance_inf_reactance"]
    cand = mechanisms(net, eq, o, internal, boundary)
    trials = [list(t) for k in range(1, len(cand) + 1) for t in itertools.combinations(cand, k)]   # small subsets first, order kept
    last = out
    for trial in trials:
        n2, more = copy.deepcopy(net), []
        try:
            for _, tf in trial:          # the order of mechanisms() matters: xwards are expanded before shunts become loads
                more += tf(n2) or []
                pp.runpp(n2, calculate_voltage_angles=True)
        except Exception:  # noqa
            continue
        if np.nanmax(np.abs(n2.res_bus.vm_pu.loc[res0.index].values - res0.vm_pu.values)) > 1e-8:
            continue                                  # the counterfactual input is not the same operating point
        last = evaluate(n2, eq, o, internal, boundary, res0, more)
        if last["kind"] == "ok":
            return [name for name, _ in trial]
    # REI replaced a (numerically) zero impedance between two REI buses by a bus-bus switch and dropped their shunts
    if eq == "rei" and last.get("eq_switch"):
        return ["rei_zero_impedance_eq_switch_drops_shunts"]
    return []


def run_case(seed, tier, case_no):
    g = netgen.G(seed)
    net, name, (internal, boundary, external, from_slack) = build(g)
    tags = {"base:" + name}
    sample = {"base": name, "added": {el: int(len(net[el])) for el in ("sgen", "ward", "xward", "motor", "storage") if len(net[el])},
              "internal": internal, "boundary": boundary, "n_external": len(external)}
    digest = common.net_digest(net, {"i": internal, "b": boundary})
    try:
        pp.runpp(net, calculate_voltage_angles=True)
    except LoadflowNotConverged:
        return common.case(digest, nontrivial=False, tags=tags, skipped="orig_notconv", sample=sample)
    if not external or not boundary:
        return common.case(digest, nontrivial=False, tags=tags, skipped="no_external_bus", sample=sample)
    tags.add("start_at_slack" if from_slack else "start_random")
    for area, buses in (("ext", external), ("bnd", boundary)):
        for el in ("gen", "sgen", "load", "shunt", "ward", "xward", "motor", "storage", "ext_grid"):
            if len(net[el]) and net[el].bus.isin(buses).any():
                tags.add("%s_%s" % (area, el))
    has_shift = bool(len(net.trafo) and (net.trafo.shift_degree != 0).any())
    res0 = net.res_bus.copy()
    if float(np.nanmin(res0.vm_pu.values)) < 0.9:
        # heavily stressed operating point (close to the voltage stability limit): neighbouring solutions exist and the PV internal
        # buses of an xward equivalent may settle on another one (seen once in 768 thorough cases: case57 variant at 0.826 p.u.,
        # equivalent 3.6e-3 p.u. away) - such operating points are counted, not judged
        return common.case(digest, nontrivial=False, tags=tags | {"stressed_operating_point"}, skipped="stressed_operating_point", sample=sample)
    snap, rsnap = snapshot.snapshot(net), _res_snapshot(net)
    viols = []
    extra = {"returned": 0, "judged_ok": 0, "raised": 0, "unchanged_checks": 0}
    evals = 0
    sample["options"] = {}
    for eq in ("ward", "xward", "rei"):
        o = rnd_eq_options(g, eq)
        sample["options"][eq] = o
        if eq == "rei" and has_shift:
            tags.add("rei_skipped_shift")
            continue
        evals += 1
        out = evaluate(net, eq, o, internal, boundary, res0)
        extra["unchanged_checks"] += 1
        d = snapshot.diff(snap, net) + _res_diff(rsnap, net)
        if d:
            viols.append(common.viol("get_equivalent(%s) changed the original network: %s" % (eq, "; ".join(d[:4])), eq_type=eq,
                                     options=o, seed=seed))
        if out["kind"] in ("refused", "none"):
            tags.add("%s:%s" % (out["kind"], eq))
            continue
        for k, v in o.items():
            tags.add("%s:%s=%s" % (eq, k, v))
        if out.get("returned"):
            extra["returned"] += 1
            tags.add("returned:" + eq)
        if out["kind"] == "ok":
            extra["judged_ok"] += 1
            extra["ok_" + eq] = extra.get("ok_" + eq, 0) + 1
            continue
        extra["raised"] += out["kind"] == "raise"
        mechs = explain(net, eq, o, internal, boundary, external, res0, out) or [None]
        for m in mechs:
            viols.append(common.viol(out["what"], mechanism=m, eq_type=eq, options=o, seed=seed, internal=internal, boundary=boundary,
                                     explained_by=mechs))
    return common.case(digest, nontrivial=extra["returned"] > 0, tags=tags, violations=viols, sample=sample, evals=max(evals, 1),
                       extra=extra)
