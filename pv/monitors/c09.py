"""C09 - calculation results do not depend on the history of the network object (history + re-execution model)."""
import copy

import numpy as np
import pandas as pd
import pandapower as pp
import pandapower.shortcircuit as sc

from .. import common, pf
from ..gen import netgen
from .c05 import scrub

PROPERTY = "C09"
READY = True
LEVEL = "exploration"
TECHNIQUE = "runtime monitoring: random histories of edits and calculations on one network object; every calculation is re-executed on a scrubbed deep copy of the current tables and the two outcomes are compared"
CASES = {"quick": 220, "thorough": 9000}
BUDGET = {"quick": 60, "thorough": 1200}
FLOORS = {"quick": {"nontrivial": 80, "extras": {"compared_calcs": 900, "init_results_runs": 120, "init_results_after_nan": 25, "dc_runs": 60,
                                                 "sc_runs": 40, "edits": 1500, "switch_edits": 150, "failed_calcs_in_history": 20}, "max_skip_frac": 0.3},
          "thorough": {"nontrivial": 3500, "extras": {"compared_calcs": 40000, "init_results_after_nan": 1000}, "max_skip_frac": 0.3}}
RULE = ("seeded random networks; history of 12-30 steps mixing edits (p/q/scaling, tap_pos, vm_pu, line length, switching, in_service, "
        "element creation/removal) with calculations (runpp with algorithm / init / numba / trafo_model / angle variants incl. "
        "init='results', rundcpp, calc_sc); every calculation is also run on a scrubbed copy (no _ppc, lookups or res tables); "
        "non-trivial = >= 4 calculations compared in the history; distinct = digest of the start net + history")
ASSUMPTIONS = ["same outcome class required (ok / not converged / exception type); results within 1e-6 p.u., 1e-5 deg, 1e-5*(1+|S|)",
               "init='results' runs are compared with a fresh default-init run: when the fresh run converges the history run must converge to "
               "the same solution (alternate roots - another voltage profile that satisfies Kirchhoff's balance of the same tables, reached directly "
               "or, after a non-convergence within the iteration limit, with max_iteration=60 - are counted, not judged)",
               "init='results' re-runs the previous runpp with identical options (only tables were edited in between)",
               "init='results' is only issued when the previous calculation on the object was a converged AC power flow at most two "
               "switching / in_service edits ago (the property's 'nearby switching state')"]


def _edit(net, g, cnt):
    kind = g.C(["pq", "pq", "scaling", "tap", "vm", "length", "switch", "switch", "in_service", "in_service", "create", "remove", "swap"])
    cnt["edits"] += 1
    if kind == "pq":
        el = g.C(["load", "sgen"])
        if len(net[el]):
            i = g.C(list(net[el].index))
            net[el].at[i, "p_mw"] = net[el].p_mw.at[i] * g.R(0.3, 1.6)
            net[el].at[i, "q_mvar"] = net[el].q_mvar.at[i] * g.R(0.3, 1.6)
    elif kind == "scaling" and len(net.load):
        net.load.at[g.C(list(net.load.index)), "scaling"] = g.R(0.2, 1.5)
    elif kind == "tap" and len(net.trafo):
        i = g.C(list(net.trafo.index))
        if not pd.isna(net.trafo.tap_pos.at[i]):
            net.trafo.at[i, "tap_pos"] = float(g.I(int(net.trafo.tap_min.at[i]), int(net.trafo.tap_max.at[i])))
    elif kind == "vm" and len(net.gen):
        b = net.gen.bus.at[g.C(list(net.gen.index))]
        if b not in set(net.ext_grid.bus):
            net.gen.loc[net.gen.bus == b, "vm_pu"] = g.R(0.99, 1.04)
    elif kind == "length" and len(net.line):
        i = g.C(list(net.line.index))
        net.line.at[i, "length_km"] = net.line.length_km.at[i] * g.R(0.5, 1.5)
    elif kind == "switch" and len(net.switch):
        i = g.C(list(net.switch.index))
        net.switch.at[i, "closed"] = not bool(net.switch.closed.at[i])
        cnt["switch_edits"] += 1
        return "topo"
    elif kind == "in_service":
        el = g.C(["line", "trafo", "load", "sgen", "gen", "bus", "trafo3w", "shunt"])
        if len(net[el]):
            i = g.C(list(net[el].index))
            if el == "bus" and i in set(net.ext_grid.bus):
                return None
            net[el].at[i, "in_service"] = not bool(net[el].in_service.at[i])
            cnt["switch_edits"] += 1
            return "topo"
    elif kind == "create":
        b = int(g.C(list(net.bus.index)))
        if g.B(0.5):
            pp.create_load(net, b, g.R(0, 0.5), g.R(-0.1, 0.2), const_z_p_percent=g.R(0, 50) if g.B(0.3) else 0.)
        else:
            pp.create_sgen(net, b, g.R(0, 0.5), g.R(-0.1, 0.1))
    elif kind == "swap":
        # same number of rows, other index: one element removed and another one created
        el = g.C(["load", "sgen"])
        if len(net[el]) > 1:
            net[el].drop(g.C(list(net[el].index)), inplace=True)
            b = int(g.C(list(net.bus.index)))
            (pp.create_load if el == "load" else pp.create_sgen)(net, b, g.R(0, 0.5), g.R(-0.1, 0.1))
            cnt["swap_edits"] += 1
    elif kind == "remove":
        el = g.C(["load", "sgen"])
        if len(net[el]) > 1:
            net[el].drop(g.C(list(net[el].index)), inplace=True)
    return None


def _calc(g, last_ok_ac, topo_since, last_kw=None):
    """returns (name, fn, kwargs, kwargs for the fresh reference)"""
    r = g.rng.random()
    if last_ok_ac and last_kw is not None and topo_since <= 2 and r < 0.3:
        # same calculation as before, started from the previous results (only the tables changed in between)
        ref = {k: v for k, v in last_kw.items() if k != "init"}
        return "runpp", pp.runpp, dict(ref, init="results"), ref
    if r < 0.12:
        kw = {}
        if g.B(0.5):
            kw["calculate_voltage_angles"] = g.B(0.5)
        return "rundcpp", pp.rundcpp, kw, kw
    if r < 0.22:
        kw = {"case": g.C(["max", "min"]), "fault": g.C(["3ph", "2ph"])}
        if g.B(0.5):
            kw["branch_results"] = True
        return "calc_sc", sc.calc_sc, kw, kw
    kw = {"tolerance_mva": 1e-10}
    if g.B(0.4):
        kw["trafo_model"] = g.C(["t", "pi"])
    if g.B(0.4):
        kw["calculate_voltage_angles"] = g.B(0.6)
    if g.B(0.2):
        kw["numba"] = False
    if g.B(0.15):
        kw["algorithm"] = "iwamoto_nr"
    if g.B(0.15):
        kw["enforce_q_lims"] = True
    if g.B(0.15):
        kw["voltage_depend_loads"] = False
    ref = dict(kw)
    if g.B(0.3):
        kw["init"] = ref["init"] = g.C(["flat", "dc"])
    return "runpp", pp.runpp, kw, ref


def _outcome(fn, net, kw):
    try:
        fn(net, **kw)
    except pp.LoadflowNotConverged:
        return "notconv"
    except Exception as e:  # noqa
        return "exc:" + type(e).__name__
    return "ok"


def _compare(name, h, s, kw):
    if name == "calc_sc":
        a, b = h.res_bus_sc, s.res_bus_sc
        cols = [c for c in a.columns if c in b.columns]
        x, y = a[cols].values.astype(float), b[cols].values.astype(float)
        bad = ~((np.abs(x - y) <= 1e-9 + 1e-7 * np.abs(x)) | (np.isnan(x) & np.isnan(y)))
        if x.shape != y.shape or bad.any():
            return "res_bus_sc differs from the fresh copy (max diff %.3e)" % (np.nanmax(np.abs(x - y)) if x.shape == y.shape else -1)
        return None
    a, b = h.res_bus, s.res_bus
    va_only = name == "rundcpp"
    if not va_only:
        if (np.isnan(a.vm_pu.values) != np.isnan(b.vm_pu.values)).any():
            return "NaN pattern of res_bus differs from the fresh copy"
        d = np.nanmax(np.abs(a.vm_pu.values - b.vm_pu.values)) if a.vm_pu.notna().any() else 0.
        if d > 1e-6:
            if min(np.nanmin(a.vm_pu.values), np.nanmin(b.vm_pu.values)) < 0.5:
                return "ALT"
            return "res_bus.vm_pu differs from the fresh copy by %.3e p.u." % d
    if a.va_degree.notna().any():
        dva = np.nanmax(np.abs((a.va_degree.values - b.va_degree.values + 180) % 360 - 180))
        if dva > 1e-5:
            return "res_bus.va_degree differs from the fresh copy by %.3e deg" % dva
    for key in sorted(k for k in h.keys() if isinstance(k, str) and k.startswith("res_") and not k.endswith("_sc") and k != "res_bus"):
        ta, tb = h[key], s.get(key)
        if not isinstance(ta, pd.DataFrame) or not len(ta) or key[4:] not in h or not len(h[key[4:]]):
            continue
        if not isinstance(tb, pd.DataFrame) or ta.shape != tb.shape or list(ta.columns) != list(tb.columns):
            return "%s has another shape than on the fresh copy" % key
        if not ta.index.equals(tb.index):
            return "%s has the row labels %s, on the fresh copy %s" % (key, list(ta.index)[:12], list(tb.index)[:12])
        for c in ta.columns:
            if not pd.api.types.is_numeric_dtype(ta[c]) or not pd.api.types.is_numeric_dtype(tb[c]):
                continue
            x, y = ta[c].values.astype(float), tb[c].values.astype(float)
            d = np.abs(x - y)
            if "degree" in c:
                d = np.abs((x - y + 180) % 360 - 180)
            bad = ~((d <= 1e-5 * (1 + np.abs(x))) | (np.isnan(x) & np.isnan(y)) | (np.isinf(x) & (x == y)))
            if bad.any():
                r = int(np.argmax(bad))
                return "%s.%s[%s] = %.9g, fresh copy %.9g" % (key, c, ta.index[r], x[r], y[r])
    return None


def _find_cut(net, g):
    """an edit (table, index, column, has_internal, n_lost) that de-energizes part of the supplied network; cuts that black out an
    in-service trafo3w / xward (elements with an internal bus) are preferred"""
    from ..oracles import graph
    try:
        before, _ = graph.supplied_buses(net)
    except Exception:  # noqa
        return None
    cands = [("line", i) for i in net.line.index[net.line.in_service.values]] + \
            [("trafo", i) for i in net.trafo.index[net.trafo.in_service.values]] + \
            [("switch", i) for i in net.switch.index[net.switch.closed.values]]
    g.rng.shuffle(cands)
    best = None
    for el, i in cands[:25]:
        col = "closed" if el == "switch" else "in_service"
        net[el].at[i, col] = False
        try:
            after, _ = graph.supplied_buses(net)
        except Exception:  # noqa
            after = before
        net[el].at[i, col] = True
        lost = before - after
        if not lost:
            continue
        internal = False
        for t, cols in (("trafo3w", ("hv_bus", "mv_bus", "lv_bus")), ("xward", ("bus",))):
            tab = net[t][net[t].in_service.values] if len(net[t]) else net[t]
            for c in cols:
                internal |= bool(len(tab) and set(tab[c].values) & lost)
        cut = (el, i, col, internal, len(lost))
        if internal:
            return cut
        best = best or cut
    return best


COUNTERS = ["results_after_swap", "swap_edits", "restore_after_blackout", "restore_with_internal_bus", "compared_calcs", "init_results_runs", "init_results_after_nan", "dc_runs", "sc_runs", "edits", "switch_edits",
            "failed_calcs_in_history", "alternate_root"]


def run_case(seed, tier, case_no):
    g = netgen.G(seed)
    profile = g.C(["full_mix", "multi_island", "weakly_meshed", "dist_radial"])
    net = netgen.rnd_net(seed, profile, {"motor": 0.0})
    if len(net.gen):
        net.gen["vn_kv"] = net.bus.vn_kv.reindex(net.gen.bus).values
        net.gen["xdss_pu"] = 0.2
        net.gen["rdss_ohm"] = 0.05
        net.gen["cos_phi"] = 0.9
        net.gen["sn_mva"] = np.maximum(np.abs(net.gen.p_mw.values) * 1.5, 1.0)
    if len(net.sgen):
        net.sgen["sn_mva"] = np.maximum(np.abs(net.sgen.p_mw.values) * 1.2, 0.1)
        net.sgen["k"] = 1.2
    net.ext_grid["s_sc_max_mva"] = 1000.
    net.ext_grid["s_sc_min_mva"] = 800.
    net.ext_grid["rx_max"] = 0.1
    net.ext_grid["rx_min"] = 0.1
    cnt = {k: 0 for k in COUNTERS}
    digest0 = common.net_digest(net)
    hist, viols = [], []
    last_ok_ac, topo_since, had_nan, last_kw = False, 99, False, None
    n_steps = g.I(12, 30)
    # scripted sub-history: black out a region, calculate, restore it, calculate from the previous results
    script, script_at = [], (g.I(0, 8) if g.B(0.5) else -1)
    for step in range(n_steps):
        if step == script_at:
            kw0 = {"tolerance_mva": 1e-10, "calculate_voltage_angles": g.B(0.4)}
            if g.B(0.3):
                # calculate - replace one load / sgen by a new one (same table length, other index) - calculate from the results
                script = [("calc", kw0), ("swap",), ("results_swap",)]
            else:
                cut = _find_cut(net, g)
                if cut is not None:
                    script = [("set", cut, False), ("calc", kw0), ("set", cut, True), ("results", cut)]
        forced = script.pop(0) if script else None
        if forced is not None and forced[0] == "set":
            net[forced[1][0]].at[forced[1][1], forced[1][2]] = forced[2]
            cnt["edits"] += 1
            cnt["switch_edits"] += 1
            hist.append("edit:%s %s[%s]" % ("restore" if forced[2] else "cut", forced[1][0], forced[1][1]))
            topo_since += 1
            continue
        if forced is not None and forced[0] == "swap":
            el = g.C(["load", "sgen"])
            if len(net[el]) > 1:
                net[el].drop(g.C(list(net[el].index)), inplace=True)
                (pp.create_load if el == "load" else pp.create_sgen)(net, int(g.C(list(net.bus.index))), g.R(0, 0.5), g.R(-0.1, 0.1))
                cnt["swap_edits"] += 1
            cnt["edits"] += 1
            hist.append("edit:swap " + el)
            continue
        if forced is None and g.B(0.55):
            r = _edit(net, g, cnt)
            hist.append("edit")
            if r == "topo":
                topo_since += 1
            continue
        if forced is not None and forced[0] == "calc":
            name, fn, kw, ref_kw = "runpp", pp.runpp, dict(forced[1]), dict(forced[1])
        elif forced is not None and forced[0] == "results_swap":
            if not (last_ok_ac and last_kw is not None):
                continue
            ref_kw = {k: v for k, v in last_kw.items() if k != "init"}
            name, fn, kw = "runpp", pp.runpp, dict(ref_kw, init="results")
            cnt["results_after_swap"] += 1
        elif forced is not None and forced[0] == "results":
            if not (last_ok_ac and had_nan and last_kw is not None):
                continue
            ref_kw = {k: v for k, v in last_kw.items() if k != "init"}
            name, fn, kw = "runpp", pp.runpp, dict(ref_kw, init="results")
            cnt["restore_after_blackout"] += 1
            cnt["restore_with_internal_bus"] += bool(forced[1][3])
        else:
            name, fn, kw, ref_kw = _calc(g, last_ok_ac, topo_since, last_kw)
        fresh = scrub(net)
        prev_vm = net.res_bus.vm_pu.copy() if kw.get("init") == "results" else None
        before = copy.deepcopy(net) if kw.get("init") == "results" else None
        o_h = _outcome(fn, net, kw)
        o_s = _outcome(fn, fresh, ref_kw)
        hist.append("%s%s" % (name, ":results" if kw.get("init") == "results" else ""))
        cnt["compared_calcs"] += 1
        cnt["dc_runs"] += name == "rundcpp"
        cnt["sc_runs"] += name == "calc_sc"
        if kw.get("init") == "results":
            cnt["init_results_runs"] += 1
            cnt["init_results_after_nan"] += had_nan
        if o_h != "ok":
            cnt["failed_calcs_in_history"] += 1
        msg = None
        if kw.get("init") == "results":
            if o_s == "ok" and o_h != "ok":
                msg = "runpp(init='results') ended with %s although the fresh power flow of the same tables converges" % o_h
                if had_nan:
                    msg += " (previous results contain unsupplied NaN buses)"
            elif o_s == "ok":
                msg = _compare(name, net, fresh, kw)
        else:
            if o_h != o_s:
                msg = "%s on the used object ended with %s, on a fresh copy of the same tables with %s" % (name, o_h, o_s)
            elif o_h == "ok":
                msg = _compare(name, net, fresh, kw)
        if msg and msg != "ALT" and name == "runpp" and kw.get("init") == "results" and o_h == "ok" and o_s == "ok":
            # two different voltage profiles that both satisfy Kirchhoff's balance of the same tables are two roots of the power
            # flow equations: the start point selected another root (DESIGN.md section 5) - counted, not judged
            from ..oracles import balance
            try:
                both = all(max(abs(m) for _g, m, _s, _k, e in balance.nodal_mismatch(n_)[0] if e) < 1e-6 for n_ in (net, fresh))
                # ... and it is another root only if the voltage profiles really differ (equal voltages with different result
                # tables - stale rows, wrong labels - are no alternate root)
                dva_ = np.abs((net.res_bus.va_degree.values - fresh.res_bus.va_degree.values + 180) % 360 - 180)
                prof = bool(np.nanmax(np.abs(net.res_bus.vm_pu.values - fresh.res_bus.vm_pu.values)) > 1e-6 or np.nanmax(dva_) > 1e-5)
                # (the other root may sit at an auxiliary / internal bus that res_bus does not show: then branch flows differ)
                for el_, c_ in (("line", "p_from_mw"), ("trafo", "p_hv_mw"), ("trafo3w", "p_hv_mw")):
                    if not prof and len(net[el_]) and net["res_" + el_].index.equals(fresh["res_" + el_].index):
                        x_, y_ = net["res_" + el_][c_].values.astype(float), fresh["res_" + el_][c_].values.astype(float)
                        prof = bool(np.nanmax(np.abs(x_ - y_) - 1e-5 * (1 + np.abs(x_)), initial=-1.) > 0)
                both = both and prof and "row labels" not in msg and "another shape" not in msg
            except Exception:  # noqa
                both = False
            if both:
                msg = "ALT"
        if msg and kw.get("init") == "results" and o_h == "notconv" and o_s == "ok":
            # same phenomenon seen through the iteration limit: the start point lies in the basin of another root, which Newton-Raphson
            # reaches with more iterations (a start vector containing NaN never converges and stays a violation)
            from ..oracles import balance
            try:
                pp.runpp(before, **dict(kw, max_iteration=60))
                if max(abs(m) for _g, m, _s, _k, e in balance.nodal_mismatch(before)[0] if e) < 1e-6 and \
                        np.nanmax(np.abs(before.res_bus.vm_pu.values - fresh.res_bus.vm_pu.values)) > 1e-3:
                    msg = "ALT"
            except Exception:  # noqa
                pass
        if msg == "ALT":
            cnt["alternate_root"] += 1
            msg = None
        if msg:
            mech = None
            if kw.get("init") == "results" and o_s == "ok" and prev_vm is not None:
                # buses without a previous result and the auxiliary buses pandapower creates for open-ended branches (open
                # switch, out-of-service end bus) are started flat (1.0 p.u., 0 deg); where the solution is far from 1.0/0deg (e.g. behind a
                # vector-group phase shift) that start is too far away and Newton-Raphson diverges or lands on another root
                fva = fresh.res_bus.va_degree
                watch = set(prev_vm.index[prev_vm.isna().values & fresh.res_bus.vm_pu.reindex(prev_vm.index).notna().values])
                bis = net.bus.in_service
                for el, cols, et in (("line", ("from_bus", "to_bus"), "l"), ("trafo", ("hv_bus", "lv_bus"), "t")):
                    t = net[el][net[el].in_service.values]
                    for c1, c2 in (cols, cols[::-1]):
                        dead_end = ~bis.reindex(t[c1]).values
                        watch |= set(t[c2].values[dead_end])
                    if len(net.switch):
                        sw = net.switch[(net.switch.et == et) & ~net.switch.closed]
                        for b_, e_ in zip(sw.bus.values, sw.element.values):
                            if e_ in t.index:
                                watch |= {t.at[e_, cols[0]], t.at[e_, cols[1]]} - {b_}
                for i3, t3r in net.trafo3w[net.trafo3w.in_service.values].iterrows():
                    legs = [t3r.hv_bus, t3r.mv_bus, t3r.lv_bus]
                    opened = set(net.switch.bus[(net.switch.et == "t3") & (net.switch.element == i3) & ~net.switch.closed].values) if len(net.switch) else set()
                    if opened or any(not bis.at[b_] for b_ in legs):
                        watch |= set(legs)
                # counterfactual: with the fresh solution as previous result of exactly the buses that had none, the same call succeeds
                nanb = [b_ for b_ in prev_vm.index[prev_vm.isna().values] if b_ in fva.index and not np.isnan(fva.at[b_])]
                if nanb and before is not None:
                    cf = copy.deepcopy(before)
                    cf.res_bus.loc[nanb, ["vm_pu", "va_degree"]] = fresh.res_bus.loc[nanb, ["vm_pu", "va_degree"]].values
                    if _outcome(fn, cf, kw) == "ok" and _compare(name, cf, fresh, kw) is None:
                        mech = "init_results_flat_start_of_new_and_auxiliary_buses"
                if mech is None and before is not None and o_h != "ok":
                    # the previous results themselves (buses that had a result) are far from the solution of the edited tables:
                    # Newton-Raphson started there leaves its basin of attraction, no start value is missing or misplaced
                    pb, fb = before.res_bus, fresh.res_bus
                    both = pb.vm_pu.notna().values & fb.vm_pu.reindex(pb.index).notna().values
                    if both.any():
                        vp_ = pb.vm_pu.values[both] * np.exp(1j * np.deg2rad(pb.va_degree.values[both]))
                        vf_ = fb.vm_pu.reindex(pb.index).values[both] * np.exp(1j * np.deg2rad(fb.va_degree.reindex(pb.index).values[both]))
                        if np.max(np.abs(vp_ - vf_)) > 0.1:
                            # ... and it still fails when every missing start value (buses and internal buses without previous
                            # result) is replaced by the solution itself
                            cf2 = copy.deepcopy(before)
                            nb_ = cf2.res_bus.vm_pu.isna().values
                            cf2.res_bus.loc[nb_, ["vm_pu", "va_degree"]] = fresh.res_bus.reindex(cf2.res_bus.index).loc[nb_, ["vm_pu", "va_degree"]].values
                            for t_ in ("trafo3w", "xward"):
                                rt = "res_" + t_
                                if len(cf2[t_]) and rt in cf2 and "vm_internal_pu" in cf2[rt] and "vm_internal_pu" in fresh[rt] \
                                        and len(cf2[rt]) == len(fresh[rt]):
                                    ni_ = cf2[rt].vm_internal_pu.isna().values
                                    for c_ in ("vm_internal_pu", "va_internal_degree"):
                                        cf2[rt].loc[ni_, c_] = fresh[rt][c_].values[ni_]
                            if _outcome(fn, cf2, kw) != "ok":
                                mech = "init_results_previous_state_far_from_solution"
                watch = [b_ for b_ in watch if b_ in fva.index and not np.isnan(fva.at[b_])]
                if watch:
                    vw = fresh.res_bus.vm_pu.loc[watch].values * np.exp(1j * np.deg2rad(fva.loc[watch].values))
                    if mech is None and np.max(np.abs(vw - 1.0)) > 0.1:
                        mech = "init_results_flat_start_of_new_and_auxiliary_buses"
            viols.append(common.viol("step %d (%s %s): %s" % (step, name, kw, msg), mechanism=mech, history=hist[-12:], options=kw))
            break
        if name == "runpp":
            last_ok_ac = o_h == "ok"
            last_kw = dict(kw)
            if last_ok_ac:
                topo_since = 0
                had_nan = bool(net.res_bus.vm_pu[net.bus.in_service.values].isna().any())
        elif o_h == "ok" and name == "rundcpp":
            last_ok_ac = False   # res_bus now holds DC results
    sample = {"profile": profile, "net": netgen.describe(net), "history": hist}
    return common.case(common.sha([digest0, hist, seed]), nontrivial=cnt["compared_calcs"] >= 4, tags={"profile:" + profile}, violations=viols,
                       sample=sample, evals=max(cnt["compared_calcs"], 1), extra=cnt)
