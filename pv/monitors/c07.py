"""C07 - unsupplied <=> NaN (reference-model monitor: independent union-find vs result tables vs topology.unsupplied_buses)."""
import numpy as np
import pandapower as pp
import pandapower.topology as top

from .. import common, pf
from ..gen import netgen
from ..oracles import graph

PROPERTY = "C07"
READY = True
LEVEL = "exploration"
TECHNIQUE = "runtime monitoring: independent energization model (union-find over the tables) compared with the NaN pattern of the result tables and with topology.unsupplied_buses after every converged power flow"
CASES = {"quick": 800, "thorough": 40000}
BUDGET = {"quick": 60, "thorough": 1200}
FLOORS = {"quick": {"nontrivial": 250, "tags": {"t3_switch_open": 30, "bb_switch_open": 50, "oos_bus": 100, "oos_slack": 20, "slack_gen": 30,
                                                "island_without_slack": 50, "dc": 50, "element_at_dead_bus": 100}, "max_skip_frac": 0.4},
          "thorough": {"nontrivial": 8000, "tags": {"t3_switch_open": 800, "dc": 1500}, "max_skip_frac": 0.4}}
RULE = ("seeded random networks (profile multi_island: aggressive switching, out-of-service buses / branches / slacks, extra islands "
        "with own slack, slack gen or none) under runpp / rundcpp; non-trivial = converged and at least one in-service bus is "
        "unsupplied or out of service; distinct = digest of inputs")
ASSUMPTIONS = ["a bus is supplied iff connected to an in-service ext_grid / slack gen at an in-service bus through in-service branches "
               "whose terminal switches are closed and closed bus-bus switches; dclines do not energize",
               "zero power is required of bus elements (load, sgen, gen, ext_grid, storage, motor, shunt, ward, xward, asymmetric_*) at "
               "dead or out-of-service buses and of out-of-service elements; NaN there counts as a violation only for p/q columns"]

BUS_EL = ["load", "sgen", "gen", "ext_grid", "storage", "motor", "shunt", "ward", "xward", "asymmetric_load", "asymmetric_sgen"]


def check_energization(net, ac, opts):
    viols, tags = [], set()
    supplied, isb = graph.supplied_buses(net)
    rb = net.res_bus
    col = "vm_pu" if ac else "va_degree"
    nan = set(rb.index[rb[col].isna().values])
    dead = isb - supplied
    mech = None
    # (i) NaN exactly at in-service unsupplied buses (out-of-service buses are NaN as well)
    wrong_nan = (nan & isb) - dead
    wrong_finite = dead - nan
    if wrong_nan or (wrong_finite and not ac):
        m = None
        if not ac:
            # rundcpp has no failure detection: when the system it builds is singular it reports success with NaN angles.
            # Signature: the AC power flow of the very same inputs fails as well (internal error or non-convergence).
            import copy
            n2 = copy.deepcopy(net)
            st, _ = pf.try_run(pp.runpp, n2)
            if st != "ok":
                return [common.viol("rundcpp reports success but supplied buses %s have NaN / dead buses %s have finite va_degree (runpp on the same inputs: %s)" % (
                    sorted(wrong_nan)[:8], sorted(wrong_finite)[:8], st), mechanism="dc_silent_nan_when_ac_fails", options=opts)], tags | {"dc_silent_nan"}, True
        if wrong_nan:
            viols.append(common.viol("supplied buses %s have NaN %s" % (sorted(wrong_nan)[:8], col), mechanism=m, options=opts))
    if wrong_finite:
        viols.append(common.viol("unsupplied in-service buses %s have finite %s" % (sorted(wrong_finite)[:8], col), options=opts))
    oos_b = set(net.bus.index) - isb
    if oos_b - nan:
        viols.append(common.viol("out-of-service buses %s have finite %s" % (sorted(oos_b - nan)[:8], col), options=opts))
    # (ii) topology module agrees
    try:
        tu = set(top.unsupplied_buses(net))
    except Exception as e:  # noqa
        tu = None
        viols.append(common.viol("topology.unsupplied_buses raised %r" % (e,), options=opts))
    if tu is not None and tu != dead:
        m = None
        if len(net.dcline) and tu < dead:
            # topology.unsupplied_buses builds its graph with dclines as edges: buses reachable from a slack only through a
            # dc line are reported as supplied although the power flow (rightly) leaves them without voltage
            uf, _isb = graph.energized_components(net)
            for f, t, s_ in net.dcline[["from_bus", "to_bus", "in_service"]].values:
                if s_ and int(f) in _isb and int(t) in _isb:
                    uf.union(int(f), int(t))
            roots = {uf.find(b) for b in graph.slack_buses(net) if b in _isb}
            if {b for b in _isb if uf.find(b) not in roots} == tu:
                m = "topology_counts_dcline_as_supply"
        viols.append(common.viol("topology.unsupplied_buses=%s but energization model says %s" % (sorted(tu)[:10], sorted(dead)[:10]), mechanism=m, options=opts))
    # (iii) zero power of elements at dead / oos buses and of oos elements; (iv) finite results elsewhere
    deadset = dead | oos_b
    for el in BUS_EL:
        t = net[el]
        if not len(t):
            continue
        r = net["res_" + el]
        at_dead = t.bus.isin(deadset).values | ~t.in_service.values.astype(bool)
        cols = ["p_mw"] + (["q_mvar"] if ac and "q_mvar" in r else [])
        vals = r[cols].values.astype(float)
        if at_dead.any():
            tags.add("element_at_dead_bus")
            bad = at_dead & ~np.all(vals == 0, axis=1)
            if bad.any():
                i = int(np.flatnonzero(bad)[0])
                m = None
                if not ac and t.in_service.values[i] and t.bus.values[i] in dead:
                    m = "dc_power_at_unsupplied_bus"
                viols.append(common.viol("%s %s at dead/out-of-service bus %s (in_service=%s) reports %s" % (
                    el, t.index[i], t.bus.values[i], t.in_service.values[i], vals[i]), mechanism=m, options=opts))
        live = ~at_dead
        if live.any() and not np.all(np.isfinite(vals[live])):
            i = int(np.flatnonzero(live & ~np.all(np.isfinite(vals), axis=1))[0])
            viols.append(common.viol("%s %s at supplied bus %s reports non-finite %s" % (el, t.index[i], t.bus.values[i], vals[i]), options=opts))
    # bus results finite at supplied buses
    cols = ["vm_pu", "va_degree", "p_mw"] + (["q_mvar"] if ac else [])
    sb = sorted(supplied)
    v = rb.loc[sb, cols].values.astype(float)
    if len(sb) and not np.all(np.isfinite(v)):
        i = int(np.flatnonzero(~np.all(np.isfinite(v), axis=1))[0])
        viols.append(common.viol("supplied bus %s has non-finite results %s" % (sb[i], dict(zip(cols, v[i]))), options=opts))
    # branches between supplied buses with closed terminals: finite
    for el, bc, pc in (("line", ["from_bus", "to_bus"], ["p_from_mw", "p_to_mw"]), ("trafo", ["hv_bus", "lv_bus"], ["p_hv_mw", "p_lv_mw"])):
        t = net[el]
        if len(t):
            live = t.in_service.values.astype(bool) & t[bc[0]].isin(supplied).values & t[bc[1]].isin(supplied).values
            vals = net["res_" + el][pc].values.astype(float)
            if live.any() and not np.all(np.isfinite(vals[live])):
                i = int(np.flatnonzero(live & ~np.all(np.isfinite(vals), axis=1))[0])
                viols.append(common.viol("%s %s between supplied buses reports non-finite flows" % (el, t.index[i]), options=opts))
    if dead:
        tags.add("island_without_slack")
    if oos_b:
        tags.add("oos_bus")
    return viols, tags, bool(dead or oos_b)


def net_tags(net):
    tags = set()
    sw = net.switch
    if len(sw):
        op = ~sw.closed.values.astype(bool)
        for et, name in (("t3", "t3_switch_open"), ("b", "bb_switch_open"), ("l", "line_switch_open"), ("t", "trafo_switch_open")):
            if (op & (sw.et.values == et)).any():
                tags.add(name)
    if (~net.ext_grid.in_service).any() or (len(net.gen) and (~net.gen.in_service & net.gen.slack).any()):
        tags.add("oos_slack")
    if len(net.gen) and (net.gen.in_service & net.gen.slack).any():
        tags.add("slack_gen")
    return tags


def run_case(seed, tier, case_no):
    g = netgen.G(seed)
    net = netgen.rnd_net(seed, "multi_island", {"dcline": 0.1, "sw_at_oos_bus": True})
    ac = not g.B(0.2)
    opts = {}
    if ac:
        if g.B(0.3):
            opts["calculate_voltage_angles"] = g.B(0.5)
        if g.B(0.2):
            opts["numba"] = False
        if g.B(0.2):
            opts["init"] = g.C(["flat", "dc"])
        if g.B(0.15):
            opts["enforce_q_lims"] = True
        status, exc = pf.try_run(pp.runpp, net, **opts)
    else:
        status, exc = pf.try_run(pp.rundcpp, net, **opts)
    digest = common.net_digest(net, {"ac": ac, "o": opts})
    sample = {"net": netgen.describe(net), "calc": "runpp" if ac else "rundcpp", "options": opts,
              "open_switches": int((~net.switch.closed).sum()) if len(net.switch) else 0,
              "oos_buses": int((~net.bus.in_service).sum())}
    tags = {"ac" if ac else "dc"} | net_tags(net)
    if status != "ok":
        return common.case(digest, nontrivial=False, tags=tags, skipped=status, sample=sample)
    viols, t2, nontrivial = check_energization(net, ac, opts)
    return common.case(digest, nontrivial=nontrivial, tags=tags | t2, violations=viols, sample=sample)
