"""C30 - the network diagnostic is side-effect free and stateless across instances and calls.

History monitor: a seeded history of Diagnostic() instantiations / register_function / diagnose_network calls is executed in
one fresh process; the expected outcome of every call (and the state of every new instance) is computed in pristine
processes (pv.oracles.diag_proc: one os.fork() child per expectation from a zygote that never used the diagnostic API).
"""
import json
import os
import subprocess

import pandapower as pp

from .. import common
from ..gen import netgen
from ..oracles.diag_proc import canon

PROPERTY = "C30"
READY = True
LEVEL = "exploration"
TECHNIQUE = ("runtime monitoring: histories of Diagnostic instantiation / register_function / diagnose_network calls in one "
             "process, every call compared with the same call executed in a pristine process; input tables snapshot-compared")
CASES = {"quick": 10, "thorough": 1000}
SHARDS = {"quick": 5, "thorough": 8}   # every case forks ~10 pristine children: more parallel cases only add kernel contention
BUDGET = {"quick": 60, "thorough": 1500}
CASE_TIMEOUT = 900
FLOORS = {"quick": {"nontrivial": 4, "tags": {"two_default_instances": 5, "register_on_default": 2, "nondefault_instance": 2,
                                               "same_instance_kwargs_change": 3, "report_compact": 2, "report_detailed": 2},
                    "extras": {"diagnose_calls": 20, "leak_observable_calls": 4, "new_instances_checked": 15,
                               "results_with_findings": 20}, "max_skip_frac": 0.1},
          "thorough": {"nontrivial": 450, "tags": {"two_default_instances": 450, "register_on_default": 300, "nondefault_instance": 200},
                       "extras": {"diagnose_calls": 3000, "leak_observable_calls": 1400}, "max_skip_frac": 0.1}}
RULE = ("one case = one history (8-14 operations: new Diagnostic(add_default_functions), register_function of probe functions, "
        "diagnose_network(net, report_style, warnings_only, **random diagnostic kwargs)) on 2 generated networks, run in one "
        "fresh process; non-trivial = some call whose result would differ if earlier kwargs / registrations of any instance "
        "leaked into it (pristine results of both specifications differ); distinct = digest of nets + history")
ASSUMPTIONS = ["expected result of a call = result of Diagnostic(add_default_functions) + the functions registered on that very "
               "instance + diagnose_network(net, **kwargs of that call) in a pristine process (forked from a zygote that imported "
               "pandapower but never used the diagnostic API)",
               "results are compared after canonicalisation (floats to 10 significant digits, exceptions by type and message)",
               "net unchanged = all input tables equal (res_* tables and the converged flag are outputs)"]

KW = {"overload_scaling_factor": [0.001, 0.1, 0.5], "min_r_ohm": [0.001, 0.5, 5.], "max_r_ohm": [100., 1., 0.05],
      "min_x_ohm": [0.001, 1.], "max_x_ohm": [100., 0.5], "nominal_voltage_tolerance": [0.3, 0.01],
      "capacitance_scaling_factor": [0.01, 0.5], "numba_tolerance": [1e-5, 1e-3]}
PROFILES = ["simple", "dist_radial", "full_mix", "multi_island", "weakly_meshed"]


def make_net(g, seed):
    net = netgen.rnd_net(seed, g.C(PROFILES))
    r = g.rng.random()
    if r < 0.35 and len(net.load):
        net.load["scaling"] = net.load.scaling * g.R(30, 200)      # power flow fails -> overload check depends on its factor
    elif r < 0.65 and len(net.sgen):
        # generation overload: far too much infeed at one sgen - scaling the loads down does not help, scaling generation does
        net.sgen.loc[net.sgen.index[0], "p_mw"] = max(float(net.load.p_mw.sum()), 1.0) * g.R(300, 3000)
        net.sgen.loc[net.sgen.index[0], "in_service"] = True
    if g.B(0.3) and len(net.line):
        net.line.loc[net.line.index[0], "length_km"] = g.R(1e-4, 1e-3)
    if g.B(0.2) and len(net.switch):
        net.switch["closed"] = False
    return net


def rnd_kwargs(g):
    keys = list(KW)
    k = g.C([0, 1, 1, 2, 3])
    return {keys[int(i)]: g.C(KW[keys[int(i)]]) for i in g.rng.choice(len(keys), size=k, replace=False)}


HIST_LEN = [(8, 14)]     # run_case sets (4, 7) for the quick tier: one diagnose_network call costs seconds


def gen_history(g):
    ops = [["new", 0, True]]
    insts = {0: True}
    n_diag = 0
    for _ in range(g.I(*HIST_LEN[0])):
        r = g.rng.random()
        if r < 0.25:
            i = len(insts)
            insts[i] = not g.B(0.25)
            ops.append(["new", i, insts[i]])
            if not insts[i] and g.B(0.85):   # an instance without the default functions is only observable through a probe
                ops.append(["register", i, "echo", None, None])
        elif r < 0.42:
            i = g.C(sorted(insts))
            kind = g.C(["echo", "echo", "open_switches"])
            argn = None if g.B(0.7) else g.C([[], ["min_r_ohm"], ["overload_scaling_factor", "max_x_ohm"]])
            ops.append(["register", i, kind, argn, "%s_%d" % (kind, len(ops)) if g.B(0.7) else None])
        else:
            i = g.C(sorted(insts))
            ops.append(["diagnose", i, g.C(["a", "b"]), rnd_kwargs(g), g.C([None, None, "compact", "detailed"]), g.B(0.3)])
            n_diag += 1
    if g.B(0.4):
        # two instances without the default functions: they must not share anything either
        for _ in range(2):
            i = len(insts)
            insts[i] = False
            kw = rnd_kwargs(g) or {"min_r_ohm": 0.5}
            ops += [["new", i, False], ["register", i, "echo", None, None], ["diagnose", i, g.C(["a", "b"]), kw, None, False]]
            n_diag += 1
    while n_diag < 3:
        ops.append(["diagnose", g.C(sorted(insts)), g.C(["a", "b"]), rnd_kwargs(g), None, False])
        n_diag += 1
    return ops


def plan(ops):
    """property model and defect model of every diagnose call -> (jobs, per-op info)"""
    default, own_funcs, own_kw = {}, {}, {}
    glob_funcs, glob_kw = [], {}
    jobs, info = {}, []

    def job(net, dflt, funcs, kwargs, style, wo):
        spec = {"net": net, "default": dflt, "funcs": [list(f) for f in funcs], "kwargs": dict(kwargs), "report_style": style,
                "warnings_only": wo}
        key = common.sha(spec)
        jobs.setdefault(key, dict(spec, key=key))
        return key
    for op in ops:
        if op[0] == "new":
            default[op[1]], own_funcs[op[1]], own_kw[op[1]] = op[2], [], {}
            info.append({"glob_kw": dict(glob_kw), "glob_funcs": list(glob_funcs)})
        elif op[0] == "register":
            f = (op[2], op[3], op[4])
            own_funcs[op[1]].append(f)
            if default[op[1]]:
                glob_funcs.append(f)
            info.append({})
        else:
            _, i, net, kw, style, wo = op
            sticky = dict(own_kw[i], **kw)
            if default[i]:
                m_kw, m_funcs = dict(glob_kw, **kw), list(glob_funcs)
            else:
                m_kw, m_funcs = sticky, own_funcs[i]
            e = job(net, default[i], own_funcs[i], kw, style, wo)
            m = job(net, default[i], m_funcs, m_kw, style, wo)
            name = None
            if m != e:
                kw_diff, f_diff = m_kw != kw, [list(f) for f in m_funcs] != [list(f) for f in own_funcs[i]]
                if kw_diff and f_diff:
                    name = "shared_default_kwargs_and_functions"
                elif f_diff:
                    name = "shared_default_function_list"
                else:
                    name = "kwargs_sticky_within_instance" if m_kw == sticky else "shared_default_kwargs"
            # second candidate: keyword arguments of earlier calls stay in this instance only (what remains after the class-level
            # defaults were repaired by bfb919b7e); the observation decides which model - if any - explains a difference
            m2 = job(net, default[i], own_funcs[i], sticky, style, wo)
            info.append({"expect": e, "model": m, "model_name": name, "kwargs_changed": bool(own_kw[i]) and sticky != kw,
                         "model2": m2, "model2_name": "kwargs_sticky_within_instance" if m2 != e else None})
            own_kw[i] = sticky
            if default[i]:
                glob_kw.update(kw)
    # a job per default flag so that the pristine state of a new instance is known
    fresh = {d: job("a", d, [], {}, None, False) for d in set(default.values())}
    return jobs, info, fresh


def run_case(seed, tier, case_no):
    HIST_LEN[0] = (4, 7) if tier == "quick" else (8, 14)
    g = netgen.G(seed)
    nets = {"a": make_net(g, seed), "b": make_net(g, seed + 1)}
    ops = gen_history(g)
    jobs, info, fresh = plan(ops)
    digest = common.sha({"nets": {k: common.net_digest(n) for k, n in nets.items()}, "ops": ops})
    sample = {"nets": {k: netgen.describe(n) for k, n in nets.items()}, "history": ops}
    wd = os.path.join(common.WORK, "C30", "proc")
    os.makedirs(wd, exist_ok=True)
    jf, of = os.path.join(wd, "job-%d-%d.json" % (os.getpid(), case_no)), os.path.join(wd, "out-%d-%d.json" % (os.getpid(), case_no))
    with open(jf, "w") as f:
        json.dump({"nets": {k: pp.to_json(n, filename=None) for k, n in nets.items()}, "jobs": list(jobs.values()), "history": ops}, f)
    env = dict(os.environ)
    env["PYTHONPATH"] = common.VERIF + os.pathsep + common.REPO
    try:
        env["NUMBA_DISABLE_JIT"] = "1"   # every expectation runs in a pristine forked child: JIT compilation per child would dominate
        p = subprocess.run([common.PY, "-m", "pv.oracles.diag_proc", jf, of], cwd=common.VERIF, env=env, timeout=800,
                           stdout=subprocess.DEVNULL, stderr=subprocess.PIPE)
        with open(of) as f:
            out = json.load(f)
    except (subprocess.TimeoutExpired, OSError, ValueError) as e:
        return common.case(digest, nontrivial=False, skipped="oracle_process:" + type(e).__name__, sample=sample)
    finally:
        for x in (jf, of):
            if os.path.exists(x):
                os.remove(x)
    hist = out["history"]
    if "ok" not in hist:
        return common.case(digest, nontrivial=False, violations=[common.viol(
            "the history process crashed: %s" % hist.get("crash", "")[-400:], history=ops)], sample=sample)
    exp = {}
    for k, r in out["expect"].items():
        if "ok" not in r:
            return common.case(digest, nontrivial=False, skipped="oracle_child_crashed", sample=sample)
        exp[k] = r["ok"]
    strip = lambda r: {k: v for k, v in r.items() if k in ("result", "errors", "raised")}  # noqa
    tags, viols = set(), []
    extra = dict(diagnose_calls=0, leak_observable_calls=0, new_instances_checked=0, results_with_findings=0, net_diffs=0)
    n_default = sum(1 for op in ops if op[0] == "new" and op[2])
    if n_default >= 2:
        tags.add("two_default_instances")
    nontrivial = False
    for op, inf, obs in zip(ops, info, hist["ok"]):
        if op[0] == "new":
            pristine = exp[fresh[op[2]]]["fresh_state"]
            extra["new_instances_checked"] += 1
            if not op[2]:
                tags.add("nondefault_instance")
            if obs != pristine:
                mech = None
                kw0 = dict(pristine["kwargs"]["__dict__"]) if isinstance(pristine["kwargs"], dict) else {}
                pred_kw = canon(dict(kw0, **inf["glob_kw"]))
                pred_f = pristine["functions"] + [f[2] or {"echo": "EchoKwargs", "open_switches": "CountOpenSwitches"}[f[0]]
                                                  for f in inf["glob_funcs"]]
                if op[2] and obs["kwargs"] == pred_kw and obs["functions"] == pred_f:
                    kd, fd = obs["kwargs"] != pristine["kwargs"], obs["functions"] != pristine["functions"]
                    mech = ("shared_default_kwargs_and_functions" if kd and fd else
                            "shared_default_function_list" if fd else "shared_default_kwargs")
                viols.append(common.viol(
                    "a new Diagnostic(add_default_functions=%s) starts with kwargs/functions that differ from a pristine instance: "
                    "kwargs %s, %d functions (pristine %d)" % (op[2], obs["kwargs"], len(obs["functions"]), len(pristine["functions"])),
                    mechanism=mech, op=op, observed=obs, pristine=pristine))
        elif op[0] == "register":
            if any(o[0] == "new" and o[1] == op[1] and o[2] for o in ops):
                tags.add("register_on_default")
        else:
            extra["diagnose_calls"] += 1
            if op[4]:
                tags.add("report_" + op[4])
            if inf["kwargs_changed"]:
                tags.add("same_instance_kwargs_change")
            e, m, m2 = strip(exp[inf["expect"]]), strip(exp[inf["model"]]), strip(exp[inf["model2"]])
            if e.get("result"):
                extra["results_with_findings"] += 1
            if "raised" in e:
                tags.add("expected_raise")
            if e != m or e != m2:
                nontrivial = True
                extra["leak_observable_calls"] += 1
            o = strip(obs)
            if o != e:
                mech = inf["model2_name"] if (o == m2 and inf["model2_name"]) else inf["model_name"] if (o == m and inf["model_name"]) else None
                viols.append(common.viol(
                    "diagnose_network(net %s, %s) on instance %d returned a result that differs from the same call in a pristine "
                    "process" % (op[2], op[3], op[1]), mechanism=mech, op=op, observed=_short(o), expected=_short(e),
                    history=ops[:ops.index(op) + 1]))
            if obs.get("net_diff"):
                extra["net_diffs"] += 1
                viols.append(common.viol("diagnose_network changed the input tables of the network: %s" % obs["net_diff"][:4],
                                         mechanism=classify_side_effect(obs), op=op, diff=obs["net_diff"],
                                         function_errors=obs.get("errors")))
    seen, outv = set(), []
    for v in viols:
        k = (v["mechanism"], v["what"][:30])
        if k not in seen:
            seen.add(k)
            outv.append(v)
    return common.case(digest, nontrivial=nontrivial, tags=tags, violations=outv, sample=sample,
                       evals=extra["diagnose_calls"] + extra["new_instances_checked"], extra=extra)


# diagnostic functions that edit the caller's net in place and restore it only on the paths they anticipate
EDITS_IN_PLACE = {"implausible_impedance_values": {"switch", "line", "impedance", "vsc", "line_dc", "ward", "xward", "trafo", "trafo3w"},
                  "overload": {"load", "gen", "sgen"}, "wrong_switch_configuration": {"switch"}}


def classify_side_effect(obs):
    """ImplausibleImpedanceValues.diagnostic (diagnostic_functions.py:1090-1149) replaces implausible branches by switches in
    the user's net and restores its table copies only after the statements of the handler; an exception that is not one of
    `expected_exceptions` raised by the second power flow (e.g. UserWarning 'different setpoints' once buses are fused)
    leaves the edited tables behind. Trigger checked here: that function is listed in diag_errors and every changed table is
    one it edits. Same pattern (verified in the code) for Overload and WrongSwitchConfiguration."""
    errs = obs.get("errors")
    failed = {k for k, _ in errs["__dict__"]} if isinstance(errs, dict) and "__dict__" in errs else set()
    changed = {d.split(":")[0].split(".")[0].split("[")[0] for d in obs["net_diff"]}
    for fn, tabs in EDITS_IN_PLACE.items():
        if fn in failed and changed and changed <= tabs:
            return "net_not_restored_after_error_in_" + fn
    return None


def _short(r):
    s = json.dumps(r, sort_keys=True)
    return s if len(s) < 1500 else s[:1500] + "..."
