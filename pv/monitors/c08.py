"""C08 - calculations never corrupt the user's network, even when they fail (fault enumeration: snapshot monitor + failpoints).

For every calculation the input tables are snapshotted at the call and compared at the return *or unwind*.  Crash points are
(a) natural failures (no slack, divergence, invalid options, missing data) and (b) injected ones: a recording run lists the
PY_START events of all pandapower functions inside the call (sys.monitoring, no source hooks) and the call is repeated on a
fresh copy with InjectedFault raised at event k.
"""
import copy

import numpy as np
import pandas as pd
import pandapower as pp
import pandapower.networks as pn
import pandapower.shortcircuit as sc
import pandapower.contingency as cont
import pandapower.estimation as est

from .. import common
from ..gen import netgen
from ..probe import snapshot, failpoints

PROPERTY = "C08"
READY = True
LEVEL = "fault_enumeration"
TECHNIQUE = "runtime monitoring: input-table snapshot at call vs return/unwind of every calculation, with crash points enumerated by sys.monitoring failpoints (InjectedFault raised at the k-th pandapower function start) and natural failures"
CASES = {"quick": 96, "thorough": 4000}
BUDGET = {"quick": 60, "thorough": 1500}
CASE_TIMEOUT = 300
CALCS = ["runpp", "runpp_bfsw", "rundcpp", "runopp", "rundcopp", "runpp_3ph", "calc_sc", "calc_sc_1ph", "estimate", "run_contingency"]
# run_control is not among the calculations of the property: controllers write set-points (tap_pos ...) on purpose
FLOORS = {"quick": {"nontrivial": 30, "extras": {"injected_runs": 2500, "distinct_crash_points": 1200, "natural_failures": 20, "fault_propagated": 1500},
                    "tags": dict({("calc:" + c): 3 for c in CALCS}, dcline=10, dcline_out_of_service=5), "max_skip_frac": 0.5},
          "thorough": {"nontrivial": 1500, "extras": {"injected_runs": 150000}, "tags": {("calc:" + c): 150 for c in CALCS}, "max_skip_frac": 0.5}}
RULE = ("one case = one (network, calculation) pair: generated or bundled network with dclines / tap-table transformers / trafo3w / "
        "measurements / costs as the calculation needs; the calculation runs once recorded (N function-start events), then with a "
        "fault injected at ~K sampled events (quick: one per distinct function + first/last + random; thorough: up to 400) and "
        "under natural failure conditions; after every run the input tables are compared with the snapshot; non-trivial = >= 10 "
        "injected runs; distinct = digest of net + calculation")
ASSUMPTIONS = ["new columns and dtype widening of unchanged values are not violations; values, rows and index of every pre-existing input table are",
               "InjectedFault derives from Exception: handlers inside pandapower treat it like a real error; runs in which the fault was swallowed are judged by the normal-return contract",
               "tables starting with res_ or _ and the scalar outputs (converged, OPF_converged) are outputs, not inputs"]


class Skip(Exception):
    pass


def _sc_data(net):
    net.ext_grid["s_sc_max_mva"] = 1000.
    net.ext_grid["s_sc_min_mva"] = 800.
    net.ext_grid["rx_max"] = 0.1
    net.ext_grid["rx_min"] = 0.1
    net.ext_grid["x0x_max"] = 1.0
    net.ext_grid["r0x0_max"] = 0.1
    if len(net.gen):
        net.gen["vn_kv"] = net.bus.vn_kv.reindex(net.gen.bus).values
        net.gen["xdss_pu"] = 0.2
        net.gen["rdss_ohm"] = 0.05
        net.gen["cos_phi"] = 0.9
        net.gen["sn_mva"] = np.maximum(np.abs(net.gen.p_mw.values) * 1.5, 1.0)
    if len(net.sgen):
        net.sgen["sn_mva"] = np.maximum(np.abs(net.sgen.p_mw.values) * 1.2, 0.1)
        net.sgen["k"] = 1.2


def _more_dclines(net, g):
    """a second dc line and out-of-service dc lines (in any table position)"""
    cand = [int(b) for b in net.bus.index[(net.bus.vn_kv.values == 20.) & net.bus.in_service.values]]
    used = set(net.gen.bus) | set(net.ext_grid.bus) | set(net.dcline.from_bus) | set(net.dcline.to_bus) | set(net.xward.bus)
    cand = [b for b in cand if b not in used]
    if len(cand) >= 2 and g.B(0.6):
        a, b = [int(x) for x in g.rng.choice(cand, 2, replace=False)]
        pp.create_dcline(net, a, b, p_mw=g.R(0.1, 1), loss_percent=g.R(0, 2), loss_mw=g.R(0, 0.02), vm_from_pu=1.0, vm_to_pu=1.0, max_p_mw=5,
                         min_q_from_mvar=-5, max_q_from_mvar=5, min_q_to_mvar=-5, max_q_to_mvar=5)
    if len(net.dcline) and g.B(0.5):
        net.dcline.at[int(g.C(list(net.dcline.index))), "in_service"] = False


def build(calc, g, seed):
    """returns (net, fn(net) -> None)"""
    if calc in ("runpp", "runpp_bfsw", "rundcpp", "calc_sc", "run_control"):
        net = netgen.rnd_net(seed, g.C(["full_mix", "transmission", "multi_island"]), {"dcline": 0.7, "tabular": 0.7, "trafo3w": 0.8, "motor": 0.0})
        _more_dclines(net, g)
        if calc == "calc_sc":
            _sc_data(net)
            kw = {"case": g.C(["max", "min"]), "fault": g.C(["3ph", "2ph"]), "branch_results": g.B(0.5)}
            return net, lambda n: sc.calc_sc(n, **kw)
        if calc == "run_control":
            import pandapower.control as ctl
            for t in list(net.trafo.index[net.trafo.tap_pos.notna() & ~net.trafo.get("tap_dependency_table", False).astype(bool)])[:2]:
                ctl.DiscreteTapControl(net, int(t), 0.98, 1.03)
            return net, lambda n: pp.runpp(n, run_control=True)
        if calc == "rundcpp":
            return net, lambda n: pp.rundcpp(n)
        kw = {}
        if calc == "runpp_bfsw":
            kw["algorithm"] = "bfsw"
        elif g.B(0.3):
            kw["algorithm"] = g.C(["iwamoto_nr", "gs"])
        if g.B(0.3):
            kw["enforce_q_lims"] = True
        if g.B(0.3):
            kw["recycle"] = {"bus_pq": False, "trafo": False, "gen": False}
        return net, lambda n: pp.runpp(n, **kw)
    if calc in ("runopp", "rundcopp"):
        net = g.C([pn.case9, pn.case14, pn.case30, pn.case5])()
        if g.B(0.6) and len(net.bus) > 4:
            b = [int(x) for x in g.rng.choice(net.bus.index, 2, replace=False)]
            pp.create_dcline(net, b[0], b[1], p_mw=g.R(1, 5), loss_percent=g.R(0, 2), loss_mw=g.R(0, 0.1), vm_from_pu=1.01, vm_to_pu=1.02,
                             max_p_mw=20, min_q_from_mvar=-10, max_q_from_mvar=10, min_q_to_mvar=-10, max_q_to_mvar=10)
            if g.B(0.4):
                b2 = [int(x) for x in g.rng.choice([x for x in net.bus.index if x not in b], 2, replace=False)]
                pp.create_dcline(net, b2[0], b2[1], p_mw=g.R(1, 5), loss_percent=1., loss_mw=0.05, vm_from_pu=1.01, vm_to_pu=1.02, max_p_mw=20,
                                 min_q_from_mvar=-10, max_q_from_mvar=10, min_q_to_mvar=-10, max_q_to_mvar=10, in_service=False)
                if g.B(0.5):
                    net.dcline = net.dcline.iloc[::-1]      # the out-of-service dc line first
        net.load["controllable"] = False
        if g.B(0.5):
            i = int(g.C(list(net.load.index)))
            net.load.at[i, "controllable"] = True
            for c, f in (("min_p_mw", 0.5), ("max_p_mw", 1.0)):
                net.load.at[i, c] = net.load.p_mw.at[i] * f
            net.load.at[i, "min_q_mvar"] = net.load.at[i, "max_q_mvar"] = net.load.q_mvar.at[i]
        fn = pp.runopp if calc == "runopp" else pp.rundcopp
        return net, lambda n: fn(n)
    if calc == "runpp_3ph":
        from ..gen import net3ph
        made = net3ph.rnd_net3ph(seed, balanced=g.B(0.5))
        net = made[0] if isinstance(made, tuple) else made
        return net, lambda n: pp.runpp_3ph(n)
    if calc == "calc_sc_1ph":
        net = pn.mv_oberrhein() if False else netgen.rnd_net(seed, "simple", {"trafo3w": 0.0, "gen": 0.0})
        _sc_data(net)
        for c, v in (("r0_ohm_per_km", 0.3), ("x0_ohm_per_km", 0.6), ("c0_nf_per_km", 100.)):
            net.line[c] = v
        for c, v in (("vk0_percent", None), ("vkr0_percent", None), ("mag0_percent", 100.), ("mag0_rx", 0.), ("si0_hv_partial", 0.9)):
            net.trafo[c] = net.trafo.vk_percent if c == "vk0_percent" else (net.trafo.vkr_percent if c == "vkr0_percent" else v)
        net.trafo["vector_group"] = "Dyn"
        return net, lambda n: sc.calc_sc(n, fault="1ph", case="max")
    if calc == "estimate":
        net = g.C([pn.case9, pn.case14])()
        pp.runpp(net)
        for b in net.bus.index:
            pp.create_measurement(net, "v", "bus", float(net.res_bus.vm_pu.at[b]), 0.01, int(b))
            pp.create_measurement(net, "p", "bus", float(net.res_bus.p_mw.at[b]), 1., int(b))
            pp.create_measurement(net, "q", "bus", float(net.res_bus.q_mvar.at[b]), 1., int(b))
        for l in net.line.index:
            pp.create_measurement(net, "p", "line", float(net.res_line.p_from_mw.at[l]), 1., int(l), side="from")
        return net, lambda n: est.estimate(n, init="flat")
    if calc == "run_contingency":
        net = g.C([pn.case9, pn.case14])()
        lines = [int(x) for x in g.rng.choice(net.line.index, min(4, len(net.line)), replace=False)]
        cases = {"line": {"index": lines}}
        if len(net.trafo):
            cases["trafo"] = {"index": [int(net.trafo.index[0])]}
        return net, lambda n: cont.run_contingency(n, cases)
    raise Skip(calc)


def natural_failures(calc, net, g):
    """list of (label, mutation function) that make the calculation fail naturally"""
    out = []
    if calc in ("runpp", "rundcpp", "runpp_bfsw", "calc_sc"):
        out.append(("no_slack", lambda n: n.ext_grid.__setitem__("in_service", False) or (len(n.gen) and n.gen.__setitem__("slack", False))))
    if calc in ("runpp", "runpp_bfsw", "run_control"):
        out.append(("diverge", lambda n: n.load.__setitem__("p_mw", n.load.p_mw * 500)))
    if calc == "runpp":
        out.append(("bad_setpoints", lambda n: pp.create_gen(n, int(n.ext_grid.bus.iloc[0]), 1., vm_pu=float(n.ext_grid.vm_pu.iloc[0]) + 0.03)))
    if calc in ("runopp", "rundcopp"):
        out.append(("infeasible", lambda n: n.bus.__setitem__("max_vm_pu", 0.5)))
    if calc == "calc_sc":
        out.append(("missing_sc_data", lambda n: n.ext_grid.drop(columns=["s_sc_max_mva", "s_sc_min_mva"], inplace=True)))
    if calc == "estimate":
        out.append(("unobservable", lambda n: n.measurement.drop(n.measurement.index[2:], inplace=True)))
    if calc == "run_contingency":
        out.append(("diverge", lambda n: n.load.__setitem__("p_mw", n.load.p_mw * 100)))
    return out


def sample_points(log, g, tier):
    n = len(log)
    pts = {1, n}
    first, last = {}, {}
    for k, ev in enumerate(log, 1):
        first.setdefault(ev, k)
        last[ev] = k
    pts |= set(first.values())
    if tier == "thorough":
        pts |= set(last.values())
    budget = 60 if tier == "quick" else 400
    if len(pts) > budget:
        pts = set(int(x) for x in g.rng.choice(sorted(pts), budget, replace=False))
    else:
        extra = budget - len(pts)
        if n > len(pts) and extra > 0:
            pts |= set(int(x) for x in g.rng.integers(1, n + 1, extra))
    return sorted(pts)


def check_after(before, net, label, opts=None):
    d = snapshot.diff(before, net)
    if not d:
        return None
    mech = None
    txt = "; ".join(d[:4])
    if all(x.startswith("gen: rows changed") or x.startswith("gen.") for x in d) and len(net.dcline):
        mech = "dcline_aux_gens_left_after_exception"
    return common.viol("%s changed the input tables: %s" % (label, txt), mechanism=mech, diffs=d[:6])


COUNTERS = ["injected_runs", "distinct_crash_points", "natural_failures", "fault_propagated", "fault_swallowed", "fault_transformed", "normal_returns"]


def run_case(seed, tier, case_no):
    g = netgen.G(seed)
    calc = CALCS[case_no % len(CALCS)]
    try:
        net, fn = build(calc, g, seed)
    except Skip as e:
        return common.case("skip-%d" % case_no, nontrivial=False, skipped="build:%s" % e, tags={"calc:" + calc}, sample={"calc": calc})
    cnt = {k: 0 for k in COUNTERS}
    viols = []
    digest = common.net_digest(net, {"calc": calc})
    base = copy.deepcopy(net)
    # 1. recorded normal run
    n1 = copy.deepcopy(base)
    before = snapshot.snapshot(n1)
    log, exc = failpoints.record(fn, n1)
    cnt["normal_returns"] += exc is None
    v = check_after(before, n1, "%s (%s)" % (calc, "returned" if exc is None else "raised %s" % type(exc).__name__))
    if v:
        viols.append(v)
    sample = {"calc": calc, "net": netgen.describe(net), "events": len(log), "functions": len(set(log)),
              "normal_outcome": "ok" if exc is None else type(exc).__name__}
    # a second call on the same object (state left by the first one must not matter for the inputs)
    before = snapshot.snapshot(n1)
    try:
        fn(n1)
    except Exception:  # noqa
        pass
    v = check_after(before, n1, "%s second call" % calc)
    if v:
        viols.append(v)
    # 2. injected faults
    seen_points = set()
    for k in sample_points(log, g, tier):
        if log[k - 1][1] == "_remove_left_over_auxiliary_elements":
            continue    # a second fault inside the recovery handler of a run that already failed is not a crash point of the calculation
        n2 = copy.deepcopy(base)
        before = snapshot.snapshot(n2)
        outcome, fired = failpoints.inject(k, fn, n2)
        cnt["injected_runs"] += 1
        if fired:
            seen_points.add(fired)
        cnt["fault_propagated"] += outcome == "injected"
        cnt["fault_swallowed"] += outcome == "swallowed"
        cnt["fault_transformed"] += outcome.startswith("other")
        v = check_after(before, n2, "%s with a fault injected at event %d/%d in %s (%s)" % (calc, k, len(log), fired, outcome))
        if v:
            v["witness"]["event"] = k
            v["witness"]["function"] = list(fired) if fired else None
            if not any(x["what"].split(" in ")[-1] == v["what"].split(" in ")[-1] for x in viols):
                viols.append(v)
    cnt["distinct_crash_points"] = len(seen_points)
    # 3. natural failures
    for label, mutate in natural_failures(calc, base, g):
        n3 = copy.deepcopy(base)
        try:
            mutate(n3)
        except Exception:  # noqa
            continue
        before = snapshot.snapshot(n3)
        try:
            fn(n3)
            out = "returned"
        except Exception as e:  # noqa
            out = "raised %s" % type(e).__name__
            cnt["natural_failures"] += 1
        v = check_after(before, n3, "%s under natural failure condition '%s' (%s)" % (calc, label, out))
        if v:
            viols.append(v)
    tags = {"calc:" + calc}
    if len(net.dcline):
        tags.add("dcline")
        if (~net.dcline.in_service).any():
            tags.add("dcline_out_of_service")
    return common.case(digest, nontrivial=cnt["injected_runs"] >= 10, tags=tags, violations=viols[:6], sample=sample,
                       evals=cnt["injected_runs"] + 2, extra=cnt)
