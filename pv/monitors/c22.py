"""C22 - network edits never leave dangling references (invariant evaluated after every operation of a random edit history)."""
import copy

import numpy as np
import pandas as pd
import pandapower as pp
import pandapower.toolbox as tb
import pandapower.groups as pgr

from .. import common
from ..gen import netgen, richnet
from ..oracles import refwalk

PROPERTY = "C22"
READY = True
TECHNIQUE = ("runtime monitoring: referential-integrity walker + identity-preservation oracle evaluated after every operation "
             "of seeded random create/toolbox edit histories")
LEVEL = "exploration"
CASES = {"quick": 480, "thorough": 12000}
BUDGET = {"quick": 75, "thorough": 1500}
_OPS_FLOOR = {"op:fuse_buses": 120, "op:select_subnet": 60, "op:merge_nets": 40, "op:reindex_buses": 80, "op:reindex_elements": 150,
              "op:reindex_elements_bus": 40, "op:create_continuous_bus_index": 40, "op:create_continuous_elements_index": 50,
              "op:drop_elements": 150, "op:drop_elements_simple": 80, "op:drop_buses": 30, "op:drop_lines": 25, "op:drop_trafos": 15,
              "op:drop_trafos3w": 15, "op:drop_elements_at_buses": 25, "op:drop_switches_at_buses": 25, "op:drop_inner_branches": 15,
              "op:drop_inactive_elements": 20, "op:drop_out_of_service_elements": 20, "op:replace_ext_grid_by_gen": 15,
              "op:replace_gen_by_ext_grid": 15, "op:replace_gen_by_sgen": 10, "op:replace_sgen_by_gen": 15, "op:replace_pq_elmtype": 20,
              "op:replace_ward_by_internal_elements": 10, "op:replace_xward_by_internal_elements": 10, "op:replace_xward_by_ward": 10,
              "op:replace_impedance_by_line": 20, "op:replace_line_by_impedance": 15, "op:merge_same_bus_generation_plants": 25,
              "op:create": 100, "op:create_ref": 100, "op:create_bad": 80}
FLOORS = {"quick": {"nontrivial": 240, "tags": _OPS_FLOOR, "extras": {"ops": 3500, "refs_checked": 250000}, "max_skip_frac": 0.05},
          "thorough": {"nontrivial": 6000, "tags": {k: 10 * v for k, v in _OPS_FLOOR.items()},
                       "extras": {"ops": 90000, "refs_checked": 6000000}, "max_skip_frac": 0.05}}
RULE = ("one case = one history of 8-20 operations (create_*, invalid creations, drop_*, fuse_buses, select_subnet, merge_nets, "
        "reindex_buses/reindex_elements, create_continuous_*_index, replace_*, merge_same_bus_generation_plants ...) with random valid "
        "arguments on a seeded random network with b/l/t/t3 switches, measurements (bus, branch, bus-element targets, named and "
        "bus-index sides), poly/pwl costs, index and reference-column groups, controllers, tap/shunt characteristic tables, FACTS/DC "
        "tables and optional result tables; both oracles run after every operation; non-trivial = at least 5 operations executed; "
        "distinct = digest of start network + operation list")
ASSUMPTIONS = [
    "walker: a reference is any bus/bus_dc column of any input table, switch.element by et, measurement.element by element_type and "
    "numeric measurement.side (bus index), cost.element by et, group members (index rows and reference-column rows), controller "
    "element/input/output indices (res_x counts as x) and characteristic_index, id_characteristic_table of trafo/trafo3w/shunt rows "
    "that use their table, res_* index subset of element index",
    "identity oracle (stricter reading, justified by the docstrings 'considers the new bus indices in all other element tables' / "
    "'replaces all references of old indices by the new ones' / merge_nets 'net2 elements get reindexed'): after reindex_*, "
    "create_continuous_*_index and merge_nets every reference must point to the same row (followed by a unique id) as before; "
    "after all other operations a surviving reference may not point to another pre-existing row (fuse_buses bus reroutes exempt)",
    "operations that raise are not judged (net restored from a copy) and counted in op_raised:*; drop_buses(drop_elements=False), "
    "drop_group_and_elements (documented to need closed groups) and user-written controllers are outside the domain",
    "after a violation the harness removes the dangling referrers (plain pandas) so later operations start from a clean net",
]

UID = refwalk.UID
BUS_EL = ["load", "sgen", "gen", "ext_grid", "storage", "shunt", "ward", "xward", "motor", "asymmetric_load", "asymmetric_sgen"]
BRANCH_EL = ["line", "trafo", "trafo3w", "impedance", "dcline"]
OTHER_EL = ["switch", "measurement"]
FACTS_EL = ["svc", "ssc", "tcsc", "vsc"]


class NA(Exception):
    """operation not applicable to the current net"""


def _some(g, idx, lo=1, hi=3):
    idx = list(idx)
    if len(idx) < lo:
        raise NA()
    k = min(len(idx), g.I(lo, hi))
    return [int(i) for i in g.rng.choice(idx, size=k, replace=False)]


def _tables_with_rows(net, cands):
    out = [t for t in cands if t in net and isinstance(net[t], pd.DataFrame) and len(net[t])]
    if not out:
        raise NA()
    return out


def _lookup(g, index, all_p=0.3):
    """injective renaming of a subset of index whose image avoids the unmapped indices: mixes swaps and fresh numbers"""
    index = [int(i) for i in index]
    if not index:
        raise NA()
    sub = index if g.B(all_p) else _some(g, index, 1, max(1, len(index) // 2 + 1))
    mode = g.C(["fresh", "fresh", "perm", "mixed", "shift"])
    top = max(index) + 1
    if mode == "fresh":
        base = top + g.I(0, 50)
        new = [base + k for k in range(len(sub))]
    elif mode == "shift":
        base = g.I(1, 3)
        sub = index
        new = [i + base for i in sub]
    else:
        pool = list(sub)
        if mode == "mixed":
            pool = pool[: len(pool) // 2] + [top + 7 + k for k in range(len(pool) - len(pool) // 2)]
        new = [int(x) for x in g.rng.permutation(pool)]
    lk = {o: n for o, n in zip(sub, new) if o != n}
    if not lk:
        raise NA()
    return lk


# ----------------------------------------------------------------------------------------------------- operations
# every op: f(net, g) -> (net, info dict); raises NA when the net offers no valid arguments

def op_create_bus_element(net, g):
    et = g.C(["load", "sgen", "gen", "shunt", "storage", "bus", "line", "switch_b"])
    b = _some(g, net.bus.index, 1, 1)[0]
    if et == "bus":
        i = pp.create_bus(net, float(net.bus.vn_kv.at[b]))
    elif et == "load":
        i = pp.create_load(net, b, 0.1, 0.02)
    elif et == "sgen":
        i = pp.create_sgen(net, b, 0.1, 0.02)
    elif et == "gen":
        i = pp.create_gen(net, b, 0.1, vm_pu=1.01)
    elif et == "shunt":
        i = pp.create_shunt(net, b, 0.1)
    elif et == "storage":
        i = pp.create_storage(net, b, 0.1, 1.)
    elif et == "line":
        same = net.bus.index[(net.bus.vn_kv == net.bus.vn_kv.at[b]) & (net.bus.index != b)]
        b2 = _some(g, same, 1, 1)[0]
        i = pp.create_line_from_parameters(net, b, b2, 1., 0.1, 0.1, 10, 0.4)
        et = "line"
    else:
        b2 = _some(g, net.bus.index.difference([b]), 1, 1)[0]
        i = pp.create_switch(net, b, b2, "b")
        et = "switch"
    return net, dict(op="create", et=et, index=int(i))


def op_create_ref(net, g):
    kind = g.C(["switch", "measurement", "cost", "group", "attach"])
    if kind == "switch":
        et, tab, cols = g.C([("l", "line", ["from_bus", "to_bus"]), ("t", "trafo", ["hv_bus", "lv_bus"]),
                             ("t3", "trafo3w", ["hv_bus", "mv_bus", "lv_bus"])])
        e = _some(g, net[tab].index, 1, 1)[0]
        i = pp.create_switch(net, int(net[tab].at[e, g.C(cols)]), e, et, closed=g.B(0.7))
    elif kind == "measurement":
        n0 = len(net.measurement)
        richnet.add_measurements(net, g, 1)
        if len(net.measurement) == n0:
            raise NA()
        i = net.measurement.index[-1]
    elif kind == "cost":
        et = g.C(_tables_with_rows(net, richnet.COST_ETS))
        free = [e for e in net[et].index if not (((net.poly_cost.et == et) & (net.poly_cost.element == e)).any() or
                                                 ((net.pwl_cost.et == et) & (net.pwl_cost.element == e)).any())]
        e = _some(g, free, 1, 1)[0]
        if g.B(0.5):
            i = pp.create_poly_cost(net, e, et, 1.)
        else:
            i = pp.create_pwl_cost(net, e, et, [[0, 10, 1.], [10, 20, 2.]])
    elif kind == "group":
        richnet.stamp_uids(net, "N")
        richnet.add_groups(net, g, 1, "N%d" % len(net.group))
        i = net.group.index[-1]
    else:
        if not len(net.group):
            raise NA()
        gi = g.C(sorted(set(net.group.index)))
        rows = net.group.loc[[gi]]
        et = g.C(_tables_with_rows(net, richnet.GROUP_ETS))
        rc = rows.reference_column[rows.element_type == et]
        rc = rc.iloc[0] if len(rc) else (UID if g.B(0.3) else None)
        richnet.stamp_uids(net, "N")
        idx = _some(g, net[et].index, 1, 2)
        rc = None if rc is None or pd.isnull(rc) else rc
        pgr.attach_to_group(net, gi, et, [list(net[et].loc[idx, UID]) if rc else idx], reference_columns=rc)
        i = gi
    return net, dict(op="create_ref", kind=kind, index=int(i))


def op_create_bad(net, g):
    """creation with a reference to a row that does not exist: must be rejected (or must not leave the reference behind)"""
    kind = g.C(["load", "line", "switch_l", "switch_b", "switch_t3", "measurement", "poly_cost", "pwl_cost", "group", "trafo", "loads"])
    nb = int(net.bus.index.max()) + g.I(3, 9)
    b = _some(g, net.bus.index, 1, 1)[0]

    def missing(tab):
        return (int(net[tab].index.max()) if len(net[tab]) else 0) + g.I(3, 9)
    try:
        if kind == "load":
            pp.create_load(net, nb, 0.1)
        elif kind == "loads":
            pp.create_loads(net, [b, nb], 0.1)
        elif kind == "line":
            pp.create_line_from_parameters(net, b, nb, 1., 0.1, 0.1, 10, 0.4)
        elif kind == "trafo":
            pp.create_transformer(net, nb, b, "0.4 MVA 20/0.4 kV")
        elif kind == "switch_l":
            pp.create_switch(net, b, missing("line"), "l")
        elif kind == "switch_t3":
            pp.create_switch(net, b, missing("trafo3w"), "t3")
        elif kind == "switch_b":
            pp.create_switch(net, b, nb, "b")
        elif kind == "measurement":
            et = g.C(["bus", "line", "trafo", "load", "sgen"])
            pp.create_measurement(net, "p", et, 1., 0.1, missing(et), side="from" if et == "line" else "hv" if et == "trafo" else None)
        elif kind == "poly_cost":
            et = g.C(["gen", "sgen", "load", "ext_grid"])
            pp.create_poly_cost(net, missing(et), et, 1.)
        elif kind == "pwl_cost":
            et = g.C(["gen", "sgen", "load", "ext_grid"])
            pp.create_pwl_cost(net, missing(et), et, [[0, 10, 1.]])
        elif kind == "group":
            et = g.C(["bus", "line", "load"])
            pp.create_group(net, [et], [[missing(et)]], name="bad")
        rejected = False
    except (UserWarning, ValueError, KeyError, IndexError, TypeError):
        rejected = True
    return net, dict(op="create_bad", kind=kind, rejected=rejected)


def op_drop_elements(net, g):
    et = g.C(_tables_with_rows(net, BUS_EL + BRANCH_EL + OTHER_EL + BUS_EL + ["bus"] + FACTS_EL))
    idx = _some(g, net[et].index, 1, 3)
    if et == "bus" and len(net.bus) < 6:
        raise NA()
    how = "drop_elements"
    if et not in ("bus", "line", "trafo", "trafo3w") and g.B(0.3):
        how = "drop_elements_simple"
        tb.drop_elements_simple(net, et, idx)
    else:
        tb.drop_elements(net, et, idx)
    return net, dict(op=how, et=et, index=idx)


def op_drop_special(net, g):
    how = g.C(["drop_buses", "drop_lines", "drop_trafos", "drop_trafos3w", "drop_elements_at_buses", "drop_switches_at_buses",
               "drop_measurements_at_elements", "drop_controllers_at_elements", "drop_controllers_at_buses", "drop_inner_branches",
               "drop_duplicated_measurements"])
    info = dict(op=how)
    if how == "drop_buses":
        if len(net.bus) < 6:
            raise NA()
        info["buses"] = _some(g, net.bus.index, 1, 2)
        tb.drop_buses(net, info["buses"])
    elif how == "drop_lines":
        info["index"] = _some(g, net.line.index, 1, 3)
        tb.drop_lines(net, info["index"])
    elif how == "drop_trafos":
        info["index"] = _some(g, net.trafo.index, 1, 2)
        tb.drop_trafos(net, info["index"])
    elif how == "drop_trafos3w":
        info["index"] = _some(g, net.trafo3w.index, 1, 2)
        tb.drop_trafos(net, info["index"], table="trafo3w")
    elif how == "drop_elements_at_buses":
        info["buses"] = _some(g, net.bus.index, 1, 2)
        info["kw"] = dict(bus_elements=g.B(0.8), branch_elements=g.B(0.7), drop_measurements=g.B(0.7))
        tb.drop_elements_at_buses(net, info["buses"], **info["kw"])
    elif how == "drop_switches_at_buses":
        info["buses"] = _some(g, net.bus.index, 1, 3)
        tb.drop_switches_at_buses(net, info["buses"])
    elif how == "drop_measurements_at_elements":
        et = g.C(_tables_with_rows(net, ["bus", "line", "trafo", "trafo3w", "load", "sgen", "gen"]))
        info.update(et=et, index=_some(g, net[et].index, 1, 3) if g.B(0.7) else None)
        tb.drop_measurements_at_elements(net, et, idx=info["index"])
    elif how == "drop_controllers_at_elements":
        et = g.C(_tables_with_rows(net, ["load", "sgen", "gen", "trafo", "trafo3w", "storage"]))
        info.update(et=et, index=_some(g, net[et].index, 1, 3))
        tb.drop_controllers_at_elements(net, et, idx=info["index"])
    elif how == "drop_controllers_at_buses":
        info["buses"] = _some(g, net.bus.index, 1, 3)
        tb.drop_controllers_at_buses(net, info["buses"])
    elif how == "drop_inner_branches":
        info["buses"] = _some(g, net.bus.index, 2, 5)
        tb.drop_inner_branches(net, info["buses"])
    else:
        tb.drop_duplicated_measurements(net)
    return net, info


def op_drop_inactive(net, g):
    how = g.C(["drop_out_of_service_elements", "drop_inactive_elements", "set_isolated_areas_out_of_service"])
    if how == "drop_out_of_service_elements":
        tb.drop_out_of_service_elements(net)
    elif how == "drop_inactive_elements":
        tb.drop_inactive_elements(net, respect_switches=g.B(0.7))
    else:
        tb.set_isolated_areas_out_of_service(net, respect_switches=g.B(0.7))
    return net, dict(op=how)


def _connected_pair(net, g):
    """a pair of buses joined by some branch or bus-bus switch"""
    cands = []
    for tab, a, b in (("line", "from_bus", "to_bus"), ("impedance", "from_bus", "to_bus"), ("trafo", "hv_bus", "lv_bus"),
                      ("dcline", "from_bus", "to_bus"), ("trafo3w", "hv_bus", "mv_bus"), ("trafo3w", "mv_bus", "lv_bus")):
        if len(net[tab]):
            cands += list(zip(net[tab][a].values, net[tab][b].values))
    sb = net.switch[net.switch.et == "b"]
    cands += list(zip(sb.bus.values, sb.element.values))
    cands = [(int(a), int(b)) for a, b in cands if a != b and a in net.bus.index and b in net.bus.index]
    if not cands:
        raise NA()
    return g.C(cands)


def op_fuse_buses(net, g):
    if len(net.bus) < 5:
        raise NA()
    if g.B(0.7):
        b1, b2 = _connected_pair(net, g)
        b2 = [b2]
        if g.B(0.2):
            b2 += [b for b in _some(g, net.bus.index, 1, 1) if b != b1]
    else:
        bs = _some(g, net.bus.index, 2, 3)
        b1, b2 = bs[0], bs[1:]
    kw = dict(drop=g.B(0.85), fuse_bus_measurements=g.B(0.8))
    tb.fuse_buses(net, b1, b2 if (len(b2) > 1 or g.B(0.5)) else b2[0], **kw)
    return net, dict(op="fuse_buses", b1=b1, b2=b2, kw=kw)


def op_select_subnet(net, g):
    if len(net.bus) < 7:
        raise NA()
    k = g.I(max(3, len(net.bus) // 2), len(net.bus) - 1)
    buses = [int(b) for b in g.rng.choice(net.bus.index, size=k, replace=False)]
    kw = dict(include_switch_buses=g.B(0.4), include_results=g.B(0.5), keep_everything_else=g.B(0.3))
    new = tb.select_subnet(net, buses, **kw)
    return new, dict(op="select_subnet", buses=buses, kw=kw)


def op_merge_nets(net, g):
    seed2 = int(g.rng.integers(0, 2 ** 31))
    # a tag that no row of the current net carries (select_subnet does not keep private counters of the net)
    used = {str(u).split(":")[0] for k in net.keys() if isinstance(net[k], pd.DataFrame) and refwalk.UID in net[k].columns
            for u in net[k][refwalk.UID].values}
    n_tag = net.get("_pv_merge_count", 0)
    while "M%d" % n_tag in used:
        n_tag += 1
    tag = "M%d" % n_tag
    other, _ = richnet.rich_net(seed2, tag=tag, small=True)
    kw = dict(validate=False, merge_results=g.B(0.6), std_prio_on_net1=g.B(0.7), net2_reindex_log_level=None)
    other_first = g.B(0.3)
    a, b = (other, net) if other_first else (net, other)
    rel_union = dict(refwalk.relations(a))
    rel_union.update(refwalk.relations(b))
    new = tb.merge_nets(a, b, **kw)
    new["_pv_merge_count"] = n_tag + 1
    new["_pv_uid_count"] = max(net.get("_pv_uid_count", 0), other.get("_pv_uid_count", 0))
    return new, dict(op="merge_nets", seed2=seed2, kw=kw, other_first=other_first, _rel_union=rel_union, _inputs=(a, b))


def op_reindex_buses(net, g):
    how = g.C(["reindex_buses", "reindex_buses", "create_continuous_bus_index", "reindex_elements_bus"])
    if how == "create_continuous_bus_index":
        kw = dict(start=g.C([0, 0, 1, 100]), store_old_index=g.B(0.3))
        tb.create_continuous_bus_index(net, **kw)
        return net, dict(op=how, kw=kw)
    lk = _lookup(g, net.bus.index)
    if how == "reindex_buses":
        tb.reindex_buses(net, dict(lk))
    else:
        tb.reindex_elements(net, "bus", lookup=dict(lk))
    return net, dict(op=how, lookup=lk)


REINDEXABLE = BUS_EL + BRANCH_EL + BRANCH_EL + ["trafo3w", "switch", "measurement", "poly_cost", "pwl_cost"] + FACTS_EL


def op_reindex_elements(net, g):
    if g.B(0.2):
        kw = dict(start=g.C([0, 0, 1, 50]))
        tb.create_continuous_elements_index(net, **kw)
        return net, dict(op="create_continuous_elements_index", kw=kw)
    et = g.C(_tables_with_rows(net, REINDEXABLE))
    lk = _lookup(g, net[et].index)
    form = g.C(["lookup", "new_old", "new_all"])
    if form == "lookup":
        tb.reindex_elements(net, et, lookup=dict(lk))
    elif form == "new_old":
        tb.reindex_elements(net, et, new_indices=list(lk.values()), old_indices=list(lk.keys()))
    else:
        new = [lk.get(int(i), int(i)) for i in net[et].index]
        tb.reindex_elements(net, et, new_indices=new)
    return net, dict(op="reindex_elements", et=et, lookup=lk, form=form)


def op_replace(net, g):
    how = g.C(["replace_ext_grid_by_gen", "replace_gen_by_ext_grid", "replace_gen_by_sgen", "replace_sgen_by_gen",
               "replace_pq_elmtype", "replace_pq_elmtype", "replace_ward_by_internal_elements", "replace_xward_by_internal_elements",
               "replace_xward_by_ward", "replace_impedance_by_line", "replace_line_by_impedance",
               "replace_zero_branches_with_switches", "merge_same_bus_generation_plants", "repl_to_line",
               "create_replacement_switch_for_branch", "close_switch_at_line_with_two_open_switches"])
    info = dict(op=how)

    def sub(tab, p_all=0.3):
        if not len(net[tab]):
            raise NA()
        return None if g.B(p_all) else _some(g, net[tab].index, 1, 2)
    if how == "replace_ext_grid_by_gen":
        info["index"] = sub("ext_grid")
        tb.replace_ext_grid_by_gen(net, info["index"], slack=g.B(0.5))
    elif how == "replace_gen_by_ext_grid":
        info["index"] = sub("gen")
        tb.replace_gen_by_ext_grid(net, info["index"])
    elif how == "replace_gen_by_sgen":
        info["index"] = sub("gen")
        tb.replace_gen_by_sgen(net, info["index"])
    elif how == "replace_sgen_by_gen":
        info["index"] = sub("sgen")
        tb.replace_sgen_by_gen(net, info["index"])
    elif how == "replace_pq_elmtype":
        old, new = [str(x) for x in g.rng.choice(["load", "sgen", "storage"], size=2, replace=False)]
        info.update(old=old, new=new, index=sub(old))
        tb.replace_pq_elmtype(net, old, new, old_indices=info["index"])
    elif how == "replace_ward_by_internal_elements":
        info["index"] = sub("ward")
        tb.replace_ward_by_internal_elements(net, info["index"])
    elif how == "replace_xward_by_internal_elements":
        info["index"] = sub("xward")
        tb.replace_xward_by_internal_elements(net, info["index"])
    elif how == "replace_xward_by_ward":
        info["index"] = sub("xward", 0.)
        info["drop"] = g.B(0.8)
        tb.replace_xward_by_ward(net, info["index"], drop=info["drop"])
    elif how == "replace_impedance_by_line":
        info["index"] = sub("impedance")
        info["only_valid_replace"] = g.B(0.5)
        tb.replace_impedance_by_line(net, info["index"], only_valid_replace=info["only_valid_replace"])
    elif how == "replace_line_by_impedance":
        info["index"] = sub("line", 0.1)
        info["only_valid_replace"] = g.B(0.3)
        tb.replace_line_by_impedance(net, info["index"], only_valid_replace=info["only_valid_replace"])
    elif how == "replace_zero_branches_with_switches":
        li = _some(g, net.line.index, 1, 2)
        net.line.loc[li, "length_km"] = 0.
        info.update(index=li, drop_affected=g.B(0.7), in_service_only=g.B(0.5))
        tb.replace_zero_branches_with_switches(net, elements=("line", "impedance"), drop_affected=info["drop_affected"],
                                               in_service_only=info["in_service_only"])
    elif how == "merge_same_bus_generation_plants":
        tb.merge_same_bus_generation_plants(net, error=False, add_info=g.B(0.5))
    elif how == "repl_to_line":
        li = _some(g, net.line.index[net.line.std_type.notna()], 1, 1)[0]
        vn = float(net.bus.vn_kv.at[net.line.from_bus.at[li]])
        st = {110.: netgen.LINE_TYPES_HV, 20.: netgen.LINE_TYPES_MV, 0.4: netgen.LINE_TYPES_LV}.get(vn)
        if st is None:
            raise NA()
        info.update(index=li, std_type=g.C(st))
        tb.repl_to_line(net, li, info["std_type"])
    elif how == "create_replacement_switch_for_branch":
        et = g.C(_tables_with_rows(net, ["line", "impedance"]))
        info.update(et=et, index=_some(g, net[et].index, 1, 1)[0])
        tb.create_replacement_switch_for_branch(net, et, info["index"])
    else:
        tb.close_switch_at_line_with_two_open_switches(net)
    return net, info


OPS = [(op_create_bus_element, 1.0), (op_create_ref, 1.5), (op_create_bad, 0.7), (op_drop_elements, 3.0), (op_drop_special, 2.5),
       (op_drop_inactive, 0.6), (op_fuse_buses, 1.5), (op_select_subnet, 0.7), (op_merge_nets, 0.7), (op_reindex_buses, 1.5),
       (op_reindex_elements, 3.0), (op_replace, 3.0)]
RENAMING = {"reindex_buses", "reindex_elements_bus", "create_continuous_bus_index", "reindex_elements",
            "create_continuous_elements_index"}


# ------------------------------------------------------------------------------------------------------ oracles
ALL = None  # "every table" in a reindex family


def family(info):
    """(family name, set of reindexed tables or ALL)"""
    op = info["op"]
    if op == "reindex_elements":
        return "reindex", {info["et"]}
    if op in ("reindex_buses", "reindex_elements_bus", "create_continuous_bus_index"):
        return "reindex", {"bus"}
    if op in ("create_continuous_elements_index", "merge_nets"):
        return "reindex", ALL
    if op == "fuse_buses":
        return "fuse", set()
    if op == "select_subnet":
        return "select", set()
    if op == "merge_same_bus_generation_plants":
        return "merge_plants", set()
    if op.startswith("replace_") and op != "replace_zero_branches_with_switches":
        return "replace", set()
    if op.startswith("drop_") or op in ("replace_zero_branches_with_switches", "set_isolated_areas_out_of_service"):
        return "drop", set()
    return op, set()


NOT_IN_EBT = ("svc", "ssc", "tcsc", "vsc", "line_dc", "source_dc", "load_dc", "b2b_vsc", "bi_vsc")  # tables with bus / bus_dc
# columns that pandapower.toolbox.element_bus_tuples() does not list
NO_RES_IN_EBT = ("switch", "asymmetric_load", "asymmetric_sgen")  # 'elements_without_res' of element_bus_tuples(), although
# res_switch / res_asymmetric_* exist: create_continuous_elements_index never reindexes these result tables
MEAS_BRANCH = ("bus", "line", "trafo", "trafo3w")
SIMPLE_DROPPERS = ("drop_elements", "drop_elements_simple", "drop_out_of_service_elements", "drop_inactive_elements")
SELECT_FILTERED = set(BUS_EL + BRANCH_EL + ["bus", "switch", "measurement", "poly_cost", "pwl_cost"])


def _merge_lookup(idx1, idx2):
    """the renaming merge_nets applies to the rows of one table of net2 (documented: duplicated indices are appended after the
    largest index), computed per table exactly as _merge_nets does - element and result tables independently"""
    dup = [i for i in idx2 if i in set(idx1)]
    if not dup:
        return {}
    rest = [i for i in idx2 if i not in set(idx1)]
    start = max([max(idx1)] + ([max(rest)] if rest else [])) + 1
    return dict(zip(dup, range(start, start + len(dup))))


def _pre_row(pre, table, r):
    """row of pre[table] a broken reference r pointed to before the operation (by index, or by uid for reference-column groups)"""
    if not refwalk.has(pre, table) or not pre[table].index.is_unique:
        return None
    if r["kind"] == "group_member" and "[" in r["col"]:
        m = pre[table][pre[table][UID] == r["target"]] if UID in pre[table].columns else []
        return m.iloc[0] if len(m) == 1 else None
    return pre[table].loc[r["target"]] if r["target"] in pre[table].index else None


def classify(info, r, stale, pre, net):
    """name of the documented pandapower defect (see c22.notes.md) whose precise trigger explains the broken reference r, or
    None. stale = the stored reference value is byte-for-byte what it was before the operation (the operation never touched
    it) although the operation removed or renamed the row it pointed to."""
    fam, tabs = family(info)
    op, kind, table, tt = info["op"], r["kind"], r["table"], r["target_table"]
    reindexed = (lambda t: True) if tabs is ALL else (lambda t: t in tabs)
    if fam == "create_bad":
        if kind == "cost_element" and info["kind"] == table and not info["rejected"] and not stale:
            return "create_cost_unchecked_element"
        return None
    if (kind == "group_member" and isinstance(r["target"], str) and refwalk.has(net, tt) and "[" not in r["col"]
            and any(isinstance(c, float) and np.isnan(c) for c in net[tt].columns) and r["target"].startswith("%s_" % tt)):
        return "attach_to_group_nan_reference_column"  # member '<et>_<idx>_<uuid>' of an index group + a column named NaN in net[et]
    if op == "merge_nets":
        inputs = info.get("_inputs", ())
        if kind == "res_index" and info["kw"]["merge_results"] and len(inputs) == 2 and all(
                refwalk.has(x, table) and refwalk.has(x, tt) for x in inputs):
            a, b = inputs
            lk_res, lk_el = _merge_lookup(a[table].index, b[table].index), _merge_lookup(a[tt].index, b[tt].index)
            if any(lk_res.get(j, j) == r["row"] and lk_el.get(j, j) != r["row"] for j in b[table].index.intersection(b[tt].index)):
                return "merge_nets_reindexes_res_tables_independently"  # a valid result row of net2 got another new label than its element
        if kind == "characteristic_table" and stale:
            tab = "shunt_characteristic_table" if table == "shunt" else "trafo_characteristic_table"
            if all(refwalk.has(x, tab) and r["target"] in set(x[tab].id_characteristic.dropna().values) for x in inputs):
                return "merge_nets_characteristic_ids_collide"  # the unchanged id exists in the tables of both input nets
    if not stale:
        return None
    if fam == "select":
        if info["kw"]["keep_everything_else"] and (table not in SELECT_FILTERED or kind == "res_index"):
            return "select_subnet_keep_everything_else_unfiltered"
        return None
    if kind in ("controller_target", "controller_characteristic"):
        return "controller_references_never_updated"
    if kind in ("bus", "bus_dc") and table in NOT_IN_EBT:
        return "toolbox_ignores_tables_outside_element_bus_tuples"
    if fam == "merge_plants":
        if tt in ("ext_grid", "gen", "sgen"):
            return "merge_same_bus_generation_plants_plain_drop"
        return None
    if kind == "res_index" and tt == "switch" and not reindexed("switch"):
        return "switch_drops_keep_res_switch"
    if fam == "reindex":
        if kind == "switch_element" and r["col"] == "element:t3" and reindexed("trafo3w"):
            return "reindex_elements_ignores_t3_switches"
        if kind == "measurement_element" and tt not in MEAS_BRANCH and reindexed(tt):
            return "reindex_elements_ignores_bus_element_measurements"
        if kind == "res_index" and reindexed(tt) and (op != "create_continuous_elements_index" or tt in NO_RES_IN_EBT):
            return "reindex_elements_leaves_res_table"
        return None
    if op in ("fuse_buses", "drop_inner_branches") and tt in ("impedance", "dcline", "switch", "trafo3w", "trafo") and kind in (
            "group_member", "res_index", "cost_element"):
        row = _pre_row(pre, tt, r)
        inner = set([info["b1"]] + list(info["b2"])) if op == "fuse_buses" else set(info["buses"])
        cols = [c for c in refwalk.BUS_COLS if row is not None and c in row.index] + (["element"] if tt == "switch" else [])
        if row is not None and all(row[c] in inner for c in cols):
            return "inner_branch_drop_skips_cleanup"
    if fam == "fuse":
        b2 = set(info["b2"])
        if kind == "measurement_side" and r["target"] in b2:
            return "fuse_buses_keeps_measurement_side"
        if kind == "measurement_element" and tt == "bus" and r["target"] in b2 and not info["kw"]["fuse_bus_measurements"]:
            return "fuse_buses_drops_bus_with_unfused_measurements"
    if fam == "replace" and kind == "measurement_element" and tt not in MEAS_BRANCH:
        return "replace_functions_keep_measurements"
    if kind == "group_member" and tt == "measurement":
        return "measurement_drops_skip_group_detach"
    if kind == "group_member" and tt == "switch":
        row = _pre_row(pre, "switch", r)
        gone = set(pre.bus.index) - set(net.bus.index) | set(info.get("buses", []))
        if row is not None and (row["bus"] in gone or (row["et"] == "b" and row["element"] in gone)):
            return "drop_switches_at_buses_skips_group_detach"
    if fam == "drop" and kind in ("cost_element", "measurement_element") and tt not in MEAS_BRANCH:
        if op in SIMPLE_DROPPERS and info.get("et", tt) == tt:
            return "drop_elements_simple_keeps_costs" if kind == "cost_element" else "drop_elements_simple_keeps_measurements"
    return None


def _real(v):
    return isinstance(v, str) and v not in ("new", "ambiguous")


def _reals(fs):
    return {x for x in fs if _real(x)}


def _all_uids(net):
    out = set()
    for k, df in richnet.input_tables(net):
        if UID in df.columns:
            out.update(v for v in df[UID].values if isinstance(v, str))
    return out


def compare_relations(info, before, after, pre):
    """identity oracle: [(key, before (raw, ident), after (raw, ident), what)] for references that changed their target although
    the operation is a pure renaming (every reference must be exactly preserved), or - for all other operations - that
    point to a different pre-existing row than before"""
    op = info["op"]
    out = []
    if family(info)[0] == "reindex":
        for k in before.keys() | after.keys():
            b, a = before.get(k), after.get(k)
            if b is None or a is None:
                if not k[0].startswith("controller") or op != "merge_nets":  # merge_nets drops nothing but may re-create controllers
                    out.append((k, b, a, "reference %s by a pure renaming" % ("lost" if a is None else "created")))
            elif b[1] != a[1]:
                out.append((k, b, a, "target changed by a pure renaming"))
        return out
    old_uids = None
    for k in before.keys() & after.keys():
        b, a = before[k][1], after[k][1]
        if b == a or (k[0] == "group_member" and op == "create_ref"):  # attach_to_group adds members
            continue
        if op == "fuse_buses" and (k[0] in ("bus", "measurement_side") or before[k][0] in (("bus", before[k][0][1]), ("b", before[k][0][1]))
                                   if isinstance(before[k][0], tuple) else k[0] in ("bus", "measurement_side")):
            continue  # rerouting bus references is the purpose of the operation
        if isinstance(b, frozenset) and isinstance(a, frozenset):  # members may go, and rows created by the operation may join
            old_uids = _all_uids(pre) if old_uids is None else old_uids
            if _reals(a) & old_uids <= _reals(b):
                continue
        elif isinstance(b, tuple) and isinstance(a, tuple):
            old_uids = _all_uids(pre) if old_uids is None else old_uids
            if b[0] == a[0] and _reals(a[1]) & old_uids <= _reals(b[1]):
                continue
        elif not (_real(b) and _real(a)):
            continue
        out.append((k, before[k], after[k], "retargeted to another pre-existing row"))
    return out


def repair(net):
    """remove dangling referrers (harness-side, plain pandas) so that the rest of the history starts from a clean net"""
    for _ in range(12):
        recs = refwalk.dangling(net)
        if not recs:
            return True
        for r in recs:
            t, row, kind = r["table"], r["row"], r["kind"]
            if kind in ("bus", "bus_dc", "switch_element", "measurement_element", "measurement_side", "cost_element", "res_index"):
                if row in net[t].index:
                    net[t] = net[t].drop(row)
            elif kind == "group_member":
                gr = net.group
                keep = np.ones(len(gr), dtype=bool)
                for pos in range(len(gr)):
                    if gr.index[pos] == row and gr.element_type.iat[pos] == r["target_table"]:
                        m = [x for x in refwalk._members(gr.element_index.iat[pos]) if x != r["target"]]
                        gr.element_index.iat[pos] = m
                        keep[pos] = bool(m) and r["target"] is not None
                net.group = gr.loc[keep]
            elif kind in ("controller_target", "controller_characteristic"):
                if row in net.controller.index:
                    net.controller = net.controller.drop(row)
            elif kind == "characteristic_table":
                net[t].loc[row, r["col"]] = pd.NA
    return False


def resync_sides(net):
    """a numeric measurement side that is an existing bus but no terminal of the measured branch (left behind by fuse_buses, see
    fuse_buses_keeps_measurement_side) would dangle later through no fault of the later operation: harness-side correction"""
    n = 0
    ms = net.measurement
    for i, et, el, side in zip(list(ms.index), ms.element_type.values, ms.element.values, ms.side.values):
        if refwalk._isnum(side) and refwalk.has(net, et) and el in net[et].index and net[et].index.is_unique and ms.index.is_unique:
            terms = [net[et].at[el, c] for c in refwalk.BUS_COLS if c in net[et].columns]
            if terms and side not in terms:
                net.measurement.at[i, "side"] = terms[0]
                n += 1
    return n


def is_stale(r, before, after, pre):
    """the broken reference holds exactly the value it held before the operation, and that value was valid then"""
    if r["kind"] == "res_index":
        t = r["table"]
        return refwalk.has(pre, t) and r["row"] in pre[t].index and refwalk.has(pre, r["target_table"]) and \
            r["row"] in pre[r["target_table"]].index
    k = r["rkey"]
    if k is None or k not in before or k not in after:
        return False
    (rb, ib), (ra, ia) = before[k], after[k]
    if r["kind"] == "group_member":
        return rb[0] == ra[0] and r["target"] in rb[1] and None not in ib
    if r["kind"] == "controller_target":
        return rb == ra and None not in ib[1]
    return rb == ra and ib is not None


def run_case(seed, tier, case_no):
    g = netgen.G(seed)
    net, profile = richnet.rich_net(seed, tag="A")
    start_digest = common.net_digest(net)
    tags, viols, history, extra = {"profile:" + profile}, [], [], {}
    n_ops = g.I(8, 20)
    weights = np.array([w for _, w in OPS])
    weights = weights / weights.sum()
    bad0 = refwalk.dangling(net)
    if bad0:
        raise RuntimeError("generator produced dangling references: %r" % bad0[:3])
    rel = refwalk.relations(net)
    seen = set()
    tries = 0

    def count(k, n=1):
        extra[k] = extra.get(k, 0) + n

    def report(key, what, mech, **w):
        if key in seen:
            return
        seen.add(key)
        count("unexplained" if mech is None else "explained")
        if mech is not None:
            tags.add("mech:" + mech)
        viols.append(common.viol(what, mechanism=mech, step=len(history), seed=seed, **w))

    while len(history) < n_ops and tries < 4 * n_ops and len(net.bus) >= 3:
        tries += 1
        fn = OPS[int(g.rng.choice(len(OPS), p=weights))][0]
        pre = copy.deepcopy(net)
        try:
            new, info = fn(net, g)
        except NA:
            net = pre
            continue
        except Exception as e:  # noqa - the operation itself failed: no statement about references; restore and go on
            net = pre
            count("op_raised")
            count("op_raised:%s:%s" % (fn.__name__[3:], type(e).__name__))
            continue
        net = new
        before = info.pop("_rel_union", rel)
        inputs = info.pop("_inputs", None)
        history.append(info)
        op = info["op"]
        tags.add("op:" + op)
        count("ops")
        recs = refwalk.dangling(net)
        after = refwalk.relations(net)
        count("refs_checked", len(after))
        dangling_keys = set()
        for r in recs:
            stale = is_stale(r, before, after, pre)
            mech = classify(dict(info, _inputs=inputs) if inputs else info, r, stale, pre, net)
            dangling_keys.add(r["rkey"])
            count("dangling:" + r["kind"])
            r = {k: (list(v) if isinstance(v, tuple) else v) for k, v in r.items()}
            report((op, r["kind"], r["table"], r["target_table"], mech),
                   "after %s: dangling %s reference %s[%s].%s -> %s[%s]%s" % (
                       op, r["kind"], r["table"], r["row"], r["col"], r["target_table"], r["target"],
                       " (stale: untouched by the operation)" if stale else ""), mech, op=info, record=r, stale=stale)
        for k, b, a, what in compare_relations(info, before, after, pre):
            if k in dangling_keys:
                continue  # already reported by the walker
            kind = k[0]
            stale = b is not None and a is not None and b[0] == a[0]
            col = k[3] if kind == "bus" else ("element:%s" % b[0][0] if b and isinstance(b[0], tuple) and kind.endswith("element") else "")
            tt = (b[0][0] if b and isinstance(b[0], tuple) else None)
            tt = refwalk.SWITCH_TABLE.get(tt, tt) if kind == "switch_element" else tt
            pseudo = dict(kind="bus" if kind == "bus" else kind, table=k[1] if kind in ("bus", "cost_element", "characteristic_table") else
                          kind.split("_")[0], col=col, target_table="bus" if kind in ("bus", "measurement_side") else tt,
                          target=a[0] if a is not None and not isinstance(a[0], tuple) else None, row=None, rkey=k)
            mech = classify(dict(info, _inputs=inputs) if inputs else info, pseudo, stale, pre, net) if b is not None and a is not None else None
            count("retargeted:" + kind)
            report((op, "identity", kind, pseudo["table"], pseudo["target_table"], mech),
                   "after %s: %s reference of %s: %s: %s -> %s" % (op, kind, list(k[1:]), what, b, a), mech, op=info, rkey=list(k),
                   before=b, after=a, stale=stale)
        for k in list(net.keys()):  # attach_to_group_nan_reference_column also plants a column named NaN: remove it (not a reference)
            if isinstance(net[k], pd.DataFrame) and any(not isinstance(c, str) for c in net[k].columns):
                net[k] = net[k][[c for c in net[k].columns if isinstance(c, str)]]
                count("nan_named_column_removed")
        if recs:
            count("repairs")
            if not repair(net):
                tags.add("repair_failed")
                break
        count("side_resync", resync_sides(net))
        richnet.stamp_uids(net, "S%d" % len(history))
        rel = refwalk.relations(net)
    sample = {"profile": profile, "net": netgen.describe(net), "ops": [h["op"] for h in history]}
    digest = common.sha([start_digest, history])
    return common.case(digest, nontrivial=len(history) >= 5, tags=tags, violations=viols, sample=sample, evals=len(history),
                       extra=extra)
