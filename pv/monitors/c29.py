"""C29 - protection devices: trip time non-increasing in current, trips exactly above pick-up, activation value = switch current.

Contract monitor: Fuse.protection_function / OCRelay.protection_function are wrapped with icontract post-conditions (named
condition functions, explicit error classes) and driven with fabricated res_switch_sc / res_switch currents (sweep in random
order); the relation between the calls of one sweep (monotonicity, bracketing by the characteristic data) is checked afterwards.
"""
import collections

import numpy as np
import pandas as pd
import pandapower as pp

from .. import common
from ..gen import netgen

common.setup_paths()
import icontract  # noqa: E402
from pandapower.protection.protection_devices.fuse import Fuse  # noqa: E402
from pandapower.protection.protection_devices.ocrelay import OCRelay  # noqa: E402

PROPERTY = "C29"
READY = True
LEVEL = "exploration"
TECHNIQUE = ("runtime monitoring: icontract post-conditions on Fuse/OCRelay.protection_function for every call of a fabricated "
             "current sweep + monotonicity / data-bracketing relation over the sweep")
CASES = {"quick": 640, "thorough": 20000}
BUDGET = {"quick": 60, "thorough": 1200}
N_CURRENTS = {"quick": 200, "thorough": 400}
FLOORS = {"quick": {"nontrivial": 300,
                    "tags": {"fuse_std": 75, "fuse_custom": 75, "relay_DTOC": 55, "relay_IDMT": 40, "relay_IDTOC": 60,
                             "scenario_sc": 170, "scenario_pp": 140, "manual_pickup": 60, "auto_pickup": 100, "graded": 300},
                    "extras": {"contract_evals": 280000, "calls": 70000, "boundary_calls": 7000, "monotone_pairs": 70000,
                               "tripped_calls": 48000, "not_tripped_calls": 22000, "bracket_checks": 18000},
                    "max_skip_frac": 0.15},
          "thorough": {"nontrivial": 9000, "tags": {"fuse_std": 2500, "fuse_custom": 2500, "relay_DTOC": 1700, "relay_IDMT": 1300,
                                                    "relay_IDTOC": 1800}, "extras": {"calls": 3000000, "contract_evals": 12000000},
                       "max_skip_frac": 0.15}}
RULE = ("one case = one protection device (fuse from the standard library, fuse with a random monotone characteristic, or "
        "DTOC / IDMT / IDTOC relay with random settings on a random radial feeder) x a sweep of fabricated switch currents in "
        "random order (log-uniform, the exact thresholds and their floating point neighbours, the characteristic data points); "
        "non-trivial = the sweep contains tripping and non-tripping currents; distinct = digest of the device settings")
ASSUMPTIONS = ["fuse: trips iff 1000*i_ka >= smallest current of the characteristic; relay: trips iff i_ka > smallest pick-up "
               "(manual value given by the user, or the documented max_i_ka * overload factors)",
               "monotonicity is judged only for monotone characteristic data (one library type with non-monotone t_min data is "
               "counted and exempted) and consistently graded relay settings (I_s <= I_g <= I_gg, t_gg <= t_g <= IDMT time at I_g)",
               "trip times compared with a relative slack of 1e-9 (spline evaluation noise)",
               "a fuse time between two characteristic points must lie between the two data values (the curve passes through its data)"]


class ActivationValueError(Exception):
    pass


class TripDecisionError(Exception):
    pass


class TripTimeError(Exception):
    pass


class ResultShapeError(Exception):
    pass


COUNTS = collections.Counter()
EXPECT = {}   # id(device) -> dict(pickup_ka, inclusive)


def _current(self, net, scenario):
    tab = net.res_switch_sc.ikss_ka if scenario == "sc" else net.res_switch.i_ka
    return tab.at[self.switch_index]


def activation_value_is_switch_current_of_chosen_table(self, net, scenario, result):
    COUNTS["activation"] += 1
    v = result["activation_parameter_value"]
    return v == _current(self, net, scenario) and result["activation_parameter"] == "i_ka"


def trips_iff_current_above_pickup(self, net, scenario, result):
    COUNTS["trip_decision"] += 1
    e = EXPECT[id(self)]
    i = _current(self, net, scenario)
    exp = (i * 1000 >= e["pickup_a"]) if e["inclusive"] else (i > e["pickup_ka"])
    return bool(result["trip_melt"]) == bool(exp) and bool(self.has_tripped()) == bool(exp)


def time_nonnegative_if_tripped_else_infinite(self, net, scenario, result):
    COUNTS["trip_time"] += 1
    t = result["trip_melt_time_s"]
    if result["trip_melt"]:
        # +inf is tolerated: the inverse-time formula overflows for currents within a few ulp of the pick-up value
        return bool(t >= 0)
    return t == np.inf


def result_identifies_device(self, net, scenario, result):
    COUNTS["shape"] += 1
    return result["switch_id"] == self.switch_index and result["protection_type"] == type(self).__name__


def _wrap(fn):
    for cond, err in ((result_identifies_device, ResultShapeError), (time_nonnegative_if_tripped_else_infinite, TripTimeError),
                      (trips_iff_current_above_pickup, TripDecisionError),
                      (activation_value_is_switch_current_of_chosen_table, ActivationValueError)):
        fn = icontract.ensure(cond, error=err)(fn)
    return fn


def _fuse_pf(self, net, scenario="sc"):
    return Fuse.protection_function(self, net, scenario)


def _relay_pf(self, net, scenario):
    return OCRelay.protection_function(self, net, scenario)


CHECKED = {"fuse": _wrap(_fuse_pf), "relay": _wrap(_relay_pf)}
CURVES = {"standard_inverse": (0.14, 0.02), "very_inverse": (13.5, 1.), "extremely_inverse": (80., 2.), "long_inverse": (120., 1.)}


# ------------------------------------------------------------------------------------------------------------------ devices
def feeder(g):
    """radial 20 kV feeder in the style of the protection examples: one ext_grid, a switch at the source side of every line"""
    n = g.I(4, 8)
    net = pp.create_empty_network()
    geo = [(0., 0.)]
    parents = [None]
    for i in range(1, n):
        p = g.I(max(0, i - 3), i - 1)
        parents.append(p)
        geo.append((geo[p][0] + g.R(-2, 2), geo[p][1] - 1. - g.R(0, 1)))
    pp.create_buses(net, n, 20., geodata=geo)
    pp.create_ext_grid(net, 0, s_sc_max_mva=g.R(80, 500), s_sc_min_mva=50., rx_max=0.1, rx_min=0.1)
    for i in range(1, n):
        pp.create_line(net, parents[i], i, g.R(0.3, 6.), g.C(["NAYY 4x50 SE", "NA2XS2Y 1x95 RM/25 12/20 kV", "NA2XS2Y 1x240 RM/25 12/20 kV"]))
        pp.create_switch(net, parents[i], i - 1, "l", type="CB")
    net.line["endtemp_degree"] = 250.
    leaves = [i for i in range(n) if i not in parents]
    for b in leaves:
        pp.create_load(net, b, g.R(0.5, 4), g.R(0, 1))
    return net


def make_fuse(g):
    net = pp.create_empty_network()
    b = pp.create_buses(net, 3, g.C([0.4, 20.]))
    pp.create_ext_grid(net, b[0])
    for k in range(2):
        pp.create_line_from_parameters(net, b[k], b[k + 1], 0.5, 0.2, 0.1, 10, 0.3)
        pp.create_switch(net, b[k], k, "l")
    pp.create_switch(net, b[1], b[2], "b")
    sw = g.I(0, 2)
    info = {"kind": "fuse", "switch": sw}
    if g.B(0.5):
        types = pp.available_std_types(net, "fuse")
        name = g.C(list(types.index))
        cs = g.I(0, 1)
        dev = Fuse(net, sw, fuse_type=name, curve_select=cs)
        r = types.loc[name]
        key = "avg" if isinstance(r["t_avg"], (list, tuple, np.ndarray)) else ("min" if cs == 0 else "total")
        x, t = np.asarray(r["x_" + key], float), np.asarray(r["t_" + key], float)
        info.update(std_type=name, curve_select=cs, tag="fuse_std")
    else:
        k = g.I(2, 12)
        x = np.cumprod(1 + g.rng.uniform(0.05, 1.5, k)) * g.R(5, 500)
        t = np.sort(np.exp(g.rng.uniform(np.log(1e-3), np.log(1e4), k)))[::-1].copy()
        if g.B(0.3):   # plateaus are monotone too
            j = g.I(0, k - 2)
            t[j + 1] = t[j]
        if g.B(0.5):
            x = np.round(x)
            x = np.unique(x)
            t = t[:len(x)]
        dev = Fuse(net, sw, rated_i_a=float(x[0]) / 2, name="custom")
        dev.create_characteristic(net, list(map(float, x)), list(map(float, t)))
        info.update(x=x.tolist(), t=t.tolist(), tag="fuse_custom")
    monotone = bool(np.all(np.diff(x) > 0) and np.all(np.diff(t) <= 0))
    EXPECT[id(dev)] = {"pickup_a": float(np.min(x)), "pickup_ka": float(np.min(x)) / 1000., "inclusive": True}
    th = [float(v) / 1000. for v in x]
    return net, dev, info, dict(x=x, t=t, monotone=monotone, thresholds_ka=th, graded=monotone)


def make_relay(g):
    net = feeder(g)
    nsw = len(net.switch)
    sw = g.I(0, nsw - 1)
    line = int(net.switch.element.at[sw])
    typ = g.C(["DTOC", "IDMT", "IDTOC"])
    curve = g.C(list(CURVES))
    kw = dict(curve_type=curve, sc_fraction=g.C([0.95, 0.5, 0.8]))
    manual = g.B(0.4)
    imax = float(net.line.max_i_ka.at[line])
    info = {"kind": "relay", "type": typ, "switch": sw, "curve": curve, "manual_pickup": manual}
    t_gg, t_g, t_diff, tms, t_grade = g.R(0.02, 0.2), g.R(0.3, 1.), g.R(0.1, 0.5), g.R(0.05, 1.5), g.R(0., 0.6)
    if manual:
        I_s = g.R(0.05, 0.4)
        I_g = I_s * g.R(1.05, 3.)
        I_gg = I_g * g.R(1.2, 6.)
        cols = {"DTOC": dict(I_g=I_g, I_gg=I_gg), "IDMT": dict(I_s=I_s), "IDTOC": dict(I_g=I_g, I_gg=I_gg, I_s=I_s)}[typ]
        df = pd.DataFrame({"switch_id": range(nsw)})
        for c, v in cols.items():
            df[c] = [v * (1. if k == sw else g.R(0.5, 2.)) for k in range(nsw)]   # other rows are decoys
        kw["pickup_current_manual"] = df
        picks = cols
    else:
        of, ct, iof, sf = g.R(1.0, 1.5), g.R(1.0, 1.5), g.R(1.0, 1.3), g.R(0.5, 1.)
        kw.update(overload_factor=of, ct_current_factor=ct, inverse_overload_factor=iof, safety_factor=sf)
        picks = {"DTOC": dict(I_g=imax * of * ct), "IDMT": dict(I_s=imax * iof), "IDTOC": dict(I_g=imax * of * ct, I_s=imax * iof)}[typ]
    if typ == "DTOC":
        if g.B(0.4):
            ts = pd.DataFrame({"switch_id": range(nsw), "t_gg": [t_gg] * nsw, "t_g": [t_g + 0.1 * k for k in range(nsw)]})
        else:
            ts = [t_gg, t_g, t_diff]
    elif typ == "IDMT":
        if g.B(0.4):
            ts = pd.DataFrame({"switch_id": range(nsw), "tms": [tms] * nsw, "t_grade": [t_grade + 0.1 * k for k in range(nsw)]})
        else:
            ts = [tms, t_grade]
    else:
        ts = [t_gg, t_g, t_diff, tms, t_grade]
    info["time_settings"] = ts if isinstance(ts, list) else "dataframe"
    info["pickups"] = picks
    dev = OCRelay(net, sw, typ, ts, **kw)
    # thresholds: user side values where known, the device's short-circuit based I>> otherwise (only used to place sweep
    # points and to decide whether the settings are graded - never as the expected trip decision of a manual device)
    cand = dict(picks)
    if typ != "IDMT" and "I_gg" not in cand:
        cand["I_gg"] = float(dev.I_gg)
    pickup = min(cand.values())
    EXPECT[id(dev)] = {"pickup_ka": float(pickup), "pickup_a": float(pickup) * 1000., "inclusive": False}
    graded = True
    if typ in ("DTOC", "IDTOC"):
        graded &= dev.I_g <= dev.I_gg and dev.t_gg <= dev.t_g
    if typ == "IDTOC":
        k, a = CURVES[curve]
        graded &= dev.I_s < dev.I_g
        if graded:
            graded &= dev.t_g <= dev.tms * k / ((dev.I_g / dev.I_s) ** a - 1) + dev.t_grade
    th = sorted(set(float(v) for v in list(cand.values()) + [getattr(dev, n) for n in ("I_s", "I_g", "I_gg") if getattr(dev, n) is not None]))
    return net, dev, info, dict(monotone=True, thresholds_ka=th, graded=bool(graded), x=None, t=None)


def sweep_currents(g, th, n):
    lo, hi = min(th) * 0.2, max(th) * 5.
    cur = list(np.exp(g.rng.uniform(np.log(lo), np.log(hi), n)))
    boundary = []
    for v in th:
        boundary += [v, float(np.nextafter(v, 0)), float(np.nextafter(v, np.inf)), v * (1 - 1e-9), v * (1 + 1e-9)]
    cur += boundary + [0., lo * 1e-3, hi * 100.]
    cur = np.array(cur)
    return cur[g.rng.permutation(len(cur))], len(boundary)


def run_case(seed, tier, case_no):
    g = netgen.G(seed)
    EXPECT.clear()
    before = sum(COUNTS.values())
    try:
        net, dev, info, meta = make_fuse(g) if g.B(0.5) else make_relay(g)
    except Exception as e:  # noqa - device construction is not the observed function
        return common.case(common.sha({"seed": seed}), nontrivial=False, skipped="construct:" + type(e).__name__,
                           sample={"error": repr(e)[:300]})
    kind = info["kind"]
    scenario = g.C(["sc", "pp"])
    tags = {info.get("tag") or "relay_" + info["type"], "scenario_" + scenario}
    if kind == "relay":
        tags.add("manual_pickup" if info["manual_pickup"] else "auto_pickup")
    tags.add("graded" if meta["graded"] else "not_graded_or_not_monotone_data")
    cur, n_boundary = sweep_currents(g, meta["thresholds_ka"], N_CURRENTS[tier])
    idx = net.switch.index
    sw = dev.switch_index
    viols, obs = [], []
    extra = collections.Counter(calls=0, boundary_calls=n_boundary)
    for i in cur:
        # the other table and the other switches carry decoy currents
        dec = g.rng.uniform(0, 3 * max(meta["thresholds_ka"]), (2, len(idx)))
        net["res_switch_sc"] = pd.DataFrame({"ikss_ka": dec[0]}, index=idx)
        net["res_switch"] = pd.DataFrame({"i_ka": dec[1]}, index=idx)
        (net.res_switch_sc if scenario == "sc" else net.res_switch).iloc[list(idx).index(sw), 0] = i
        try:
            res = CHECKED[kind](dev, net, scenario=scenario)
        except (ActivationValueError, TripDecisionError, TripTimeError, ResultShapeError) as e:
            raw = (Fuse if kind == "fuse" else OCRelay).protection_function(dev, net, scenario)
            viols.append(common.viol("%s violated for %s at i=%.12g kA (pick-up %.12g kA): result %s" % (
                type(e).__name__, info, i, EXPECT[id(dev)]["pickup_ka"], {k: raw[k] for k in ("trip_melt", "trip_melt_time_s", "activation_parameter_value")}),
                contract=type(e).__name__, device=info, current_ka=float(i), scenario=scenario))
            if len(viols) > 3:
                break
            continue
        except Exception as e:  # noqa
            viols.append(common.viol("protection_function raised %r at i=%.12g kA for %s" % (e, i, info), device=info, current_ka=float(i)))
            break
        extra["calls"] += 1
        extra["tripped_calls" if res["trip_melt"] else "not_tripped_calls"] += 1
        obs.append((float(i), float(res["trip_melt_time_s"])))
        if res["trip_melt"] and res["trip_melt_time_s"] == np.inf:
            extra["tripped_with_infinite_time"] += 1
    obs.sort()
    nontrivial = bool(obs) and obs[0][1] == np.inf and bool(np.isfinite(obs[-1][1]))
    if meta["graded"] and meta["monotone"]:
        for (i0, t0), (i1, t1) in zip(obs[:-1], obs[1:]):
            extra["monotone_pairs"] += 1
            if t1 > t0 * (1 + 1e-9) + 1e-300:
                viols.append(common.viol("trip time increases with the current: %.12g s at %.12g kA but %.12g s at %.12g kA (%s)" % (
                    t0, i0, t1, i1, info), device=info, pair=[[i0, t0], [i1, t1]]))
                break
    elif kind == "fuse":
        tags.add("nonmonotone_library_data_exempted")
    if kind == "fuse" and meta["monotone"]:
        x, t = meta["x"] / 1000., meta["t"]
        for i, ti in obs:
            if x[0] <= i <= x[-1] and meta["x"][0] <= i * 1000 <= dev.i_stop_a:   # same kA -> A conversion as the device
                k = int(np.searchsorted(x, i, side="right")) - 1
                k = min(k, len(x) - 2)
                extra["bracket_checks"] += 1
                lo_t, hi_t = t[k + 1], t[k]
                if not (lo_t * (1 - 1e-6) <= ti <= hi_t * (1 + 1e-6)):
                    viols.append(common.viol("fuse melt time %.9g s at %.9g A is outside the neighbouring characteristic points "
                                             "(%.9g A: %.9g s, %.9g A: %.9g s)" % (ti, i * 1000, x[k] * 1000, t[k], x[k + 1] * 1000, t[k + 1]),
                                             device=info, current_ka=i))
                    break
    extra["contract_evals"] = sum(COUNTS.values()) - before
    digest = common.sha({"info": info, "scenario": scenario})
    return common.case(digest, nontrivial=nontrivial, tags=tags, violations=viols[:4], sample={"device": info, "scenario": scenario,
                       "n_currents": len(cur)}, evals=extra["calls"], extra=dict(extra))
