"""C23 - result-preserving toolbox transformations preserve power flow results (metamorphic monitor on the real toolbox)."""
import copy

import numpy as np
import pandas as pd
import pandapower as pp
import pandapower.toolbox as tb

from .. import common, pf
from ..gen import netgen
from ..oracles import graph
from .c05 import scrub

PROPERTY = "C23"
READY = True
LEVEL = "exploration"
TECHNIQUE = "runtime monitoring: metamorphic pairs (power flow before / after a toolbox transformation documented as electrically neutral), rows matched through unique names"
CASES = {"quick": 240, "thorough": 10000}
BUDGET = {"quick": 60, "thorough": 1200}
TRANSFORMS = ["continuous_bus_index", "continuous_elements_index", "line_impedance_roundtrip", "ext_grid_by_gen", "ward_by_internal",
              "xward_by_internal", "merge_nets", "select_subnet", "drop_out_of_service", "drop_inactive", "fuse_buses", "merge_parallel_line"]
FLOORS = {"quick": {"nontrivial": 80, "tags": {("T:" + t): 12 for t in TRANSFORMS}, "max_skip_frac": 0.4},
          "thorough": {"nontrivial": 4000, "tags": {("T:" + t): 600 for t in TRANSFORMS}, "max_skip_frac": 0.4}}
RULE = ("seeded random networks with unique element names; the original power flow is compared with the power flow after each of 12 "
        "toolbox transformations applied at seeded applicable targets; buses / lines / trafos / loads are matched by name; "
        "non-trivial = original converged and >= 6 transformations compared; distinct = digest of inputs + options")
ASSUMPTIONS = ["tolerance 1e-6 p.u. / 1e-5 deg / 1e-5*(1+|S|); replace_ext_grid_by_gen: angles relative to the slack bus, only nets whose "
               "ext_grids all have va_degree 0 or a single ext_grid", "replace_line_by_impedance only with only_valid_replace=True (the other "
               "mode documents that it drops c and g)", "fuse_buses only over closed zero-impedance switches whose both buses are in service",
               "select_subnet: an island that contains a slack, compared on its own buses",
               "two differing results that both satisfy the nodal balance are alternate roots (counted, not judged)"]


def name_all(net):
    for el in ("bus", "line", "trafo", "trafo3w", "load", "sgen", "gen", "ext_grid", "ward", "xward", "shunt", "impedance", "storage", "motor"):
        if len(net[el]):
            net[el]["name"] = ["%s%d" % (el, i) for i in net[el].index]


def _cmp(orig, new, opts, what, bus_subset=None, rel_angle=False):
    ob = orig.res_bus.copy()
    ob["name"] = orig.bus.name
    nb = new.res_bus.copy()
    nb["name"] = new.bus.name
    ob = ob.set_index("name")
    nb = nb.set_index("name")
    names = [n for n in ob.index if n in nb.index and (bus_subset is None or n in bus_subset)]
    if not names:
        return "no common buses"
    a, b = ob.loc[names], nb.loc[names]
    if (a.vm_pu.isna().values != b.vm_pu.isna().values).any():
        bad = [n for n, x, y in zip(names, a.vm_pu.isna().values, b.vm_pu.isna().values) if x != y]
        return "NaN pattern differs at %s" % bad[:5]
    if not a.vm_pu.notna().any():
        return None
    dvm = np.nanmax(np.abs(a.vm_pu.values - b.vm_pu.values))
    sva = (a.va_degree.values - b.va_degree.values + 180) % 360 - 180
    if rel_angle:
        # per island: a slack gen has no angle set-point, so each island may be shifted by a constant
        uf, isb = graph.energized_components(orig)
        name_of = orig.bus.name.to_dict()
        root = {name_of[b]: uf.find(b) for b in isb}
        roots = np.array([root.get(n, -1) for n in names])
        for r in set(roots):
            m = (roots == r) & ~np.isnan(sva)
            if m.any():
                sva[m] = sva[m] - np.median(sva[m])
    dva = np.nanmax(np.abs(sva))
    if dvm > 1e-6 or dva > 1e-5:
        return "bus voltages differ: max dvm %.3e p.u., max dva %.3e deg" % (dvm, dva)
    for el, cols in (("line", ["p_from_mw", "q_from_mvar", "p_to_mw", "q_to_mvar"]), ("trafo", ["p_hv_mw", "q_hv_mvar", "p_lv_mw"]),
                     ("load", ["p_mw", "q_mvar"]), ("sgen", ["p_mw", "q_mvar"])):
        if len(orig[el]) and len(new[el]):
            o = orig["res_" + el][cols].copy()
            o["name"] = orig[el].name
            n = new["res_" + el][cols].copy()
            n["name"] = new[el].name
            o, n = o.set_index("name"), n.set_index("name")
            common_ = [x for x in o.index if x in n.index and not n.index.duplicated(keep=False)[list(n.index).index(x)]]
            if common_:
                x, y = o.loc[common_].values.astype(float), n.loc[common_].values.astype(float)
                bad = ~((np.abs(x - y) <= 1e-5 * (1 + np.abs(x))) | (np.isnan(x) & np.isnan(y)) | (np.isnan(x) & (y == 0)) | ((x == 0) & np.isnan(y)))
                if bad.any():
                    r, c = np.argwhere(bad)[0]
                    return "res_%s.%s[%s]: %.9g -> %.9g" % (el, cols[c], common_[r], x[r, c], y[r, c])
    return None


# ------------------------------------------------------------------------------------- transformations (return kwargs for _cmp or None)
def t_continuous_bus_index(net, g):
    # scramble first so that the function has something to do
    m = {b: int(b) * 7 + 100 for b in net.bus.index}
    tb.reindex_buses(net, m)
    tb.create_continuous_bus_index(net, start=g.I(0, 5))
    return {}


def t_continuous_elements_index(net, g):
    for el in ("line", "trafo", "load", "sgen"):
        if len(net[el]):
            tb.reindex_elements(net, el, [int(i) * 3 + 50 for i in net[el].index])
    tb.create_continuous_elements_index(net, start=g.I(0, 3))
    return {}


def t_line_impedance_roundtrip(net, g):
    sw_lines = set(net.switch.element[net.switch.et == "l"].values) if len(net.switch) else set()
    cand = [i for i in net.line.index if i not in sw_lines and net.line.in_service.at[i]]
    if not cand:
        return None
    idx = [int(g.C(cand))]
    # only lines without capacitance / conductance have an exact impedance equivalent (only_valid_replace=True)
    net.line.loc[idx, "c_nf_per_km"] = 0.
    net.line.loc[idx, "g_us_per_km"] = 0.
    ref = scrub(net)
    names = list(net.line.name.loc[idx])
    new_imp = tb.replace_line_by_impedance(net, index=idx, only_valid_replace=True)
    if new_imp is None or not len(new_imp):
        return None
    if g.B(0.5):
        return {"reference": ref}          # line -> impedance only
    new_lines = tb.replace_impedance_by_line(net, index=list(new_imp), only_valid_replace=True)
    if new_lines is None or not len(new_lines):
        return None
    for i, n in zip(list(new_lines), names):
        net.line.at[i, "name"] = n
    return {"reference": ref}


def t_ext_grid_by_gen(net, g):
    eg = net.ext_grid[net.ext_grid.in_service]
    n_slack = len(eg) + (int((net.gen.in_service & net.gen.slack).sum()) if len(net.gen) else 0)
    if n_slack > 1 and (eg.va_degree != 0).any():
        return None      # a slack gen has no angle set-point: several slacks with different angles are outside the domain
    tb.replace_ext_grid_by_gen(net, slack=True)
    return {"rel_angle": True}


def t_ward_by_internal(net, g):
    if not len(net.ward):
        return None
    tb.replace_ward_by_internal_elements(net)
    return {}


def t_xward_by_internal(net, g):
    if not len(net.xward):
        return None
    tb.replace_xward_by_internal_elements(net)
    return {}


def t_merge_nets(net, g):
    other = netgen.rnd_net(int(g.rng.integers(1, 2 ** 31)), "simple", {"sn_choices": (float(net.sn_mva),), "f_hz": (float(net.f_hz),)})
    name_all(other)
    if pf.try_run(pp.runpp, copy.deepcopy(other))[0] != "ok":
        return None      # the second network must be solvable on its own (e.g. no fused gens with different set-points)
    for n_ in (net, other):
        for c_ in ("leakage_resistance_ratio_hv", "leakage_reactance_ratio_hv"):
            n_.trafo[c_] = n_.trafo[c_].fillna(0.5) if c_ in n_.trafo else 0.5
    for el in ("bus", "line", "trafo", "load", "sgen", "gen", "ext_grid"):
        if len(other[el]):
            other[el]["name"] = ["o_" + str(n) for n in other[el].name]
    merged = tb.merge_nets(net, other, validate=False)
    return {"net": merged}


def t_select_subnet(net, g):
    uf, isb = graph.energized_components(net)
    sl = [b for b in graph.slack_buses(net) if b in isb]
    if not sl:
        return None
    root = uf.find(g.C(sl))
    other_supplied = {uf.find(b) for b in sl} - {root}
    # everything except the other supplied islands (dead and out-of-service neighbours stay: open-ended branches matter)
    buses = [b for b in net.bus.index if not (b in isb and uf.find(b) in other_supplied)]
    kept = set(buses)
    for el, cols in (("line", ("from_bus", "to_bus")), ("trafo", ("hv_bus", "lv_bus")), ("trafo3w", ("hv_bus", "mv_bus", "lv_bus")),
                     ("impedance", ("from_bus", "to_bus")), ("dcline", ("from_bus", "to_bus"))):
        t = net[el][net[el].in_service.values] if len(net[el]) else net[el]
        if len(t):
            inside = np.column_stack([t[c].isin(kept).values for c in cols])
            if (inside.any(axis=1) & ~inside.all(axis=1)).any():
                return None      # an in-service (open-ended) branch crosses the cut: the island is not self-contained
    sub = tb.select_subnet(net, buses, include_switch_buses=False, include_results=False)
    return {"net": sub, "bus_subset": set(net.bus.name.loc[[b for b in buses if b in isb and uf.find(b) == root]])}


def t_drop_out_of_service(net, g):
    tb.drop_out_of_service_elements(net)
    return {}


def t_drop_inactive(net, g):
    tb.drop_inactive_elements(net, respect_switches=True)
    return {}


def t_fuse_buses(net, g):
    if not len(net.switch):
        return None
    sw = net.switch[(net.switch.et == "b") & net.switch.closed & ~(net.switch.z_ohm > 0)]
    sw = sw[net.bus.in_service.reindex(sw.bus).values & net.bus.in_service.reindex(sw.element).values]
    if not len(sw):
        return None
    i = g.C(list(sw.index))
    b1, b2 = int(sw.bus.at[i]), int(sw.element.at[i])
    keep_name = net.bus.name.at[b1]
    tb.fuse_buses(net, b1, [b2])
    return {"bus_subset": set(net.bus.name) - {None}}


def t_merge_parallel_line(net, g):
    sw_lines = set(net.switch.element[net.switch.et == "l"].values) if len(net.switch) else set()
    cand = [i for i in net.line.index if i not in sw_lines]
    if not cand:
        return None
    i = int(g.C(cand))
    # create an identical parallel twin, then merge it back
    row = net.line.loc[i].copy()
    j = int(net.line.index.max()) + 1
    net.line.loc[j] = row
    for c in ("from_bus", "to_bus", "parallel"):
        net.line[c] = net.line[c].astype(np.int64)
    net.line["in_service"] = net.line.in_service.astype(bool)
    net.line.at[j, "name"] = "twin"
    ref = scrub(net)          # the reference for this transformation is the net WITH the twin
    tb.merge_parallel_line(net, i)
    return {"reference": ref}


T = {"continuous_bus_index": t_continuous_bus_index, "continuous_elements_index": t_continuous_elements_index,
     "line_impedance_roundtrip": t_line_impedance_roundtrip, "ext_grid_by_gen": t_ext_grid_by_gen, "ward_by_internal": t_ward_by_internal,
     "xward_by_internal": t_xward_by_internal, "merge_nets": t_merge_nets, "select_subnet": t_select_subnet,
     "drop_out_of_service": t_drop_out_of_service, "drop_inactive": t_drop_inactive, "fuse_buses": t_fuse_buses,
     "merge_parallel_line": t_merge_parallel_line}


def classify(name, net, opts, msg, after=None):
    if name == "xward_by_internal" and float(net.sn_mva) != 1.0 and len(net.xward) and net.xward.in_service.any():
        return "replace_xward_impedance_ignores_sn_mva"
    if name == "drop_inactive" and after is not None:
        # F21: the toolbox drops in-service branches that hang on an out-of-service bus (all branch types) or - for transformers,
        # trafo3w and impedances, which have no open-switch handling there - on an unsupplied bus; the power flow keeps them as
        # open-ended branches. Lines at an unsupplied bus behind their own open line switch are kept by the toolbox (correctly).
        sup, _isb = graph.supplied_buses(net)
        oos = set(net.bus.index[~net.bus.in_service.values])
        unsup = set(net.bus.index) - set(sup)
        explained = unexplained = 0
        for el, cols in (("line", ("from_bus", "to_bus")), ("trafo", ("hv_bus", "lv_bus")), ("trafo3w", ("hv_bus", "mv_bus", "lv_bus")),
                         ("impedance", ("from_bus", "to_bus"))):
            if not len(net[el]):
                continue
            kept = set(after[el].name) if len(after[el]) else set()
            t = net[el][net[el].in_service.values]
            for i, r in t.iterrows():
                if r["name"] in kept:
                    continue
                ends = [int(r[c]) for c in cols]
                et = {"line": "l", "trafo": "t", "trafo3w": "t3"}.get(el)
                opened = set(net.switch.bus[(net.switch.et == et) & (net.switch.element == i) & ~net.switch.closed].values) if et and len(net.switch) else set()
                if all((e in unsup) or (e in opened) for e in ends):
                    continue                      # no live terminal: dropping it changes nothing
                if any(e in oos for e in ends) or (el != "line" and any(e in unsup for e in ends)):
                    explained += 1
                else:
                    unexplained += 1
        if explained and not unexplained:
            return "drop_inactive_drops_open_ended_branch"
    return None


def balanced(net):
    from ..oracles import balance
    try:
        return max(abs(m) for _g, m, _s, _k, e in balance.nodal_mismatch(net)[0] if e) < 1e-5
    except Exception:  # noqa
        return False


def run_case(seed, tier, case_no):
    g = netgen.G(seed)
    profile = g.C(["full_mix", "multi_island", "weakly_meshed", "transmission"])
    net = netgen.rnd_net(seed, profile, {"dcline": 0.0, "ward": 0.8, "xward": 0.6, "bb_sw": 0.9, "z_sw": 0.2})
    name_all(net)
    opts = {"tolerance_mva": 1e-9}
    if g.B(0.5):
        opts["calculate_voltage_angles"] = g.B(0.7)
    if g.B(0.3):
        opts["trafo_model"] = g.C(["t", "pi"])
    base = scrub(net)
    st, exc = pf.try_run(pp.runpp, net, **opts)
    digest = common.net_digest(net, opts)
    sample = {"profile": profile, "net": netgen.describe(net), "options": opts}
    if st != "ok":
        return common.case(digest, nontrivial=False, skipped=st, sample=sample)
    tags, viols, compared, alt = set(), [], 0, 0
    for k, name in enumerate(TRANSFORMS):
        n2 = copy.deepcopy(base)
        g2 = netgen.G((seed + 104729 * (k + 1)) % (2 ** 63))
        try:
            info = T[name](n2, g2)
        except Exception as e:  # the toolbox raised on a valid input: recorded, judged only by C22/C24-style monitors
            tags.add("raised:" + name)
            continue
        if info is None:
            continue
        ref = net
        if "reference" in info:
            ref = info["reference"]
            if pf.try_run(pp.runpp, ref, **opts)[0] != "ok":
                continue
        n2 = info.get("net", n2)
        st2, e2 = pf.try_run(pp.runpp, n2, **opts)
        if st2 != "ok":
            if st2 == "notconv":
                tags.add("notconv_after:" + name)
                continue
            mech = classify(name, base, opts, st2, n2)
            viols.append(common.viol("%s: original converged, transformed net ended with %s (%r)" % (name, st2, e2), mechanism=mech, options=opts, transform=name))
            continue
        msg = _cmp(ref, n2, opts, name, bus_subset=info.get("bus_subset"), rel_angle=info.get("rel_angle", False))
        compared += 1
        tags.add("T:" + name)
        if False:
            alt += 1
            msg = None
        if msg:
            viols.append(common.viol("%s: %s" % (name, msg), mechanism=classify(name, base, opts, msg, n2), options=opts, transform=name))
    sample["compared"] = compared
    return common.case(digest, nontrivial=compared >= 6, tags=tags, violations=viols[:6], sample=sample, evals=compared, extra={"compared": compared})
