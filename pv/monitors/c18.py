"""C18 - short-circuit results are consistent with the IEC 60909 relations and with an independent Thevenin model."""
import copy

import numpy as np
import pandapower as pp
import pandapower.shortcircuit as sc

from .. import common
from ..gen import netgen
from ..oracles import iec60909

PROPERTY = "C18"
READY = True
TECHNIQUE = ("runtime monitoring: every calc_sc result row checked against the IEC 60909 relations, an independent ohmic "
             "Thevenin model and re-executions with changed sn_mva / inverse_y / faulted-bus subset")
LEVEL = "exploration"
CASES = {"quick": 1200, "thorough": 30000}
BUDGET = {"quick": 60, "thorough": 1200}
CASE_TIMEOUT = 60
FLOORS = {"quick": {"nontrivial": 600, "max_skip_frac": 0.1,
                    "tags": {"case:min": 250, "case:max": 250, "fault:2ph": 150, "fault:1ph": 80, "fault_impedance": 150,
                             "kappa_ref:C": 80, "kappa_ref:radial": 120, "multi_gen_node": 100, "current_sources": 80,
                             "v:sn_mva": 400, "v:inverse_y": 400, "v:subset": 400, "v:2ph_3ph": 300, "topology:auto": 150, "kappa:B": 150},
                    "extras": {"ref_rows": 5000, "variant_runs": 1500, "kappa_ref_rows": 600}},
          "thorough": {"nontrivial": 15000, "max_skip_frac": 0.1,
                       "tags": {"case:min": 6000, "fault:2ph": 4000, "fault:1ph": 2000, "fault_impedance": 4000, "kappa_ref:C": 2000,
                                "kappa_ref:radial": 3000, "multi_gen_node": 2500, "current_sources": 2000, "v:sn_mva": 10000,
                                "v:inverse_y": 10000, "v:subset": 10000, "v:2ph_3ph": 7000},
                       "extras": {"ref_rows": 120000, "variant_runs": 40000, "kappa_ref_rows": 15000}}}
RULE = ("one case = one seeded random network (netgen profiles simple/full_mix/weakly_meshed/transmission/dist_radial; lines, 2W/3W "
        "transformers with off-nominal rated voltages and parallel units, bus-bus and branch switches, out-of-service elements, "
        "several ext_grids, generators with own rated voltage / xdss / cos_phi / pg_percent incl. several per bus, symmetric "
        "impedance elements, loads/shunts/storages, sgens as current sources with k >= 0, zero-sequence data) x one option vector "
        "(case min/max, fault 3ph/2ph/1ph, lv_tol_percent, fault impedance, ip/ith, topology, kappa method); every result row is "
        "an oracle evaluation; 2-4 re-executions per case (net.sn_mva changed, inverse_y=False, faulted-bus subset, other fault "
        "type). Non-trivial = at least one row compared with the reference network; distinct = digest of input tables + options")
ASSUMPTIONS = [
    "reference network pv/oracles/iec60909.py: ohmic nodal matrix from the element tables and the documented models "
    "(doc/shortcircuit/*.rst; K_G with Un/UrG as in IEC 60909-0 eq. 18 - the rst has the ratio inverted), dense inverse per case",
    "relative tolerance 1e-8 for the algebraic relations and the Thevenin impedance (observed agreement 1e-15), 1e-7 between two "
    "executions (1e-6 for 1ph, rows with a floating zero-sequence network |Z0| > 100 |Z1| not compared)",
    "rows with current-source contribution (case max, sgen.k > 0) are only checked for ikss >= voltage-source part, skss and the "
    "invariances; peak factor compared with the closed forms for topology='radial' (R/X of the reported Zk) and method C without "
    "generators (equivalent frequency on the reference network), otherwise only 1.02 <= kappa <= 2",
    "out of domain: ward/xward/dcline/motor/z-switches/asymmetric impedances/power-station units (no documented short-circuit model), "
    "use_pre_fault_voltage, branch results (documented as beta); 1ph only with vector groups Dyn/YNyn/Yzn and YNyd 3W transformers",
    "unsupplied islands that pandapower does not detect (in-service bus behind an out-of-service bus, dangling trafo3w side) give a "
    "singular matrix or ikss ~ 1e-15: skipped / not compared (C07 domain), bounded by max_skip_frac",
]

OVR = dict(ward=0., xward=0., dcline=0., z_sw=0., asym=0., motor=0., imp=0., slack_gen=0., extra_island=0., eg_oos=0.)
PROFILES = ["simple", "full_mix", "weakly_meshed", "transmission", "dist_radial", "full_mix"]
RTOL = 1e-8


def sc_net(seed):
    """random network with short-circuit data; returns (net, profile, g)"""
    g = netgen.G(seed ^ 0x5C18)
    profile = g.C(PROFILES)
    net = netgen.rnd_net(seed, profile, OVR)
    R, B, C = g.R, g.B, g.C
    n = len(net.ext_grid)
    net.ext_grid["s_sc_max_mva"] = [R(300, 6000) for _ in range(n)]
    net.ext_grid["rx_max"] = [R(0.05, 0.6) for _ in range(n)]
    net.ext_grid["s_sc_min_mva"] = [float(s) * R(0.4, 0.95) for s in net.ext_grid.s_sc_max_mva]
    net.ext_grid["rx_min"] = [R(0.05, 0.6) for _ in range(n)]
    net.line["endtemp_degree"] = [R(20, 250) for _ in range(len(net.line))]
    if len(net.gen):
        vn = net.bus.vn_kv.loc[net.gen.bus.values].values
        net.gen["vn_kv"] = [float(v) * float(C([1., 1., 1.05, 0.95, 1.1])) for v in vn]
        net.gen["sn_mva"] = [R(2, 150) for _ in vn]
        net.gen["xdss_pu"] = [R(0.1, 0.35) for _ in vn]
        net.gen["rdss_ohm"] = [R(0.001, 0.05) * float(v) ** 2 / 50. for v in vn]
        net.gen["cos_phi"] = [R(0.75, 1.0) for _ in vn]
        if B(0.3):
            net.gen["pg_percent"] = [R(0, 10) if B(0.5) else np.nan for _ in vn]
    if len(net.sgen):
        k = R(1.0, 1.5) if B(0.35) else 0.
        net.sgen["k"] = [k * R(0.8, 1.2) for _ in range(len(net.sgen))]
        net.sgen["sn_mva"] = np.maximum(np.abs(net.sgen.p_mw.values) * 1.2, 0.01)
    # a symmetric series impedance on the medium voltage level (considered as in the power flow)
    mv = [int(b) for b in net.bus.index[(net.bus.vn_kv == 20.) & net.bus.in_service]]
    if len(mv) >= 2 and B(0.3):
        a, b = g.rng.choice(mv, 2, replace=False)
        pp.create_impedance(net, int(a), int(b), rft_pu=R(0.001, 0.05), xft_pu=R(0.01, 0.1), sn_mva=R(5, 50))
    # zero-sequence data (only used by fault="1ph")
    net.line["r0_ohm_per_km"] = net.line.r_ohm_per_km.values * R(2, 4)
    net.line["x0_ohm_per_km"] = net.line.x_ohm_per_km.values * R(2, 4)
    net.line["c0_nf_per_km"] = net.line.c_nf_per_km.values * 0.6
    for col in ("x0x_max", "x0x_min"):
        net.ext_grid[col] = R(0.5, 3)
    for col in ("r0x0_max", "r0x0_min"):
        net.ext_grid[col] = R(0.1, 0.5)
    yzn = B(0.2)
    net.trafo["vector_group"] = [C(["Dyn", "YNyn", "Yzn"] if yzn else ["Dyn", "YNyn"]) for _ in range(len(net.trafo))]
    net.trafo["vk0_percent"] = net.trafo.vk_percent.values * R(0.8, 1.0)
    net.trafo["vkr0_percent"] = net.trafo.vkr_percent.values * R(0.8, 1.0)
    net.trafo["mag0_percent"] = 100.
    net.trafo["mag0_rx"] = 0.
    net.trafo["si0_hv_partial"] = 0.9
    if len(net.trafo3w):
        for s_ in ("hv", "mv", "lv"):
            net.trafo3w["vk0_%s_percent" % s_] = net.trafo3w["vk_%s_percent" % s_].values
            net.trafo3w["vkr0_%s_percent" % s_] = net.trafo3w["vkr_%s_percent" % s_].values
        net.trafo3w["vector_group"] = "YNyd"
    return net, profile, g


def try_sc(net, **kw):
    try:
        sc.calc_sc(net, **kw)
        return "ok", None
    except np.linalg.LinAlgError as e:
        return "singular", e
    except Exception as e:  # noqa
        return ("singular" if "singular" in str(e).lower() else "exc"), e


def kappa_ref(net, case, tol, zf, method, bus):
    """reference peak factor at bus for method C (equivalent frequency fc = 0.4 f)"""
    def k(rx):
        return 1.02 + 0.98 * np.exp(-3 * rx)
    zc = iec60909.Model(net, case, tol, peak=True, f_scale=0.4).thevenin()[bus] + complex(zf.real, zf.imag)
    return k(zc.real / zc.imag * 0.4)


def run_case(seed, tier, case_no):
    net, profile, g = sc_net(seed)
    case = g.C(["max", "min"])
    fault = g.C(["3ph", "3ph", "3ph", "2ph", "2ph", "1ph"])
    if fault == "1ph" and len(net.impedance):
        net.impedance.drop(net.impedance.index, inplace=True)       # no zero-sequence data for impedance elements
    tol = g.C([10, 10, 6])
    opts = dict(case=case, fault=fault, lv_tol_percent=tol, ip=True, ith=g.B(0.5))
    if g.B(0.3):
        opts.update(r_fault_ohm=g.R(0, 0.5), x_fault_ohm=g.R(0, 0.5) if g.B(0.7) else 0.)
    opts["topology"] = g.C(["auto", "radial", "meshed"])
    opts["kappa_method"] = g.C(["C", "C", "B"])
    sample = {"profile": profile, "net": netgen.describe(net), "options": opts}
    tags = {"profile:" + profile, "case:" + case, "fault:" + fault, "topology:" + opts["topology"], "kappa:" + opts["kappa_method"]}
    digest = common.net_digest(net, {"o": opts})
    base = copy.deepcopy(net)
    st, exc = try_sc(base, **opts)
    if st != "ok":
        # (singular matrix: unsupplied island that the connectivity check misses, e.g. behind an out-of-service bus - C07 domain)
        return common.case(digest, nontrivial=False, tags=tags, skipped="calc_sc_%s" % type(exc).__name__, sample=sample)
    res = base.res_bus_sc
    viols = []
    extra = {"rows": 0, "ref_rows": 0, "variant_runs": 0}
    wit = dict(options=opts, seed=seed, profile=profile)
    current_sources = case == "max" and len(net.sgen) and bool((net.sgen.in_service & (net.sgen.k > 0)).any())
    if current_sources:
        tags.add("current_sources")
    zf = complex(opts.get("r_fault_ohm", 0.), opts.get("x_fault_ohm", 0.))
    if zf != 0:
        tags.add("fault_impedance")
    # ---- per-row relations -----------------------------------------------------------------------------------------------
    ref = iec60909.Model(net, case, tol).thevenin()
    # defect model of the known finding kg_shared_per_bus (only different from ref when >= 2 generators share a node)
    ref_kg = iec60909.Model(net, case, tol, kg_last_per_bus=True).thevenin()
    multi_gen = any(abs(ref_kg[b] - ref[b]) > 1e-10 * abs(ref[b]) for b in ref)
    if multi_gen:
        tags.add("multi_gen_node")
    un = net.bus.vn_kv
    rows = res[res.ikss_ka.notna()]
    worst = {}
    kg_rows = []

    def note(name, err, bus, **kw):
        if not np.isfinite(err) or err > RTOL:
            if name not in worst or not np.isfinite(err) or err > worst[name][0]:
                worst[name] = (float(err), int(bus), kw)

    for b, r in rows.iterrows():
        extra["rows"] += 1
        if b not in ref and not r.ikss_ka > 1e-9:
            tags.add("dead_island_row")      # ikss ~ 0 instead of NaN in an unsupplied island (C07 domain), not judged here
            continue
        c = iec60909.c_factor(float(un.at[b]), case, tol)
        zk = complex(r.rk_ohm, r.xk_ohm)
        div = np.sqrt(3) if fault != "2ph" else 2.
        ik1 = c * un.at[b] / (div * abs(zk))
        if fault == "1ph":
            z0 = complex(r.rk0_ohm, r.xk0_ohm)
            ik1 = np.sqrt(3) * c * un.at[b] / abs(2 * zk + z0)
            if not current_sources and np.isfinite(abs(z0)):
                note("ikss_ka != sqrt(3)*c*Un/|2*Zk+Zk0| (1ph)", abs(r.ikss_ka - ik1) / ik1, b, ikss_ka=r.ikss_ka, expected=ik1)
        elif not current_sources:
            note("ikss_ka != c*Un/(%s*|rk+jxk|)" % ("sqrt(3)" if fault == "3ph" else "2"), abs(r.ikss_ka - ik1) / ik1, b,
                 ikss_ka=r.ikss_ka, expected=ik1)
        elif r.ikss_ka < ik1 * (1 - RTOL):
            note("ikss_ka smaller than the voltage-source contribution", (ik1 - r.ikss_ka) / ik1, b, ikss_ka=r.ikss_ka, expected=ik1)
        if "skss_mw" in rows.columns:
            sk = (np.sqrt(3) if fault == "3ph" else 1 / np.sqrt(3)) * un.at[b] * r.ikss_ka
            note("skss_mw != sqrt(3)*Un*ikss (3ph) / Un*ikss/sqrt(3) (2ph)", abs(r.skss_mw - sk) / sk, b, skss_mw=r.skss_mw, expected=sk)
        if b in ref:
            extra["ref_rows"] += 1
            zr = ref[b] + zf
            err = abs(zk - zr) / abs(zr)
            if err > RTOL and multi_gen and abs(zk - (ref_kg[b] + zf)) <= RTOL * abs(zr):
                # quantitatively explained: pandapower's value equals the network in which all generators of a node share
                # the correction factor K_G of the last generator row
                kg_rows.append((float(err), int(b)))
            else:
                note("Thevenin impedance rk+jxk differs from the reference network", err, b, zk=[zk.real, zk.imag],
                     expected=[zr.real, zr.imag])
        else:
            note("short-circuit current at a bus that is not supplied by any voltage source", np.inf, b, ikss_ka=r.ikss_ka)
        if not current_sources and "ip_ka" in rows.columns and np.isfinite(r.ip_ka):
            kappa = r.ip_ka / (np.sqrt(2) * r.ikss_ka)
            if not (1.02 - 1e-9 <= kappa <= 2.0 + 1e-9):
                note("peak factor ip/(sqrt(2)*ikss) outside [1.02, 2]", abs(kappa - 1.5), b, kappa=kappa)
    dead_island = len(ref) < int(net.bus.in_service.sum())
    for b in ref:
        if b not in rows.index:
            note("no result at a bus supplied by a voltage source", np.inf, b)
    # peak factor against the reference for the two documented closed-form variants (sampled buses; no generators for
    # method C because the fictitious generator resistances make the reference ambiguous there)
    if not current_sources and len(rows) and "ip_ka" in rows.columns and fault != "1ph":
        # (several ext_grids at one bus are merged into one bus admittance before pandapower scales it to the equivalent frequency,
        # which is not the parallel connection of the scaled elements when their R/X differ: outside the closed-form reference)
        from ..oracles import balance
        grp = {b_: k for k, members in enumerate(balance.fused_groups(net)) for b_ in members}
        eg = [grp[b_] for b_ in net.ext_grid.bus[net.ext_grid.in_service.values].values]
        co_located = len(eg) != len(set(eg))
        if co_located:
            tags.add("co_located_ext_grids")
        method = "radial" if opts["topology"] == "radial" else \
            ("C" if opts["kappa_method"] == "C" and not len(net.gen) and not co_located else None)
        if method:
            tags.add("kappa_ref:" + method)
            for b in g.rng.choice(rows.index.values, size=min(3, len(rows)), replace=False):
                b = int(b)
                if b not in ref:
                    continue
                kr = kappa_ref(net, case, tol, zf, method, b) if method == "C" else \
                    1.02 + 0.98 * np.exp(-3 * rows.rk_ohm.at[b] / rows.xk_ohm.at[b])
                kappa = rows.ip_ka.at[b] / (np.sqrt(2) * rows.ikss_ka.at[b])
                extra["kappa_ref_rows"] = extra.get("kappa_ref_rows", 0) + 1
                note("peak factor differs from the documented formula (%s)" % method, abs(kappa - kr) / kr, b, kappa=kappa, expected=kr)
    if kg_rows:
        err, b = max(kg_rows)
        viols.append(common.viol("Thevenin impedance at bus %d differs from the reference by %.3e: all generators of a bus get the "
                                 "K_G of the last generator row" % (b, err), mechanism="kg_shared_per_bus", bus=b,
                                 n_rows=len(kg_rows), **wit))
    for name, (err, b, kw) in worst.items():
        viols.append(common.viol("%s at bus %d (rel. error %.3e)" % (name, b, err), bus=b, **kw, **wit))
    # ---- re-executions ---------------------------------------------------------------------------------------------------
    def compare(name, other, buses=None):
        extra["variant_runs"] += 1
        a = res if buses is None else res.loc[buses]
        o = other.res_bus_sc
        if list(a.index) != list(o.index) or list(a.columns) != list(o.columns):
            viols.append(common.viol("res_bus_sc has different rows/columns with %s" % name, **wit))
            return
        if not len(a):
            return
        if dead_island:       # rows of unsupplied islands carry numerical garbage (ikss ~ 1e-15): not compared
            keep = [b_ in ref for b_ in a.index]
            a, o = a[keep], o[keep]
        av, ov = a.values.astype(float), o.values.astype(float)
        rtol = 1e-7
        if fault == "1ph":
            # buses whose zero-sequence network floats (only line capacitances to earth) are badly conditioned: not compared
            floating = ~(np.abs(a.rk0_ohm.values + 1j * a.xk0_ohm.values) <= 100 * np.abs(a.rk_ohm.values + 1j * a.xk_ohm.values))
            av, ov = av[~floating], ov[~floating]
            a, o = a[~floating], o[~floating]
            rtol = 1e-6
            if not len(a):
                return
        if (np.isnan(av) != np.isnan(ov)).any():
            viols.append(common.viol("res_bus_sc has NaN in different cells with %s" % name, **wit))
            return
        d = np.abs(av - ov) / np.maximum(np.abs(av), 1e-12)
        if np.nanmax(d, initial=0.) > rtol:
            i, j = np.unravel_index(np.nanargmax(d), d.shape)
            mech = None
            if name.startswith("net.sn_mva") and fault == "1ph" and yzn_active and \
                    np.nanmax(d[:, [list(a.columns).index(c_) for c_ in ("rk_ohm", "xk_ohm")]], initial=0.) <= rtol:
                mech = "yzn_zero_sequence_depends_on_sn_mva"
            if name.startswith("net.sn_mva") and opts["kappa_method"] == "B" and opts["topology"] == "auto" and \
                    kappa_b_auto_explains(a, o):
                mech = "kappa_b_auto_depends_on_sn_mva"
            viols.append(common.viol("res_bus_sc.%s at bus %s changes with %s: %.9g vs %.9g" % (
                a.columns[j], a.index[i], name, av[i, j], ov[i, j]), mechanism=mech, **wit))

    def kappa_b_auto_explains(a, o):
        """only ip_ka / ith_ka differ, and in every differing row both peak factors are one of the two values method B can give:
        clip(kappa(R/X), 1, kmax) and clip(1.15 * kappa(R/X), 1, kmax) - i.e. only the meshed/non-meshed decision flipped"""
        cols = [c_ for c_ in a.columns if c_ not in ("ip_ka", "ith_ka")]
        if not np.allclose(a[cols].values.astype(float), o[cols].values.astype(float), rtol=1e-7, atol=0, equal_nan=True):
            return False
        for b in a.index[a.ip_ka.notna()]:
            if abs(a.ip_ka.at[b] - o.ip_ka.at[b]) <= 1e-7 * abs(a.ip_ka.at[b]):
                continue
            zk = complex(a.rk_ohm.at[b], a.xk_ohm.at[b])
            ik1 = iec60909.c_factor(float(un.at[b]), case, tol) * un.at[b] / ((np.sqrt(3) if fault == "3ph" else 2.) * abs(zk))
            ik2 = a.ikss_ka.at[b] - ik1
            kb = 1.02 + 0.98 * np.exp(-3 * zk.real / zk.imag)
            kmax = 1.8 if un.at[b] < 1. else 2.0
            allowed = [min(max(kb, 1.), kmax), min(max(1.15 * kb, 1.), kmax)]
            for t_ in (a, o):
                kap = (t_.ip_ka.at[b] / np.sqrt(2) - ik2) / ik1
                if min(abs(kap - x) for x in allowed) > 1e-7:
                    return False
        return True

    yzn_active = bool(len(net.trafo) and (net.trafo.in_service & (net.trafo.vector_group.str.lower() == "yzn")).any())
    if fault == "1ph" and yzn_active:
        tags.add("1ph_yzn")
    variants = list(g.rng.permutation(["sn_mva", "inverse_y", "subset", "other_fault"])[:g.I(2, 4)])
    if ((opts["kappa_method"] == "B" and opts["topology"] == "auto") or fault == "1ph") and "sn_mva" not in variants:
        variants.append("sn_mva")
    def rerun(n2, what, **kw):
        """True if the variant ran; failures are violations unless the (almost) singular matrix of a dead island explains them"""
        st2, e2 = try_sc(n2, **kw)
        if st2 == "ok":
            return True
        if st2 == "singular" and dead_island:
            tags.add("dead_island_singular")
            return False
        viols.append(common.viol("calc_sc fails %s: %s: %s" % (what, type(e2).__name__, e2), **wit))
        return False

    for v in variants:
        n2 = copy.deepcopy(net)
        if v == "sn_mva":
            n2.sn_mva = float(net.sn_mva) * g.C([0.01, 0.1, 10., 3.7, 100.])
            tags.add("v:sn_mva")
            if rerun(n2, "after changing net.sn_mva", **opts):
                compare("net.sn_mva = %g instead of %g" % (n2.sn_mva, net.sn_mva), n2)
        elif v == "inverse_y":
            tags.add("v:inverse_y")
            if rerun(n2, "with inverse_y=False", inverse_y=False, **opts):
                compare("inverse_y=False", n2)
        elif v == "subset":
            tags.add("v:subset")
            k = g.I(1, max(1, len(net.bus) // 2))
            buses = sorted(int(b) for b in g.rng.choice(net.bus.index.values, size=k, replace=False))
            arg = buses[0] if (k == 1 and g.B(0.5)) else buses
            if rerun(n2, "for bus=%s" % (arg,), bus=arg, inverse_y=g.B(0.7), **opts):
                compare("bus=%s" % (arg,), n2, buses)
        elif v == "other_fault" and not current_sources and fault != "1ph":
            tags.add("v:2ph_3ph")
            o2 = dict(opts, fault="2ph" if fault == "3ph" else "3ph")
            if rerun(n2, "for fault=%s" % o2["fault"], **o2):
                extra["variant_runs"] += 1
                a, o = res.ikss_ka, n2.res_bus_sc.ikss_ka
                ok_rows = (a > 1e-9) & (o > 1e-9)
                ratio = ((a / o) if fault == "2ph" else (o / a))[ok_rows]
                err = np.abs(ratio.dropna() - np.sqrt(3) / 2)
                if len(err) and err.max() > 1e-8:
                    viols.append(common.viol("ikss(2ph)/ikss(3ph) = %.9f at bus %s, not sqrt(3)/2" % (
                        ratio.loc[err.idxmax()], err.idxmax()), **wit))
    return common.case(digest, nontrivial=extra["ref_rows"] > 0, tags=tags, violations=viols, sample=sample, extra=extra,
                       evals=extra["rows"] + extra["variant_runs"])
