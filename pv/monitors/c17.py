"""C17 - OPF minimises exactly the user-defined cost functions (res_cost = user cost at the result; DC optimum = reference)."""
import copy

import numpy as np
import pandapower as pp
from pandapower.auxiliary import OPFNotConverged

from .. import common
from ..gen import netgen, opfgen
from ..oracles import dcopf

PROPERTY = "C17"
READY = True
TECHNIQUE = ("runtime monitoring: res_cost of every converged runopp/rundcopp compared with the user's poly/pwl cost functions "
             "evaluated at the result powers; DC-OPF optimum compared with an independent LP/QP reference (scipy HiGHS / "
             "trust-constr on an own B-matrix model)")
LEVEL = "exploration"
CASES = {"quick": 500, "thorough": 12000}
BUDGET = {"quick": 60, "thorough": 1200}
CASE_TIMEOUT = 90
FLOORS = {"quick": {"nontrivial": 180, "max_skip_frac": 0.45,
                    "tags": {"ac": 90, "dc": 90, "dc_ref": 60, "cost:quadratic": 60, "cost:pwl": 30, "cost:pwl_and_linear": 35,
                             "cost:linear": 60, "cost_on:load": 150, "cost_on:storage": 60, "cost_on:sgen": 100,
                             "cost_on:ext_grid": 150, "cost_on:gen": 150, "cost_on:dcline": 12,
                             "c2_or_c0_on_load_storage_dcline": 100},
                    "extras": {"cost_entries": 1500, "dc_reference": 60}},
          "thorough": {"nontrivial": 4500, "max_skip_frac": 0.45,
                       "tags": {"ac": 2000, "dc": 2000, "dc_ref": 1400, "cost:quadratic": 1400, "cost:pwl": 700,
                                "cost_on:load": 3500, "cost_on:storage": 1400, "cost_on:dcline": 300,
                                "c2_or_c0_on_load_storage_dcline": 2400},
                       "extras": {"cost_entries": 36000, "dc_reference": 1400}}}
RULE = ("one case = one seeded feasible-by-construction OPF problem (pv/gen/opfgen.py) with random costs on ext_grid, gen and the "
        "controllable sgen/load/storage/dcline elements: linear or quadratic polynomials with constant terms (p and q), convex "
        "piecewise linear functions with 1-3 segments, or both kinds mixed; runopp or rundcopp (50/50). Non-trivial = converged "
        "and res_cost judged; for rundcopp additionally the optimum of the same problem from the reference solver")
ASSUMPTIONS = [
    "user cost = sum over all cost rows of c2*x^2 + c1*x + c0 (p and q part) or of the pwl function at the element's own result power "
    "(load/storage: consumption, dcline: p_from_mw); pwl convention of create_pwl_cost: slope c_k between p_k and p_k+1, the first "
    "segment's line passes through the origin",
    "tolerance 1e-6 relative to the sum of |cost terms| (+ 5e-6 p.u. x sn_mva x sum of max |slope| for pwl epigraph variables)",
    "DC reference: own B-matrix model (lines, 2W transformers with ratio taps, shunts, fused buses), validated against rundcpp of the "
    "same network to 1e-7 rad before use (otherwise tag dc_ref_model_mismatch / dc_ref_unsupported and no optimum comparison); "
    "LP by HiGHS, convex QP by trust-constr started from the LP vertex; optimum gap tolerance 2e-5 relative",
    "costs are only put on elements that are part of the optimisation (ext_grid, gen, controllable sgen/load/storage, dcline)",
    "OPF non-convergence is skipped (documented weak spot), bounded by max_skip_frac; pwl mixed with quadratic is a documented refusal",
]

FLIPPED = ("load", "storage", "dcline")


def run_opf(net, dc, **kw):
    try:
        (pp.rundcopp if dc else pp.runopp)(net, **kw)
        return "ok", None
    except OPFNotConverged as e:
        return "notconv", e
    except Exception as e:  # noqa
        return "exc", e


def sign_defect_delta(net):
    """res_cost - user cost predicted by the sign defect of make_objective._fill_gencost_poly: for load / storage (p and q part)
    and dcline (p part) all three coefficients are multiplied by -1 although only the linear one changes sign when the element
    is modelled as a negative generator: objective = -c2 x^2 + c1 x - c0 instead of c2 x^2 + c1 x + c0"""
    d = 0.
    for _, c in net.poly_cost.iterrows():
        if c.et not in FLIPPED:
            continue
        i = int(c.element)
        if c.et == "dcline":
            p, q = float(net.res_dcline.p_from_mw.at[i]), 0.
        else:
            p, q = float(net["res_" + c.et].p_mw.at[i]), float(net["res_" + c.et].q_mvar.at[i])
            if not bool(net[c.et].controllable.at[i]):
                continue
        if not np.isfinite(q):
            q = 0.
        d -= 2 * c.cp2_eur_per_mw2 * p ** 2 + 2 * c.cp0_eur
        if c.et != "dcline":
            d -= 2 * c.cq2_eur_per_mvar2 * q ** 2 + 2 * c.cq0_eur
    return d


def compensated(net):
    """copy of net in which the c2 / c0 coefficients of load, storage and dcline costs are negated (so that the defective
    objective of pandapower becomes the user's one)"""
    n2 = copy.deepcopy(net)
    m = n2.poly_cost.et.isin(FLIPPED)
    for col in ("cp2_eur_per_mw2", "cp0_eur", "cq2_eur_per_mvar2", "cq0_eur"):
        n2.poly_cost.loc[m, col] = -n2.poly_cost.loc[m, col]
    return n2


def cost_pieces(net):
    polys = {(c.et, int(c.element)): c for _, c in net.poly_cost.iterrows()}
    pwls = {(c.et, int(c.element)): c for _, c in net.pwl_cost.iterrows() if c.power_type == "p"}

    def fn(et, i):
        if (et, i) in polys:
            c = polys[(et, i)]
            return "poly", float(c.cp2_eur_per_mw2), float(c.cp1_eur_per_mw), float(c.cp0_eur)
        if (et, i) in pwls:
            return "pwl", [list(map(float, p)) for p in pwls[(et, i)].points]
        return None
    return fn


def user_cost_at(net, result_net):
    """user cost of `net` evaluated at the result powers of result_net"""
    saved = result_net.poly_cost, result_net.pwl_cost
    try:
        result_net["poly_cost"], result_net["pwl_cost"] = net.poly_cost, net.pwl_cost
        return opfgen.user_cost(result_net)
    finally:
        result_net["poly_cost"], result_net["pwl_cost"] = saved


def run_case(seed, tier, case_no):
    g = netgen.G(seed)
    dc = g.B(0.5)
    net, info = opfgen.build(seed, dc=dc)
    tags = {"dc" if dc else "ac", "base:" + info["base"]}
    if net is None:
        return common.case(common.sha([seed, info]), nontrivial=False, tags=tags, skipped=info["skip"], sample=info)
    if dc and len(net.dcline):
        net.dcline.drop(net.dcline.index, inplace=True)       # DC lines in the DC-OPF never converge (documented weak spot)
        net.poly_cost = net.poly_cost[net.poly_cost.et != "dcline"]
        net.pwl_cost = net.pwl_cost[net.pwl_cost.et != "dcline"]
    opts = {}
    if not dc and g.B(0.3):
        opts["init"] = "pf"
    tags |= {"cost:" + info["cost_mode"]}
    sample = dict(info, calc="rundcopp" if dc else "runopp", options=opts)
    digest = common.net_digest(net, {"dc": dc, "o": opts})
    wit = dict(seed=seed, calc=sample["calc"], base=info["base"], cost_mode=info["cost_mode"])
    for et in ("gen", "sgen", "load", "storage", "ext_grid", "dcline"):
        if ((net.poly_cost.et == et).any() or (net.pwl_cost.et == et).any()):
            tags.add("cost_on:" + et)
    flipped_poly = net.poly_cost[net.poly_cost.et.isin(FLIPPED)]
    if len(flipped_poly) and (flipped_poly[["cp2_eur_per_mw2", "cp0_eur", "cq2_eur_per_mvar2", "cq0_eur"]].values != 0).any():
        tags.add("c2_or_c0_on_load_storage_dcline")
    work = copy.deepcopy(net)
    st, exc = run_opf(work, dc, **opts)
    if st == "notconv":
        return common.case(digest, nontrivial=False, tags=tags, skipped="opf_not_converged", sample=sample)
    if st == "exc":
        if isinstance(exc, ValueError) and "iecewise linear costs can not be mixed" in str(exc):
            return common.case(digest, nontrivial=False, tags=tags, skipped="refused_pwl_with_quadratic", sample=sample)
        return common.case(digest, nontrivial=True, tags=tags, sample=sample, violations=[common.viol(
            "%s raised %s: %s on a feasible problem" % (sample["calc"], type(exc).__name__, exc), **wit)])
    viols = []
    extra = {"cost_entries": len(net.poly_cost) + len(net.pwl_cost)}
    # ---- 1. res_cost == user cost at the result powers
    uc, parts = opfgen.user_cost(work, per_element=True)
    scale = max(1., abs(uc), sum(abs(p[3]) for p in parts))
    err = work.res_cost - uc
    # polynomial costs are evaluated by pandapower from the dispatch itself; piecewise linear ones through epigraph variables
    # that satisfy y >= a*p + b only within the feasibility tolerance of the interior point solver (OPF_VIOLATION = 5e-6 p.u.)
    slope_sum = sum(max(abs(float(pt[2])) for pt in pts) for pts in net.pwl_cost.points.values) if len(net.pwl_cost) else 0.
    tol = 1e-6 * scale + 5e-6 * float(net.sn_mva) * slope_sum
    if not np.isfinite(work.res_cost) or abs(err) > tol:
        pred = sign_defect_delta(work)
        pred2 = -float(net.poly_cost.cp0_eur.sum()) if len(net.pwl_cost) else 0.
        mech = None
        if abs(pred) > tol and abs(err - pred) <= tol + 1e-9 * abs(pred):
            mech = "poly_cost_sign_flips_c2_c0"
        elif abs(pred2) > tol and abs(err - pred2) <= tol + 1e-9 * abs(pred2):
            # with any pwl cost in the net, linear poly costs are converted to two-point pwl costs and their constant is lost
            mech = "poly_c0_dropped_when_pwl_present"
        viols.append(common.viol("res_cost = %.6f but the user's cost functions give %.6f at the result powers (difference %.6f)" % (
            work.res_cost, uc, err), mechanism=mech, predicted_by_sign_defect=pred, **wit))
    else:
        tags.add("res_cost_ok")
    # ---- 2. DC-OPF: the optimum of the same problem computed independently
    if dc:
        try:
            model = dcopf.DCModel(net)
        except dcopf.Unsupported as e:
            tags.add("dc_ref_unsupported")
            return common.case(digest, nontrivial=True, tags=tags, violations=viols, sample=sample, extra=extra)
        base = copy.deepcopy(net)
        pp.rundcpp(base)
        if not dcopf.validate(model, base):
            tags.add("dc_ref_model_mismatch")
            return common.case(digest, nontrivial=True, tags=tags, violations=viols, sample=sample, extra=extra)
        try:
            opt, x, elems = dcopf.solve(model, net, cost_pieces(net))
        except dcopf.Unsupported:
            opt = None
        if opt is None:
            tags.add("dc_ref_failed")
            return common.case(digest, nontrivial=True, tags=tags, violations=viols, sample=sample, extra=extra)
        extra["dc_reference"] = 1
        tags.add("dc_ref")
        gap = uc - opt
        gtol = 2e-5 * scale
        if gap > gtol:
            mech = None
            if "c2_or_c0_on_load_storage_dcline" in tags:
                n2 = compensated(net)
                st2, _ = run_opf(n2, True, **opts)
                if st2 == "ok" and abs(user_cost_at(net, n2) - opt) <= gtol:
                    mech = "poly_cost_sign_flips_c2_c0"
            viols.append(common.viol("rundcopp result costs %.6f, the optimum of the same DC-OPF is %.6f (gap %.6f)" % (uc, opt, gap),
                                     mechanism=mech, **wit))
        elif gap < -gtol:
            viols.append(common.viol("rundcopp result costs %.6f, less than the reference optimum %.6f: the result is not a feasible "
                                     "point of the DC-OPF" % (uc, opt), **wit))
        else:
            tags.add("dc_optimum_ok")
    return common.case(digest, nontrivial=True, tags=tags, violations=viols, sample=sample, extra=extra)
