"""C19 - state estimation reproduces the true state from exact, observable measurement sets."""
import contextlib
import copy

import numpy as np
import pandapower as pp
from pandapower.estimation import estimate, chi2_analysis, remove_bad_data

from .. import common, pf
from ..gen import netgen
from ..oracles import balance

PROPERTY = "C19"
READY = False
NOT_READY_REASON = "under construction"
TECHNIQUE = ("runtime monitoring: measurements copied from a converged power flow on observable-by-construction sets; the "
             "estimate is compared with that power flow (truth model), bad-data tests must flag nothing")
LEVEL = "exploration"
CASES = {"quick": 400, "thorough": 12000}
BUDGET = {"quick": 60, "thorough": 1200}
CASE_TIMEOUT = 60
FLOORS = {"quick": {"nontrivial": 100, "max_skip_frac": 0.3}, "thorough": {"nontrivial": 3000, "max_skip_frac": 0.3}}
RULE = ""
ASSUMPTIONS = []

OVR = dict(shunt=0., ward=0., xward=0., dcline=0., z_sw=0., asym=0., slack_gen=0.)
PROFILES = ["simple", "full_mix", "weakly_meshed", "transmission", "dist_radial", "multi_island"]


# ---------------------------------------------------------------------------------------------------------------------
# F10: numpy >= 2.? removed np.in1d and np.linalg.linalg; the estimation module still uses both
@contextlib.contextmanager
def numpy_shim(active):
    """temporarily provide the two removed numpy names (only used to keep monitoring behind the known defect)"""
    added = []
    if active:
        if not hasattr(np, "in1d"):
            np.in1d = np.isin
            added.append((np, "in1d"))
        if not hasattr(np.linalg, "linalg"):
            class _L:
                LinAlgError = np.linalg.LinAlgError
            np.linalg.linalg = _L
            added.append((np.linalg, "linalg"))
    try:
        yield
    finally:
        for mod, name in added:
            delattr(mod, name)


def removed_numpy_api(exc):
    """True iff exc is the AttributeError caused by pandapower.estimation using np.in1d / np.linalg.linalg that this numpy lacks"""
    seen, e = [], exc
    while e is not None and len(seen) < 6:
        seen.append(e)
        e = e.__context__ or e.__cause__
    for e in seen:
        if isinstance(e, AttributeError):
            s = str(e)
            if ("has no attribute 'in1d'" in s and not hasattr(np, "in1d")) or \
                    ("has no attribute 'linalg'" in s and not hasattr(np.linalg, "linalg")):
                return True
    return False


# ---------------------------------------------------------------------------------------------------------------------
class UF:
    def __init__(self):
        self.p = {}

    def find(self, a):
        self.p.setdefault(a, a)
        while self.p[a] != a:
            self.p[a] = self.p[self.p[a]]
            a = self.p[a]
        return a

    def union(self, a, b):
        ra, rb = self.find(a), self.find(b)
        if ra == rb:
            return False
        self.p[ra] = rb
        return True


def topology(net):
    """own model of the electrical node graph: returns (node_of_bus, edges) for the energized part;
    edges = (node_a, node_b, element_type, index, side_a, side_b, measurable)"""
    live = net.res_bus.vm_pu.notna()
    fuse = UF()
    for b in net.bus.index[live.values]:
        fuse.find(("b", int(b)))
    sw = net.switch
    for _, s in sw[(sw.et == "b") & sw.closed].iterrows():
        a, b = int(s.bus), int(s.element)
        if live.get(a, False) and live.get(b, False):
            fuse.union(("b", a), ("b", b))
    node = {int(b): fuse.find(("b", int(b))) for b in net.bus.index[live.values]}
    opensw = {(r.et, int(r.element), int(r.bus)) for r in sw[~sw.closed & (sw.et != "b")].itertuples()}
    edges = []
    for li, r in net.line[net.line.in_service].iterrows():
        f, t = int(r.from_bus), int(r.to_bus)
        if ("l", li, f) in opensw or ("l", li, t) in opensw or f not in node or t not in node:
            continue
        edges.append((node[f], node[t], "line", li, "from", "to", True))
    for ti, r in net.trafo[net.trafo.in_service].iterrows():
        f, t = int(r.hv_bus), int(r.lv_bus)
        if ("t", ti, f) in opensw or ("t", ti, t) in opensw or f not in node or t not in node:
            continue
        edges.append((node[f], node[t], "trafo", ti, "hv", "lv", True))
    for ti, r in net.trafo3w[net.trafo3w.in_service].iterrows():
        star = ("star", ti)
        for side in ("hv", "mv", "lv"):
            b = int(r[side + "_bus"])
            if ("t3", ti, b) in opensw or b not in node:
                continue
            edges.append((node[b], star, "trafo3w", ti, side, None, True))
    for ii, r in net.impedance[net.impedance.in_service].iterrows():
        f, t = int(r.from_bus), int(r.to_bus)
        if f in node and t in node:
            edges.append((node[f], node[t], "impedance", ii, None, None, False))
    return node, edges


RES = {"line": ("res_line", {"from": ("p_from_mw", "q_from_mvar", "i_from_ka"), "to": ("p_to_mw", "q_to_mvar", "i_to_ka")}),
       "trafo": ("res_trafo", {"hv": ("p_hv_mw", "q_hv_mvar", "i_hv_ka"), "lv": ("p_lv_mw", "q_lv_mvar", "i_lv_ka")}),
       "trafo3w": ("res_trafo3w", {"hv": ("p_hv_mw", "q_hv_mvar", "i_hv_ka"), "mv": ("p_mv_mw", "q_mv_mvar", "i_mv_ka"),
                                   "lv": ("p_lv_mw", "q_lv_mvar", "i_lv_ka")})}


def build_measurements(net, g, mode):
    """list of measurement tuples (type, element_type, value, std, element, side) forming an observable set; None if mode impossible"""
    node, edges = topology(net)
    groups = {}
    for b, n in node.items():
        groups.setdefault(n, []).append(b)
    meas = []
    inj, _ = balance.element_consumption(net, True)      # bus injections from the element result tables (load reference)
    sn = float(net.sn_mva)

    def std(kind, vn=None):
        """standard deviation: 0.1 .. 3 % of the per-unit base of the quantity (keeps the gain matrix reasonably conditioned)"""
        s_pu = 10 ** g.R(-3, -1.5)
        return s_pu * (sn if kind in "pq" else 1. if kind == "v" else sn / (np.sqrt(3) * vn))

    def add_inj(n):
        for b in groups[n]:
            meas.append(("p", "bus", float(inj.at[b].real), std("p"), b, None))
            meas.append(("q", "bus", float(inj.at[b].imag), std("q"), b, None))

    def add_flow(et, idx, side, kinds="pq"):
        tab, cols = RES[et]
        c = cols[side]
        for k, col in zip("pqi", c):
            if k in kinds:
                val = float(net[tab].at[idx, col])
                if np.isfinite(val):
                    vn = float(net.bus.vn_kv.at[int(net[et].at[idx, side + "_bus"])])
                    meas.append((k, et, val, std(k, vn), idx, side))

    def add_v(b):
        meas.append(("v", "bus", float(net.res_bus.vm_pu.at[b]), std("v"), b, None))

    # islands of the node graph
    comp = UF()
    for n in groups:
        comp.find(n)
    for e in edges:
        comp.union(e[0], e[1])
    islands = {}
    for n in groups:
        islands.setdefault(comp.find(n), []).append(n)
    n_inj = n_flow = 0
    if mode == "tree":
        t = UF()
        order = [e for e in edges if e[6]]
        g.rng.shuffle(order)
        tree = [e for e in order if t.union(e[0], e[1])]
        # every energized node must be in one tree per island
        roots = {}
        for n in groups:
            roots.setdefault(comp.find(n), set()).add(t.find(n))
        if any(len(r) > 1 for r in roots.values()):
            return None, {}
        for e in tree:
            side = e[4] if (e[5] is None or g.B(0.5)) else e[5]
            add_flow(e[2], e[3], side)
            n_flow += 1
    elif mode == "inj":
        for n in groups:
            add_inj(n)
            n_inj += 1
    elif mode == "mixed":
        # rooted spanning tree; each non-root node is covered either by the flow on its parent branch or by its own injection
        adj = {}
        for e in edges:
            adj.setdefault(e[0], []).append((e[1], e))
            adj.setdefault(e[1], []).append((e[0], e))
        for root_key, nodes in islands.items():
            root = nodes[int(g.rng.integers(len(nodes)))]
            seen, stack = {root}, [root]
            while stack:
                u = stack.pop(int(g.rng.integers(len(stack))))
                nb = adj.get(u, [])
                for k in g.rng.permutation(len(nb)):
                    v, e = nb[int(k)]
                    if v in seen:
                        continue
                    seen.add(v)
                    stack.append(v)
                    star = isinstance(v, tuple) and v[0] == "star"
                    if e[6] and (star or g.B(0.5)):
                        side = e[4] if (e[5] is None or g.B(0.5)) else e[5]
                        add_flow(e[2], e[3], side)
                        n_flow += 1
                    elif not star:
                        add_inj(v)
                        n_inj += 1
                    else:
                        return None, {}
    # voltage magnitude: at least one per island
    for root_key, nodes in islands.items():
        buses = [b for n in nodes if n in groups for b in groups[n]]
        k = g.I(1, len(buses)) if g.B(0.5) else 1
        for b in g.rng.choice(buses, size=k, replace=False):
            add_v(int(b))
    n_base = len(meas)
    # redundancy
    red = g.C([0., 0.3, 1.0])
    for n in groups:
        if g.B(red) and mode != "inj":
            add_inj(n)
    for e in edges:
        if not e[6]:
            continue
        for side in (e[4], e[5]):
            if side is not None and g.B(red):
                add_flow(e[2], e[3], side, kinds=g.C(["pq", "pq", "pqi", "pqi", "p", "q"]))
    for b in node:
        if g.B(red * 0.5):
            add_v(b)
    info = {"n_base": n_base, "n_meas": len(meas), "n_inj": n_inj, "n_flow": n_flow, "n_islands": len(islands), "red": red,
            "n_nodes": len(groups) + len({e[1] for e in edges if isinstance(e[1], tuple) and e[1][0] == "star"})}
    return meas, info


def write_measurements(net, meas, order):
    for k in order:
        t, et, val, sd, el, side = meas[int(k)]
        pp.create_measurement(net, t, et, val, sd, el, side=side)


def compare(net, truth, tol_v, tol_a, tol_s):
    """differences between the estimate tables and the power flow, returns list of (what, size)"""
    out = []
    live = truth.res_bus.vm_pu.notna().values
    est = net.res_bus_est
    dv = np.abs(est.vm_pu.values - truth.res_bus.vm_pu.values)[live]
    da = np.abs(est.va_degree.values - truth.res_bus.va_degree.values)[live]
    da = np.minimum(da, np.abs(da - 360.))
    if not np.all(np.isfinite(dv)) or dv.max() > tol_v:
        out.append(("res_bus_est.vm_pu", float(np.nanmax(dv)) if np.isfinite(dv).any() else float("nan")))
    if not np.all(np.isfinite(da)) or da.max() > tol_a:
        out.append(("res_bus_est.va_degree", float(np.nanmax(da)) if np.isfinite(da).any() else float("nan")))
    for et, (tab, cols) in RES.items():
        if not len(net[et]):
            continue
        te = net[tab + "_est"]
        tt = truth[tab]
        for side, cc in cols.items():
            for c in cc[:2]:
                a, b = te[c].values, tt[c].values
                m = np.isfinite(b)
                d = np.abs(a - b)[m]
                if len(d) and (not np.all(np.isfinite(d)) or d.max() > tol_s):
                    out.append(("%s_est.%s" % (tab, c), float(np.nanmax(d)) if np.isfinite(d).any() else float("nan")))
    return out


def run_case(seed, tier, case_no):
    g = netgen.G(seed)
    profile = g.C(PROFILES)
    net = netgen.rnd_net(seed, profile, OVR)
    status, exc = pf.try_run(pp.runpp, net, tolerance_mva=1e-9, calculate_voltage_angles=True)
    sample = {"profile": profile, "net": netgen.describe(net)}
    tags = {"profile:" + profile}
    if status != "ok":
        return common.case(common.net_digest(net), nontrivial=False, tags=tags, skipped="pf_" + status, sample=sample)
    mode = g.C(["inj", "tree", "mixed"])
    meas, info = build_measurements(net, g, mode)
    if meas is None:
        mode = "inj"
        meas, info = build_measurements(net, g, mode)
    order = g.rng.permutation(len(meas)) if g.B(0.7) else np.arange(len(meas))
    opts = {"init": g.C(["flat", "flat", "results"])}
    if g.B(0.3):
        opts["tolerance"] = 1e-8
    sample.update(mode=mode, options=opts, **info)
    tags |= {"mode:" + mode, "init:" + opts["init"]}
    truth = copy.deepcopy(net)
    write_measurements(net, meas, order)
    digest = common.net_digest(net, {"o": opts})
    viols = []
    # 1. the call as a user would make it
    shim = False
    try:
        res = estimate(net, **opts)
    except Exception as e:  # noqa
        if removed_numpy_api(e):
            viols.append(common.viol("estimate() raises %s: %s" % (type(e).__name__, e), mechanism="numpy_removed_in1d_linalg",
                                     numpy=np.__version__))
            shim = True
            tags.add("numpy_shim")
        else:
            viols.append(common.viol("estimate() raised %s: %s on an observable exact measurement set" % (type(e).__name__, e),
                                     mode=mode, options=opts, info=info))
            return common.case(digest, nontrivial=True, tags=tags, violations=viols, sample=sample)
    if shim:
        with numpy_shim(True):
            try:
                res = estimate(net, **opts)
            except Exception as e:  # noqa
                viols.append(common.viol("estimate() raised %s: %s on an observable exact measurement set" % (type(e).__name__, e),
                                         mode=mode, options=opts, info=info))
                return common.case(digest, nontrivial=True, tags=tags, violations=viols, sample=sample)
    ok = res["success"] if isinstance(res, dict) else bool(res)
    if not ok:
        viols.append(common.viol("estimate() did not succeed on an observable exact measurement set", mode=mode, options=opts, info=info))
        return common.case(digest, nontrivial=True, tags=tags, violations=viols, sample=sample)
    diffs = compare(net, truth, 1e-6, 1e-4, 1e-4)
    for what, size in diffs:
        viols.append(common.viol("%s differs from the power flow by %.3e" % (what, size), mode=mode, options=opts, info=info))
    return common.case(digest, nontrivial=True, tags=tags, violations=viols, sample=sample, extra={"n_meas": len(meas)})
