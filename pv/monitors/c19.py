"""C19 - state estimation reproduces the true state from exact, observable measurement sets."""
import contextlib
import copy

import numpy as np
import pandapower as pp
from pandapower.estimation import estimate, chi2_analysis, remove_bad_data

from .. import common, pf
from ..gen import netgen
from ..oracles import balance

PROPERTY = "C19"
READY = True
TECHNIQUE = ("runtime monitoring: exact measurements copied from a converged power flow on observable-by-construction sets; the "
             "estimate is compared with that power flow (truth model), bad-data tests must flag nothing")
LEVEL = "exploration"
CASES = {"quick": 640, "thorough": 16000}
BUDGET = {"quick": 60, "thorough": 1200}
CASE_TIMEOUT = 60
FLOORS = {"quick": {"nontrivial": 300, "max_skip_frac": 0.2,
                    "tags": {"estimate_ok": 300, "mode:inj": 80, "mode:tree": 80, "mode:mixed": 80, "i_meas": 150, "t3_meas": 100,
                             "fused_buses": 120, "init:results": 60, "init:flat": 250, "alg:irwls": 40,
                             "zero_injection:zero_pwr_bus": 50, "zero_inj_unmeasured": 15, "multi_island": 10, "red:1.0": 80, "truth_start": 60},
                    "extras": {"chi2_tests": 80, "rn_max_tests": 35}},
          "thorough": {"nontrivial": 8000, "max_skip_frac": 0.2,
                       "tags": {"estimate_ok": 8000, "mode:inj": 2000, "mode:tree": 2000, "mode:mixed": 2000, "i_meas": 4000,
                                "t3_meas": 2500, "fused_buses": 3000, "init:results": 1500, "alg:irwls": 1000,
                                "zero_injection:zero_pwr_bus": 1200, "zero_inj_unmeasured": 400, "multi_island": 250, "truth_start": 1500},
                       "extras": {"chi2_tests": 2000, "rn_max_tests": 800}}}
RULE = ("one case = one seeded random network (netgen profiles simple/full_mix/weakly_meshed/transmission/dist_radial/multi_island "
        "without shunt-type elements) + converged runpp + one measurement set copied from its result tables: mode inj (p,q injection "
        "of every bus group + voltages), tree (p,q flows on a random spanning tree of lines/trafos/trafo3w sides, random side, + "
        "voltage per island) or mixed (every node covered by the flow on its parent branch or by its own injection), plus random "
        "redundancy (more injections, flows incl. current magnitudes on both sides, voltages), random order, random std_dev; options "
        "init flat/results, algorithm wls/irwls, zero_injection aux_bus/zero_pwr_bus/no_inj_bus, tolerance. Non-trivial = estimate "
        "judged against the power flow; distinct = digest of the net incl. the measurement table and options")
ASSUMPTIONS = [
    "trusted base: runpp result tables (C01/C02 monitors); bus injections are taken from the element result tables",
    "equality tolerances: vm 1e-6 p.u., va 1e-4 degree, p/q flows and bus powers 1e-4 MVA (measured noise on held cases: 3e-10, 6e-8, "
    "7e-7); power flow solved to 1e-9 MVA, estimator tolerance 1e-6 or 1e-8 on the state update",
    "observability is certified by construction (spanning-tree assignment of flows/injections, at least one voltage per island, the "
    "flow into every open-ended line measured at its live end because its internal bus otherwise has the twin solution V = 0; "
    "injection-only sets carry voltage measurements at >= half of the buses); std_dev between 0.1 % and 3 % of the per-unit base",
    "current magnitudes are only added on branch sides that also carry p and q (|I| alone is sign-ambiguous)",
    "Gauss-Newton is a local method and |I| rows make the objective non-convex: if the estimate diverges or stops in another "
    "stationary point while the same set without |I| rows and/or from init='results' reproduces the power flow, the case is skipped "
    "(flat_start_* / i_meas_*), bounded by max_skip_frac; in truth_start cases (init='results', no shift in net.trafo, so the "
    "iteration starts at the power-flow solution) there is no such escape and every deviation is a violation",
    "bad-data tests only on redundant sets (m >= n + 5), remove_bad_data only on fully redundant sets without single-node islands "
    "(no critical measurement) and without open-ended lines (their virtual sigma=1e-6 measurements are almost critical), both with "
    "tolerance=1e-10 because the residual they test belongs to the last but one iterate",
    "power flows with a bus voltage outside 0.8..1.25 p.u. are skipped (collapsed operating points make the gain matrix singular)",
    "out of domain (documented as approximate or not triaged): algorithm opt/lp/af-wls/wls_with_zero_constraint, "
    "fuse_buses_with_bb_switch != 'all', shunt/ward/xward at measured buses, init='slack'",
]

OVR = dict(shunt=0., ward=0., xward=0., dcline=0., z_sw=0., asym=0., slack_gen=0.)
PROFILES = ["simple", "full_mix", "weakly_meshed", "transmission", "dist_radial", "multi_island"]


# ---------------------------------------------------------------------------------------------------------------------
# F10: numpy >= 2.? removed np.in1d and np.linalg.linalg; the estimation module still uses both
@contextlib.contextmanager
def numpy_shim(active):
    """temporarily provide the two removed numpy names (only used to keep monitoring behind the known defect)"""
    added = []
    if active:
        if not hasattr(np, "in1d"):
            np.in1d = np.isin
            added.append((np, "in1d"))
        if not hasattr(np.linalg, "linalg"):
            class _L:
                LinAlgError = np.linalg.LinAlgError
            np.linalg.linalg = _L
            added.append((np.linalg, "linalg"))
    try:
        yield
    finally:
        for mod, name in added:
            delattr(mod, name)


def removed_numpy_api(exc):
    """True iff exc is the AttributeError caused by pandapower.estimation using np.in1d / np.linalg.linalg that this numpy lacks"""
    seen, e = [], exc
    while e is not None and len(seen) < 6:
        seen.append(e)
        e = e.__context__ or e.__cause__
    for e in seen:
        if isinstance(e, AttributeError):
            s = str(e)
            if ("has no attribute 'in1d'" in s and not hasattr(np, "in1d")) or \
                    ("has no attribute 'linalg'" in s and not hasattr(np.linalg, "linalg")):
                return True
    return False


# ---------------------------------------------------------------------------------------------------------------------
class UF:
    def __init__(self):
        self.p = {}

    def find(self, a):
        self.p.setdefault(a, a)
        while self.p[a] != a:
            self.p[a] = self.p[self.p[a]]
            a = self.p[a]
        return a

    def union(self, a, b):
        ra, rb = self.find(a), self.find(b)
        if ra == rb:
            return False
        self.p[ra] = rb
        return True


def topology(net):
    """own model of the electrical node graph: returns (node_of_bus, edges) for the energized part;
    edges = (node_a, node_b, element_type, index, side_a, side_b, measurable)"""
    live = net.res_bus.vm_pu.notna()
    fuse = UF()
    for b in net.bus.index[live.values]:
        fuse.find(("b", int(b)))
    sw = net.switch
    for _, s in sw[(sw.et == "b") & sw.closed].iterrows():
        a, b = int(s.bus), int(s.element)
        if live.get(a, False) and live.get(b, False):
            fuse.union(("b", a), ("b", b))
    node = {int(b): fuse.find(("b", int(b))) for b in net.bus.index[live.values]}
    opensw = {(r.et, int(r.element), int(r.bus)) for r in sw[~sw.closed & (sw.et != "b")].itertuples()}
    edges = []
    for li, r in net.line[net.line.in_service].iterrows():
        f, t = int(r.from_bus), int(r.to_bus)
        if ("l", li, f) in opensw or ("l", li, t) in opensw or f not in node or t not in node:
            continue
        edges.append((node[f], node[t], "line", li, "from", "to", True))
    for ti, r in net.trafo[net.trafo.in_service].iterrows():
        f, t = int(r.hv_bus), int(r.lv_bus)
        if ("t", ti, f) in opensw or ("t", ti, t) in opensw or f not in node or t not in node:
            continue
        edges.append((node[f], node[t], "trafo", ti, "hv", "lv", True))
    for ti, r in net.trafo3w[net.trafo3w.in_service].iterrows():
        star = ("star", ti)
        for side in ("hv", "mv", "lv"):
            b = int(r[side + "_bus"])
            if ("t3", ti, b) in opensw or b not in node:
                continue
            edges.append((node[b], star, "trafo3w", ti, side, None, True))
    for ii, r in net.impedance[net.impedance.in_service].iterrows():
        f, t = int(r.from_bus), int(r.to_bus)
        if f in node and t in node:
            edges.append((node[f], node[t], "impedance", ii, None, None, False))
    return node, edges


def open_ended_lines(net, node):
    """(line, live side) of in-service lines with exactly one end in the energized network"""
    sw = net.switch
    opensw = {(int(r.element), int(r.bus)) for r in sw[~sw.closed & (sw.et == "l")].itertuples()}
    out = []
    for li, r in net.line[net.line.in_service].iterrows():
        f, t = int(r.from_bus), int(r.to_bus)
        f_ok = f in node and (li, f) not in opensw
        t_ok = t in node and (li, t) not in opensw
        if f_ok != t_ok:
            out.append((li, "from" if f_ok else "to"))
    return out


RES = {"line": ("res_line", {"from": ("p_from_mw", "q_from_mvar", "i_from_ka"), "to": ("p_to_mw", "q_to_mvar", "i_to_ka")}),
       "trafo": ("res_trafo", {"hv": ("p_hv_mw", "q_hv_mvar", "i_hv_ka"), "lv": ("p_lv_mw", "q_lv_mvar", "i_lv_ka")}),
       "trafo3w": ("res_trafo3w", {"hv": ("p_hv_mw", "q_hv_mvar", "i_hv_ka"), "mv": ("p_mv_mw", "q_mv_mvar", "i_mv_ka"),
                                   "lv": ("p_lv_mw", "q_lv_mvar", "i_lv_ka")})}


def build_measurements(net, g, mode, auto_zero=False):
    """list of measurement tuples (type, element_type, value, std, element, side) forming an observable set; None if mode impossible"""
    node, edges = topology(net)
    groups = {}
    for b, n in node.items():
        groups.setdefault(n, []).append(b)
    meas = []
    inj, kinds = balance.element_consumption(net, True)      # bus injections from the element result tables (load reference)
    pos = {b: i for i, b in enumerate(net.bus.index)}
    n_zero = 0
    sn = float(net.sn_mva)

    def std(kind, vn=None):
        """standard deviation: 0.1 .. 3 % of the per-unit base of the quantity (keeps the gain matrix reasonably conditioned)"""
        s_pu = 10 ** g.R(-3, -1.5)
        return s_pu * (sn if kind in "pq" else 1. if kind == "v" else sn / (np.sqrt(3) * vn))

    def add_inj(n):
        for b in groups[n]:
            meas.append(("p", "bus", float(inj.at[b].real), std("p"), b, None))
            meas.append(("q", "bus", float(inj.at[b].imag), std("q"), b, None))

    def add_flow(et, idx, side, kinds="pq"):
        tab, cols = RES[et]
        c = cols[side]
        for k, col in zip("pqi", c):
            if k in kinds:
                val = float(net[tab].at[idx, col])
                if np.isfinite(val):
                    vn = float(net.bus.vn_kv.at[int(net[et].at[idx, side + "_bus"])])
                    meas.append((k, et, val, std(k, vn), idx, side))

    def add_v(b):
        meas.append(("v", "bus", float(net.res_bus.vm_pu.at[b]), std("v"), b, None))

    # islands of the node graph
    comp = UF()
    for n in groups:
        comp.find(n)
    for e in edges:
        comp.union(e[0], e[1])
    islands = {}
    for n in groups:
        islands.setdefault(comp.find(n), []).append(n)
    n_inj = n_flow = 0
    if mode == "tree":
        t = UF()
        order = [e for e in edges if e[6]]
        g.rng.shuffle(order)
        tree = [e for e in order if t.union(e[0], e[1])]
        # every energized node must be in one tree per island
        roots = {}
        for n in groups:
            roots.setdefault(comp.find(n), set()).add(t.find(n))
        if any(len(r) > 1 for r in roots.values()):
            return None, {}
        for e in tree:
            side = e[4] if (e[5] is None or g.B(0.5)) else e[5]
            add_flow(e[2], e[3], side)
            n_flow += 1
    elif mode == "inj":
        for n in groups:
            if auto_zero and not any(kinds[pos[b]] for b in groups[n]) and g.B(0.7):
                n_zero += 1          # left to zero_injection="no_inj_bus" / "zero_pwr_bus"
                continue
            add_inj(n)
            n_inj += 1
    elif mode == "mixed":
        # rooted spanning tree; each non-root node is covered either by the flow on its parent branch or by its own injection
        adj = {}
        for e in edges:
            adj.setdefault(e[0], []).append((e[1], e))
            adj.setdefault(e[1], []).append((e[0], e))
        for root_key, nodes in islands.items():
            root = nodes[int(g.rng.integers(len(nodes)))]
            seen, stack = {root}, [root]
            while stack:
                u = stack.pop(int(g.rng.integers(len(stack))))
                nb = adj.get(u, [])
                for k in g.rng.permutation(len(nb)):
                    v, e = nb[int(k)]
                    if v in seen:
                        continue
                    seen.add(v)
                    stack.append(v)
                    star = isinstance(v, tuple) and v[0] == "star"
                    if e[6] and (star or g.B(0.5)):
                        side = e[4] if (e[5] is None or g.B(0.5)) else e[5]
                        add_flow(e[2], e[3], side)
                        n_flow += 1
                    elif not star:
                        add_inj(v)
                        n_inj += 1
                    else:
                        return None, {}
    # open-ended lines (open switch or out-of-service bus at one end) get an internal bus in the calculation whose only information
    # is a zero-injection pseudo measurement; S = 0 also holds for V = 0 there, so the state is only unique if the flow into the
    # line is measured at its live end
    n_open_ended = 0
    for li, side in open_ended_lines(net, node):
        add_flow("line", li, side)
        n_open_ended += 1
    # voltage magnitudes: injection-only sets are badly conditioned and have low-voltage twin solutions unless most buses carry a
    # voltage measurement; flow-based sets need one per island
    for root_key, nodes in islands.items():
        buses = [b for n in nodes if n in groups for b in groups[n]]
        if mode == "tree":
            k = g.I(1, len(buses)) if g.B(0.5) else 1
        else:
            k = len(buses) if g.B(0.7) else g.I((len(buses) + 1) // 2, len(buses))
        for b in g.rng.choice(buses, size=k, replace=False):
            add_v(int(b))
    n_base = len(meas)
    # redundancy
    red = g.C([0., 0.3, 1.0])
    for n in groups:
        if g.B(red) and mode != "inj":
            add_inj(n)
    for e in edges:
        if not e[6]:
            continue
        for side in (e[4], e[5]):
            if side is not None and g.B(red):
                add_flow(e[2], e[3], side, kinds=g.C(["pq", "pq", "pqi", "pqi", "p", "q"]))
    for b in node:
        if g.B(red * 0.5):
            add_v(b)
    info = {"n_base": n_base, "n_meas": len(meas), "n_inj": n_inj, "n_flow": n_flow, "n_islands": len(islands), "red": red, "n_zero_inj_groups": n_zero, "n_open_ended_lines": n_open_ended,
            "min_island_nodes": min(len(v) for v in islands.values()),
            "n_nodes": len(groups) + len({e[1] for e in edges if isinstance(e[1], tuple) and e[1][0] == "star"})}
    return meas, info


def write_measurements(net, meas, order):
    for k in order:
        t, et, val, sd, el, side = meas[int(k)]
        pp.create_measurement(net, t, et, val, sd, el, side=side)


def compare(net, truth, tol_v, tol_a, tol_s):
    """differences between the estimate tables and the power flow, returns list of (what, size)"""
    out = []
    live = truth.res_bus.vm_pu.notna().values
    est = net.res_bus_est
    dv = np.abs(est.vm_pu.values - truth.res_bus.vm_pu.values)[live]
    da = np.abs(est.va_degree.values - truth.res_bus.va_degree.values)[live]
    da = np.minimum(da, np.abs(da - 360.))
    if not np.all(np.isfinite(dv)) or dv.max() > tol_v:
        out.append(("res_bus_est.vm_pu", float(np.nanmax(dv)) if np.isfinite(dv).any() else float("nan")))
    if not np.all(np.isfinite(da)) or da.max() > tol_a:
        out.append(("res_bus_est.va_degree", float(np.nanmax(da)) if np.isfinite(da).any() else float("nan")))
    # bus powers: per fused bus group the estimated consumption equals the consumption of the elements (no shunts in these nets)
    inj, _ = balance.element_consumption(truth, True)
    node, _ = topology(truth)
    grp_true, grp_est = {}, {}
    for b, n in node.items():
        grp_true[n] = grp_true.get(n, 0j) + inj.at[b]
        grp_est[n] = grp_est.get(n, 0j) + complex(est.p_mw.at[b], est.q_mvar.at[b])
    dS = max(abs(grp_true[n] - grp_est[n]) for n in grp_true)
    if not np.isfinite(dS) or dS > tol_s:
        out.append(("res_bus_est.p_mw/q_mvar (sum per fused group)", float(dS)))
    for et, (tab, cols) in RES.items():
        if not len(net[et]):
            continue
        te = net[tab + "_est"]
        tt = truth[tab]
        for side, cc in cols.items():
            for c in cc[:2]:
                a, b = te[c].values, tt[c].values
                m = np.isfinite(b)
                d = np.abs(a - b)[m]
                if len(d) and (not np.all(np.isfinite(d)) or d.max() > tol_s):
                    out.append(("%s_est.%s" % (tab, c), float(np.nanmax(d)) if np.isfinite(d).any() else float("nan")))
    return out



def t3_side_active(net):
    """(trafo3w index, side) -> True iff that side branch is part of the calculated network: transformer in service, side bus
    energized, no open t3 switch at that side"""
    live = net.res_bus.vm_pu.notna()
    sw = net.switch
    opensw = {(int(r.element), int(r.bus)) for r in sw[~sw.closed & (sw.et == "t3")].itertuples()}
    act = {}
    for ti, r in net.trafo3w.iterrows():
        for side in ("hv", "mv", "lv"):
            b = int(r[side + "_bus"])
            act[(ti, side)] = bool(r.in_service and live.get(b, False) and (ti, b) not in opensw)
    return act


def t3_mismapped(net, meas):
    """trafo3w measurements that pandapower.estimation.ppc_conversion._add_measurements_to_trafo3w assigns to a wrong ppci branch.
    pandapower: position(side k, trafo j) = off + k * n_hv_active + rank_hv(j) for hv-active j (others dropped);
    correct:    off + sum_{k'<k} n_active(k') + rank_k(j) for k-active (j, k)."""
    if not len(net.trafo3w):
        return []
    act = t3_side_active(net)
    idx = list(net.trafo3w.index)
    sides = ("hv", "mv", "lv")
    n_act = {s_: sum(act[(j, s_)] for j in idx) for s_ in sides}
    rank = {s_: {} for s_ in sides}
    for s_ in sides:
        k = 0
        for j in idx:
            if act[(j, s_)]:
                rank[s_][j] = k
                k += 1
    n_total = sum(n_act.values())
    bad = []
    for t, et, val, sd, el, side in meas:
        if et != "trafo3w":
            continue
        k = sides.index(side)
        right = sum(n_act[s_] for s_ in sides[:k]) + rank[side][el] if act[(el, side)] else None
        got = k * n_act["hv"] + rank["hv"][el] if act[(el, "hv")] else None
        if got != right:
            bad.append({"trafo3w": el, "side": side, "assigned_position": got, "correct_position": right,
                        "out_of_range": bool(got is not None and got >= n_total)})
    return bad


def raised_in(exc, func_name):
    """True iff the innermost pandapower frame of the traceback of exc belongs to function func_name"""
    tb, name = exc.__traceback__, None
    while tb is not None:
        if "pandapower" in tb.tb_frame.f_code.co_filename:
            name = tb.tb_frame.f_code.co_name
        tb = tb.tb_next
    return name == func_name


_T3_DEFECT = []


def t3_defect_present(shim):
    """one-off probe of the running pandapower: does a measurement at the lv side of the second of two three-winding transformers,
    the first of which has an out-of-service lv bus, end up outside the branch array (the known mapping defect)?"""
    if not _T3_DEFECT:
        net = pp.create_empty_network()
        hv, mv, lv1, lv2 = [pp.create_bus(net, v) for v in (110., 20., 10., 10.)]
        pp.create_ext_grid(net, hv)
        for lv in (lv1, lv2):
            pp.create_transformer3w(net, hv, mv, lv, "63/25/38 MVA 110/20/10 kV")
            pp.create_load(net, lv, 5., 1.)
        pp.create_load(net, mv, 10., 2.)
        net.bus.at[lv1, "in_service"] = False
        pp.runpp(net)
        for b in (hv, mv, lv2):
            pp.create_measurement(net, "v", "bus", net.res_bus.vm_pu.at[b], 0.001, b)
            pp.create_measurement(net, "p", "bus", net.res_bus.p_mw.at[b], 0.1, b)
            pp.create_measurement(net, "q", "bus", net.res_bus.q_mvar.at[b], 0.1, b)
        pp.create_measurement(net, "p", "trafo3w", net.res_trafo3w.p_lv_mw.at[1], 0.1, 1, side="lv")
        st, res = call(estimate, net, shim)
        ok = st == "ok" and float(np.abs(net.res_bus_est.vm_pu - net.res_bus.vm_pu).max()) < 1e-6
        _T3_DEFECT.append(not ok)
    return _T3_DEFECT[0]


def call(fn, net, shim, **kw):
    """returns (status, value): ok / exc"""
    with numpy_shim(shim):
        try:
            return "ok", fn(net, **kw)
        except Exception as e:  # noqa
            return "exc", e


def build_case(seed):
    """(status, net with converged power flow, profile, mode, opts, measurement list, order, info)"""
    g = netgen.G(seed)
    profile = g.C(PROFILES)
    net = netgen.rnd_net(seed, profile, OVR)
    # lines ending at an out-of-service bus are calculated as open-ended lines whose internal bus cannot be initialised from the
    # results (no result at the dead bus): out of the domain, the same topology is covered by open line switches
    oos = set(net.bus.index[~net.bus.in_service.values])
    net.line.loc[net.line.from_bus.isin(oos) | net.line.to_bus.isin(oos), "in_service"] = False
    no_shift = g.B(0.35)
    if no_shift:
        # without vector-group shifts in net.trafo the estimator does not re-initialise the angles by a DC power flow, so
        # init="results" starts exactly at the power-flow solution (truth start)
        net.trafo["shift_degree"] = 0.
        net.trafo["tap_step_degree"] = 0.
    status, exc = pf.try_run(pp.runpp, net, tolerance_mva=1e-9, calculate_voltage_angles=True)
    if status == "ok" and not (net.res_bus.vm_pu.dropna().between(0.8, 1.25)).all():
        status = "abnormal_voltage"          # collapsed / alternate-root operating points: singular gain matrix
    if status != "ok":
        return status, net, profile, None, None, None, None, None
    mode = g.C(["inj", "tree", "mixed"])
    opts = {"init": g.C(["flat", "results"] if no_shift else ["flat", "flat", "flat", "results"])}
    if g.B(0.3):
        opts["zero_injection"] = g.C(["zero_pwr_bus", "no_inj_bus"])
    if g.B(0.2):
        opts["algorithm"] = "irwls"
    if g.B(0.3):
        opts["tolerance"] = 1e-8
    auto_zero = "zero_injection" in opts
    meas, info = build_measurements(net, g, mode, auto_zero)
    if meas is None:
        mode = "inj"
        meas, info = build_measurements(net, g, mode, auto_zero)
    order = g.rng.permutation(len(meas)) if g.B(0.7) else np.arange(len(meas))
    return status, net, profile, mode, opts, meas, order, info


def run_case(seed, tier, case_no):
    status, net, profile, mode, opts, meas, order, info = build_case(seed)
    sample = {"profile": profile, "net": netgen.describe(net)}
    tags = {"profile:" + profile}
    if status != "ok":
        return common.case(common.net_digest(net), nontrivial=False, tags=tags, skipped="pf_" + status, sample=sample)
    sample.update(mode=mode, options=opts, **info)
    tags |= {"mode:" + mode, "init:" + opts["init"], "red:%s" % info["red"], "alg:" + opts.get("algorithm", "wls"),
             "zero_injection:" + opts.get("zero_injection", "aux_bus")}
    if info["n_zero_inj_groups"]:
        tags.add("zero_inj_unmeasured")
    if any(m[0] == "i" for m in meas):
        tags.add("i_meas")
    if len(net.trafo3w) and any(m[1] == "trafo3w" for m in meas):
        tags.add("t3_meas")
    if len(set(topology(net)[0].values())) < int(net.res_bus.vm_pu.notna().sum()):
        tags.add("fused_buses")
    if info["n_islands"] > 1:
        tags.add("multi_island")
    truth = copy.deepcopy(net)
    write_measurements(net, meas, order)
    digest = common.net_digest(net, {"o": opts})
    viols = []
    extra = {"n_meas": len(meas), "estimates": 0}
    wit = dict(mode=mode, options=opts, info=info, seed=seed)

    def done(skipped=None):
        return common.case(digest, nontrivial=skipped is None, tags=tags, violations=viols, sample=sample, extra=extra,
                           skipped=skipped, evals=max(1, extra["estimates"]))

    # ---- the call as a user makes it; exceptions of the two known, unrelated defects are recorded once and side-stepped
    state = {"shim": False}

    def attempt(fn, n, **kw):
        for _ in range(3):
            st, res = call(fn, n, state["shim"], **kw)
            extra["estimates"] += 1
            if st == "exc" and not state["shim"] and removed_numpy_api(res):
                viols.append(common.viol("%s() raises %s: %s" % (fn.__name__, type(res).__name__, res),
                                         mechanism="numpy_removed_in1d_linalg", numpy=np.__version__))
                tags.add("numpy_shim")
                state["shim"] = True
                continue
            if st == "exc" and isinstance(res, IndexError) and kw.get("zero_injection") == "no_inj_bus" and \
                    raised_in(res, "_add_zero_injection"):
                viols.append(common.viol("estimate() raises IndexError: %s with zero_injection='no_inj_bus'" % res,
                                         mechanism="no_inj_bus_index_error", **wit))
                tags.add("no_inj_bus_indexerror")
                kw["zero_injection"] = "zero_pwr_bus"      # selects the same buses for these inputs; keep monitoring
                continue
            break
        return st, res

    st, res = attempt(estimate, net, **opts)
    bad_t3 = t3_mismapped(truth, meas)
    if bad_t3:
        tags.add("t3_partially_active_measured")

    def judge(st, res, n):
        """None if the estimate on n reproduces the power flow, else (kind, text)"""
        if st == "exc":
            return "exc", "estimate() raised %s: %s" % (type(res).__name__, res)
        if not (res["success"] if isinstance(res, dict) else bool(res)):
            return "fail", "estimate() did not succeed"
        d = compare(n, truth, 1e-6, 1e-4, 1e-4)
        if d:
            return "diff", "; ".join("%s differs by %.3e" % x for x in d[:4])
        return None

    j = judge(st, res, net)
    truth_start = opts["init"] == "results" and not np.any(truth.trafo.shift_degree.values)
    if truth_start:
        tags.add("truth_start")
    if j is not None and j[0] in ("fail", "diff") and not truth_start:
        # Gauss-Newton is a local method: from a flat (or DC re-initialised) start it may diverge or stop in another stationary
        # point, and current magnitudes make the objective non-convex. Such outcomes are numerical, like alternate power-flow
        # roots: the case is skipped if the same set is estimated correctly without |I| rows and/or from init="results".
        # (the measurement model itself is judged without this escape in the truth_start cases)
        has_i = any(m[0] == "i" for m in meas)
        variants = []
        if has_i:
            variants.append(("i_meas", [k for k in order if meas[int(k)][0] != "i"], opts))
        if opts["init"] == "flat":
            variants.append(("flat_start", order, dict(opts, init="results")))
            if has_i:
                variants.append(("flat_start_i_meas", variants[0][1], dict(opts, init="results")))
        for name, sel, o2 in variants:
            n2 = copy.deepcopy(truth)
            write_measurements(n2, meas, sel)
            st2, res2 = attempt(estimate, n2, **o2)
            j2 = judge(st2, res2, n2)
            if j2 is None:
                tags.add(name + "_" + j[0])
                return done(skipped=name + ("_not_converged" if j[0] == "fail" else "_other_stationary_point"))
        j = (j[0], j[1] + " (also without current magnitudes / from init='results')")
    if j is not None and bad_t3 and t3_defect_present(state["shim"]):
        viols.append(common.viol(j[1] + " (measurements on three-winding transformers are assigned to wrong branches)",
                                 mechanism="trafo3w_meas_wrong_branch_when_side_inactive", mismapped=bad_t3, **wit))
        return done()
    if j is not None:
        viols.append(common.viol(j[1] + " on an observable exact measurement set", truth_start=truth_start, **wit))
        return done()
    tags.add("estimate_ok")
    # ---- bad data tests on the same exact, redundant set (WLS): nothing may be flagged
    # (tolerance 1e-10: both tests use the residual of the last but one iterate; virtual measurements of open-ended lines carry
    # sigma = 1e-6 and are almost critical, which makes the normalised residual test numerically fragile -> excluded there)
    n_state = 2 * (int(truth.res_bus.vm_pu.notna().sum()) + len(truth.trafo3w) + len(truth.line))
    sw = truth.switch
    open_ended = bool(len(sw) and (~sw.closed & (sw.et == "l")).any())
    if opts.get("algorithm", "wls") == "wls" and "zero_injection" not in opts and len(meas) >= n_state + 5:
        n3 = copy.deepcopy(truth)
        write_measurements(n3, meas, order)
        st3, flagged = attempt(chi2_analysis, n3, init=opts["init"], maximum_iterations=50, tolerance=1e-10)
        extra["chi2_tests"] = 1
        if st3 == "exc":
            viols.append(common.viol("chi2_analysis() raised %s: %s" % (type(flagged).__name__, flagged), **wit))
        elif flagged is not False:
            viols.append(common.viol("chi2_analysis() returned %r (bad data detected) on exact measurements" % (flagged,), **wit))
        if info["red"] == 1.0 and info["min_island_nodes"] >= 2 and not open_ended:      # no critical measurement in such a set
            n4 = copy.deepcopy(truth)
            write_measurements(n4, meas, order)
            st4, good = attempt(remove_bad_data, n4, init=opts["init"], maximum_iterations=50, tolerance=1e-10)
            extra["rn_max_tests"] = 1
            if st4 == "exc":
                viols.append(common.viol("remove_bad_data() raised %s: %s" % (type(good).__name__, good), **wit))
            elif good is not True or len(n4.measurement) != len(meas):
                viols.append(common.viol("remove_bad_data() returned %r and removed %d exact measurements" % (
                    good, len(meas) - len(n4.measurement)), **wit))
    return done()
