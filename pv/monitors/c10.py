"""C10 - distributed slack shares the balancing power in proportion to the weights (post-condition monitor)."""
import numpy as np
import pandapower as pp

from .. import common, pf
from ..gen import netgen
from ..oracles import graph, physical as ph
from . import c01

PROPERTY = "C10"
READY = True
LEVEL = "exploration"
TECHNIQUE = "runtime monitoring: common-ratio post-condition ((p_result - p_setpoint)/weight equal for all participants of an island) plus nodal balance, evaluated on every converged distributed-slack power flow of a seeded workload"
CASES = {"quick": 500, "thorough": 20000}
BUDGET = {"quick": 60, "thorough": 1200}
FLOORS = {"quick": {"nontrivial": 100, "tags": {"xward_participant": 25, "two_xward_participants": 8, "gen_participant": 80, "two_ext_grids": 30,
                                                "nonparticipant_gen": 50, "shared_bus": 15}, "max_skip_frac": 0.5},
          "thorough": {"nontrivial": 4000, "tags": {"two_xward_participants": 300}, "max_skip_frac": 0.5}}
RULE = ("seeded single-island transmission-style networks with random positive slack weights over ext_grids, gens and xwards "
        "(some zero = non-participants, some participants sharing a bus); runpp(distributed_slack=True); non-trivial = converged "
        "with >= 2 participants; distinct = digest of inputs")
ASSUMPTIONS = ["set-points: ext_grid 0, gen p_mw*scaling, xward ps_mw (its PQ part = res_xward.p_mw - pz*v^2 - flow into the internal branch, "
               "recomputed from vm/va_internal and r_ohm/x_ohm)", "common ratio tolerance 1e-6 MW per unit weight (NR, tolerance_mva=1e-8)"]


def participants(net):
    """list of (kind, index, bus, weight, setpoint, result)"""
    out = []
    vm = net.res_bus.vm_pu
    for i, r in net.ext_grid.iterrows():
        if r.in_service and not np.isnan(vm.at[r.bus]):
            out.append(("ext_grid", i, int(r.bus), float(r.slack_weight), 0.0, float(net.res_ext_grid.p_mw.at[i])))
    for i, r in net.gen.iterrows():
        if r.in_service and not np.isnan(vm.at[r.bus]):
            out.append(("gen", i, int(r.bus), float(r.slack_weight), float(r.p_mw * r.scaling), float(net.res_gen.p_mw.at[i])))
    for i, r in net.xward.iterrows():
        if r.in_service and not np.isnan(vm.at[r.bus]):
            full = ph.xward_model(net, i)["p_mw"]          # ps + pz v^2 + internal branch, with ps as set-point
            pq_part = float(net.res_xward.p_mw.at[i]) - (full - r.ps_mw)
            out.append(("xward", i, int(r.bus), float(r.slack_weight), float(r.ps_mw), pq_part))
    return out


def check(net, opts):
    viols, tags = [], set()
    uf, isb = graph.energized_components(net)
    parts = participants(net)
    islands = {}
    for p in parts:
        islands.setdefault(uf.find(p[2]), []).append(p)
    n_part = 0
    for root, ps in islands.items():
        act = [p for p in ps if p[3] != 0]
        non = [p for p in ps if p[3] == 0]
        n_part = max(n_part, len(act))
        if len(act) >= 1:
            ratios = np.array([(p[5] - p[4]) / p[3] for p in act])
            # xward PQ parts are subject to the consumption sign: more slack => less consumption
            ratios = np.array([(-(p[5] - p[4]) / p[3]) if p[0] == "xward" else r for p, r in zip(act, ratios)])
            spread = ratios.max() - ratios.min()
            scale = max(1.0, np.abs(ratios).max())
            if not np.isfinite(spread) or spread > 1e-6 * scale:
                viols.append(common.viol("participants of one island deviate from their set-points in unequal proportion to their weights: %s" % (
                    [(p[0], p[1], round(r, 6)) for p, r in zip(act, ratios)],), options=opts, participants=[list(p) for p in act]))
        for p in non:
            if p[0] == "ext_grid":
                continue
            if abs(p[5] - p[4]) > 1e-6 + 1e-9 * abs(p[4]):
                viols.append(common.viol("non-participating %s %s moved from its set-point %.9g to %.9g" % (p[0], p[1], p[4], p[5]), options=opts))
        kinds = [p[0] for p in act]
        if "xward" in kinds:
            tags.add("xward_participant")
        if kinds.count("xward") >= 2:
            tags.add("two_xward_participants")
        if "gen" in kinds:
            tags.add("gen_participant")
        if kinds.count("ext_grid") >= 2:
            tags.add("two_ext_grids")
        if any(p[0] == "gen" for p in non):
            tags.add("nonparticipant_gen")
        buses = [p[2] for p in act]
        if len(buses) != len(set(buses)):
            tags.add("shared_bus")
    v2, _, _ = c01.check_balance(net, True, 1e-6, opts)
    return viols + v2, tags, n_part >= 2


def run_case(seed, tier, case_no):
    g = netgen.G(seed)
    net = netgen.rnd_net(seed, "transmission", {"xward": 0.9, "second_eg": 0.6, "oos": 0.0, "open_sw": 0.0, "dcline": 0.0, "zip_load": 0.3,
                                                "extra_island": 0.0, "slack_gen": 0.2})
    # more xwards (>= 2 participants are needed for the column bookkeeping of the result extraction)
    cand = [int(b) for b in net.bus.index[net.bus.vn_kv.values == 20.]]
    for _ in range(g.I(0, 2)):
        b = g.C(cand)
        if b in set(net.gen.bus) | set(net.ext_grid.bus) | set(net.xward.bus):
            continue
        zb = 20. ** 2 / 10.
        pp.create_xward(net, b, ps_mw=g.R(-1, 1), qs_mvar=g.R(-0.3, 0.3), pz_mw=g.R(0, 0.5), qz_mvar=g.R(-0.3, 0.3), r_ohm=g.R(0.01, 0.1) * zb,
                        x_ohm=g.R(0.05, 0.3) * zb, vm_pu=g.R(0.98, 1.03))
    for el in ("ext_grid", "gen", "xward"):
        if len(net[el]):
            w = np.array([g.R(0.2, 3) if g.B(0.7) else 0. for _ in range(len(net[el]))])
            net[el]["slack_weight"] = w
    if len(net.ext_grid) and (net.ext_grid.slack_weight == 0).all() and g.B(0.8):
        net.ext_grid.loc[net.ext_grid.index[0], "slack_weight"] = 1.0
    opts = {"distributed_slack": True, "tolerance_mva": 1e-8}
    if g.B(0.3):
        opts["numba"] = False
    if g.B(0.3):
        opts["calculate_voltage_angles"] = g.B(0.7)
    if g.B(0.3):
        opts["voltage_depend_loads"] = g.B(0.5)
    status, exc = pf.try_run(pp.runpp, net, **opts)
    digest = common.net_digest(net, opts)
    sample = {"net": netgen.describe(net), "options": opts,
              "weights": {el: [round(float(x), 3) for x in net[el].slack_weight.values] for el in ("ext_grid", "gen", "xward") if len(net[el])}}
    if status != "ok":
        v = []
        if status.startswith("error:") and status not in ("error:ValueError", "error:NotImplementedError", "error:UserWarning"):
            v = [common.viol("runpp(distributed_slack=True) failed with an internal error: %r" % (exc,), options=opts)]
        return common.case(digest, nontrivial=False, skipped=None if v else status, violations=v, sample=sample)
    viols, tags, nontrivial = check(net, opts)
    return common.case(digest, nontrivial=nontrivial, tags=tags, violations=viols[:4], sample=sample)
