"""C21 - PYPOWER / MATPOWER conversion round trip preserves the power flow result.

One case = a seeded random network (pv.gen.netgen) + one route:
    ppc:  from_ppc(to_ppc(net, trafo_model="pi"))
    mpc:  from_mpc(<file written by to_mpc(net, file, trafo_model="pi")>)          (scipy .mat file)
The original and the converted network are solved with the same runpp options; the oracle compares, through the converter's
own bus lookup, every bus voltage, the net injection at every reference bus (slack P/Q) and the total branch losses.
"""
import copy
import os

import numpy as np
import pandapower as pp

from pandapower.converter.matpower.from_mpc import from_mpc
from pandapower.converter.matpower.to_mpc import to_mpc
from pandapower.converter.pypower.from_ppc import from_ppc
from pandapower.converter.pypower.to_ppc import to_ppc
from pandapower.pypower.idx_brch import PF, PT, BR_STATUS
from pandapower.pypower.idx_bus import BUS_TYPE

from .. import common, pf
from ..gen import netgen

PROPERTY = "C21"
READY = True
LEVEL = "exploration"
TECHNIQUE = ("runtime monitoring: metamorphic oracle - power flow of the round-tripped network must reproduce bus voltages, "
             "slack injections and losses of the original, matched through the converter's bus lookup")
CASES = {"quick": 400, "thorough": 12000}
BUDGET = {"quick": 60, "thorough": 1500}
FLOORS = {"quick": {"nontrivial": 170, "max_skip_frac": 0.35,
                    "tags": {"route:ppc": 100, "route:mpc": 70, "trafo3w": 60, "xward": 50, "ward": 70, "gen": 100, "multi_ref": 70,
                             "oos_element": 110, "open_switch": 60, "fused_buses": 80, "tap_off_neutral": 130, "phase_shift": 130,
                             "branch_g": 90, "cva=False": 40, "init=results": 70, "sym_impedance": 55, "shunt": 100},
                    "extras": {"buses_compared": 1500, "ref_buses_compared": 220, "aux_buses": 200}},
          "thorough": {"nontrivial": 5000, "max_skip_frac": 0.35,
                       "tags": {"route:ppc": 3000, "route:mpc": 2500, "trafo3w": 1500, "xward": 1000, "multi_ref": 1500},
                       "extras": {"buses_compared": 45000}}}
RULE = ("seeded random networks (profiles full_mix, transmission, multi_island, weakly_meshed, dist_radial; asymmetric "
        "impedances and dc lines excluded, a symmetric impedance added with p=0.4) x route (ppc / mpc file) x "
        "calculate_voltage_angles x init x switch_rx_ratio; non-trivial = both power flows converged and >= 4 buses compared; "
        "distinct = digest of input tables + route + options")
ASSUMPTIONS = ["domain (documented / format): transformer pi model on both sides, constant-power loads (to_ppc default "
               "voltage_depend_loads=False), no asymmetric impedances, no dc lines (not in the property's quantifier; to_ppc "
               "silently omits them, see notes)",
               "the MATPOWER case format (version 2) has no branch conductance column: for the mpc route line g_us_per_km, "
               "transformer pfe_kw and impedance g are set to zero before the original is solved",
               "both power flows run with tolerance_mva=1e-9; complex voltage difference <= 1e-6 p.u., powers 1e-5 MW + 1e-7*|S| "
               "(measured on held cases: <= 7e-10 p.u.)",
               "a disagreement that disappears when the converted net is started from the original solution is an alternate "
               "root, not a violation (DESIGN section 5)"]

PROFILES = ["full_mix", "full_mix", "transmission", "multi_island", "weakly_meshed", "dist_radial"]


def _strip_g(net):
    net.line["g_us_per_km"] = 0.
    net.trafo["pfe_kw"] = 0.
    net.trafo3w["pfe_kw"] = 0.
    if len(net.impedance):
        for c in ("gf_pu", "gt_pu"):
            if c in net.impedance:
                net.impedance[c] = 0.


def gen_case(seed):
    g = netgen.G(seed ^ 0x5A5A)
    profile = g.C(PROFILES)
    net = netgen.rnd_net(seed, profile, {"imp": 0., "dcline": 0.})
    route = "ppc" if g.B(0.55) else "mpc"
    tags = {"route:" + route, "profile:" + profile}
    mv = [b for b in net.bus.index if net.bus.vn_kv.at[b] == 20. and net.bus.in_service.at[b]]
    if len(mv) >= 2 and g.B(0.4):
        a, b = g.rng.choice(len(mv), 2, replace=False)
        r, x = g.R(0.001, 0.05), g.R(0.01, 0.1)
        gg, bb = (g.R(0, 0.01), g.R(-0.01, 0.01)) if g.B(0.5) else (0., 0.)
        pp.create_impedance(net, mv[int(a)], mv[int(b)], rft_pu=r, xft_pu=x, sn_mva=g.R(5, 50), rtf_pu=r, xtf_pu=x, gf_pu=gg, bf_pu=bb,
                            gt_pu=gg, bt_pu=bb)
        tags.add("sym_impedance")
    if route == "mpc":
        _strip_g(net)
    opts = {"calculate_voltage_angles": not g.B(0.2), "init": g.C(["flat", "results"])}
    if g.B(0.3):
        opts["switch_rx_ratio"] = g.R(0.5, 5)
    if g.B(0.25):
        opts["check_connectivity"] = g.B(0.5)
    return net, route, opts, tags, profile


def feature_tags(net):
    t = set()
    for el in ("trafo3w", "xward", "ward", "gen", "shunt", "storage", "motor", "asymmetric_load"):
        if len(net[el]) and net[el].in_service.any():
            t.add(el)
    n_ref = int(net.ext_grid.in_service.sum()) + (int((net.gen.slack & net.gen.in_service).sum()) if len(net.gen) else 0)
    if n_ref > 1:
        t.add("multi_ref")
    if any(len(net[el]) and (~net[el].in_service).any() for el in ("bus", "line", "trafo", "trafo3w", "load", "sgen", "gen")):
        t.add("oos_element")
    if len(net.switch):
        if (~net.switch.closed).any():
            t.add("open_switch")
        if ((net.switch.et == "b") & net.switch.closed).any():
            t.add("fused_buses")
    if len(net.trafo):
        tr = net.trafo
        if (tr.tap_pos.fillna(0) != tr.tap_neutral.fillna(0)).any():
            t.add("tap_off_neutral")
        if (tr.shift_degree != 0).any() or (tr.tap_step_degree.fillna(0) != 0).any():
            t.add("phase_shift")
        if (tr.pfe_kw > 0).any():
            t.add("branch_g")
    if (net.line.g_us_per_km > 0).any():
        t.add("branch_g")
    return t


def convert(net, route, opts, tag):
    kw = dict(trafo_model="pi", calculate_voltage_angles=opts["calculate_voltage_angles"], init=opts["init"])
    for k in ("switch_rx_ratio", "check_connectivity"):
        if k in opts:
            kw[k] = opts[k]
    if route == "ppc":
        ppc = to_ppc(net, **kw)
        keep = copy.deepcopy(ppc)
        return from_ppc(ppc, f_hz=net.f_hz), keep
    d = os.path.join(common.WORK, "c21")
    os.makedirs(d, exist_ok=True)
    path = os.path.join(d, "case_%d_%s.mat" % (os.getpid(), tag))
    try:
        mpc = to_mpc(net, path, **kw)
        return from_mpc(path, f_hz=net.f_hz), mpc["mpc"]
    finally:
        if os.path.exists(path):
            os.remove(path)


def _single_row_case(net, opts):
    """True if the bus or the branch matrix of the exported case has at most one row"""
    kw = {k: opts[k] for k in ("switch_rx_ratio", "check_connectivity") if k in opts}
    ppc = to_ppc(net, trafo_model="pi", calculate_voltage_angles=opts["calculate_voltage_angles"], init="flat", **kw)
    return ppc["branch"].shape[0] <= 1 or ppc["bus"].shape[0] <= 1


def run_opts(opts, converted=False):
    """options of the original run; the converted net carries every phase shift explicitly in the case data (PYPOWER always
    applies SHIFT), so it is solved with calculate_voltage_angles=True like validate_from_ppc does"""
    o = dict(trafo_model="pi", voltage_depend_loads=False, calculate_voltage_angles=opts["calculate_voltage_angles"], tolerance_mva=1e-9)
    for k in ("switch_rx_ratio", "check_connectivity"):
        if k in opts:
            o[k] = opts[k]
    if converted:
        o["calculate_voltage_angles"] = True
    return o


def observe(net):
    """what the oracle needs from the solved original: complex bus voltages, net injections, ppc level losses, lookups"""
    v = net.res_bus.vm_pu.values * np.exp(1j * np.deg2rad(net.res_bus.va_degree.values))
    br = net._ppc["branch"]
    on = br[:, BR_STATUS].real > 0
    loss = float(np.nansum(br[on, PF].real + br[on, PT].real))
    return {"V": v, "p": net.res_bus.p_mw.values.copy(), "q": net.res_bus.q_mvar.values.copy(), "loss": loss,
            "index": np.array(net.bus.index)}


def compare(orig, lookup, ref_pos, n2):
    """list of (kind, text, size); orig = observe(original), lookup = pp bus -> ppci bus of the conversion"""
    out = []
    stats = {"buses_compared": 0, "ref_buses_compared": 0, "aux_buses": 0}
    v2 = n2.res_bus.vm_pu * np.exp(1j * np.deg2rad(n2.res_bus.va_degree))
    matched = set()
    worst = (0., None)
    for k, b in enumerate(orig["index"]):
        if np.isnan(orig["V"][k]):
            continue
        i = int(lookup[b]) if 0 <= b < len(lookup) else -1
        if i < 0 or i not in n2.bus.index:
            out.append(("bus_lost", "energized bus %s of the original has no counterpart (lookup %s)" % (b, i), np.inf))
            continue
        matched.add(i)
        stats["buses_compared"] += 1
        d = abs(orig["V"][k] - v2.at[i])
        if not d <= 1e-6:
            if not d <= worst[0]:
                worst = (d if np.isfinite(d) else np.inf, (b, i, orig["V"][k], v2.at[i]))
    if worst[1] is not None:
        b, i, a, c = worst[1]
        out.append(("voltage", "bus %s (ppc bus %s): original %.9f pu / %.6f deg, round trip %.9f pu / %.6f deg (|dV| = %.3e)" % (
            b, i, abs(a), np.rad2deg(np.angle(a)), abs(c), np.rad2deg(np.angle(c)), worst[0]), worst[0]))
    stats["aux_buses"] = len(set(n2.bus.index) - matched)
    # slack: net injection at every reference bus of the ppc
    for i in ref_pos:
        grp = [k for k, b in enumerate(orig["index"]) if 0 <= b < len(lookup) and lookup[b] == i and not np.isnan(orig["V"][k])]
        if not grp or i not in n2.res_bus.index:
            continue
        p1, q1 = float(np.sum(orig["p"][grp])), float(np.sum(orig["q"][grp]))
        p2, q2 = float(n2.res_bus.p_mw.at[i]), float(n2.res_bus.q_mvar.at[i])
        stats["ref_buses_compared"] += 1
        tol = 1e-5 + 1e-7 * abs(complex(p1, q1))
        if not (abs(p1 - p2) <= tol and abs(q1 - q2) <= tol):
            out.append(("slack", "reference bus %s: net injection original (%.7f MW, %.7f Mvar), round trip (%.7f, %.7f)" % (i, p1, q1, p2, q2),
                        max(abs(p1 - p2), abs(q1 - q2))))
    loss2 = float(sum(n2[t].pl_mw.sum() for t in ("res_line", "res_trafo", "res_impedance") if len(n2[t])))
    if not abs(orig["loss"] - loss2) <= 1e-5 + 1e-7 * abs(orig["loss"]):
        out.append(("losses", "total branch losses: original %.7f MW, round trip %.7f MW" % (orig["loss"], loss2), abs(orig["loss"] - loss2)))
    return out, stats


def solve_converted(n2, opts, orig, lookup):
    """runpp on the converted net; returns status"""
    st, exc = pf.try_run(pp.runpp, n2, **run_opts(opts, True))
    if st != "ok":
        st, exc = pf.try_run(pp.runpp, n2, init="flat", **run_opts(opts, True))
    return st, exc


def start_from_original(n2, opts, orig, lookup):
    """re-solve the converted net starting from the original solution (distinguishes alternate roots)"""
    vm = np.ones(len(n2.bus))
    va = np.zeros(len(n2.bus))
    pos = {b: k for k, b in enumerate(n2.bus.index)}
    for k, b in enumerate(orig["index"]):
        if not np.isnan(orig["V"][k]) and 0 <= b < len(lookup) and lookup[b] in pos:
            vm[pos[lookup[b]]] = abs(orig["V"][k])
            va[pos[lookup[b]]] = np.rad2deg(np.angle(orig["V"][k]))
    n3 = copy.deepcopy(n2)
    st, _ = pf.try_run(pp.runpp, n3, init_vm_pu=vm, init_va_degree=va, **run_opts(opts, True))
    return (n3 if st == "ok" else None)


def explain_line_g(n2, ppc, opts, orig, lookup, ref_pos):
    """from_ppc writes g_us_per_km = BR_G/Zni*1e6/2 although BR_G is the total conductance of the branch (like BR_B): if every
    converted line carries exactly half of the conductance of its ppc branch and doubling it removes all differences, the
    witness is explained by that formula"""
    if "branch_g" not in ppc or "_from_ppc_lookups" not in n2 or not len(n2.line):
        return False
    lk = n2._from_ppc_lookups["branch"]
    g = np.asarray(ppc["branch_g"]).real
    hit = False
    n3 = copy.deepcopy(n2)
    for k in range(len(lk)):
        if lk.element_type.iat[k] != "line" or g[k] == 0:
            continue
        li = int(lk.element.iat[k])
        tb = int(n2.line.to_bus.at[li])
        zni = float(n2.bus.vn_kv.at[tb]) ** 2 / float(ppc["baseMVA"])
        full = g[k] / zni * 1e6
        if not np.isclose(n2.line.g_us_per_km.at[li] * n2.line.length_km.at[li], full / 2., rtol=1e-9, atol=0):
            return False
        n3.line.at[li, "g_us_per_km"] = full / n2.line.length_km.at[li]
        hit = True
    if not hit:
        return False
    st, _ = solve_converted(n3, opts, orig, lookup)
    if st != "ok":
        return False
    diffs, _ = compare(orig, lookup, ref_pos, n3)
    return not diffs


def run_case(seed, tier, case_no):
    net, route, opts, tags, profile = gen_case(seed)
    tags |= feature_tags(net)
    tags.add("cva=%s" % opts["calculate_voltage_angles"])
    tags.add("init=" + opts["init"])
    digest = common.net_digest(net, {"route": route, "o": opts})
    sample = {"profile": profile, "route": route, "options": opts, "net": netgen.describe(net)}
    st, exc = pf.try_run(pp.runpp, net, **run_opts(opts))
    if st != "ok":
        return common.case(digest, nontrivial=False, tags=tags, skipped="orig_" + st, sample=sample)
    orig = observe(net)
    if np.nanmin(np.abs(orig["V"])) < 0.5:
        return common.case(digest, nontrivial=False, tags=tags, skipped="orig_low_voltage_root", sample=sample)
    ident = {"seed": seed, "profile": profile, "route": route, "options": opts}
    try:
        n2, ppc = convert(net, route, opts, str(case_no))
    except Exception as e:  # noqa
        mech = None
        if route == "mpc" and isinstance(e, IndexError) and "1-dimensional" in str(e) and _single_row_case(net, opts):
            # scipy.io.loadmat(squeeze_me=True) returns a one-row bus / branch matrix as a vector; from_mpc only re-shapes gen
            mech = "from_mpc_single_row_squeezed"
        return common.case(digest, nontrivial=True, tags=tags, sample=sample, violations=[common.viol(
            "conversion (%s) raised %s: %s" % (route, type(e).__name__, str(e)[:300]), mechanism=mech, **ident)])
    lookup = np.array(net._pd2ppc_lookups["bus"]).copy()
    ref_pos = [int(b) for b in np.asarray(ppc["bus"])[np.asarray(ppc["bus"])[:, BUS_TYPE].real == 3, 0].real]
    if route == "mpc":
        ref_pos = [b - 1 for b in ref_pos] if np.asarray(ppc["bus"])[:, 0].real.min() >= 1 else ref_pos
    st2, exc2 = solve_converted(n2, opts, orig, lookup)
    if st2 != "ok":
        return common.case(digest, nontrivial=True, tags=tags, sample=sample, violations=[common.viol(
            "power flow of the round-tripped network fails (%s: %s) although the original converged" % (st2, str(exc2)[:200]), **ident)])
    diffs, stats = compare(orig, lookup, ref_pos, n2)
    viols = []
    if diffs:
        n3 = start_from_original(n2, opts, orig, lookup)
        if n3 is not None and not compare(orig, lookup, ref_pos, n3)[0]:
            tags.add("alternate_root")
            return common.case(digest, nontrivial=False, tags=tags, skipped="alternate_root", sample=sample, extra=stats)
        mech = None
        if route == "ppc" and explain_line_g(n2, ppc, opts, orig, lookup, ref_pos):
            mech = "from_ppc_halves_line_conductance"
        diffs.sort(key=lambda x: -x[2])
        viols.append(common.viol("round trip via %s changes the power flow result: %s" % (route, "; ".join(d[1] for d in diffs[:3])),
                                 mechanism=mech, kinds=sorted({d[0] for d in diffs}), net=netgen.describe(net), **ident))
    return common.case(digest, nontrivial=stats["buses_compared"] >= 4, tags=tags, violations=viols, sample=sample,
                       evals=stats["buses_compared"] + stats["ref_buses_compared"] + 1, extra=stats)
