"""C11 - the three-phase power flow runpp_3ph is consistent with the symmetric power flow runpp on balanced networks, and its
per-phase results satisfy element sums and per-phase nodal balance on unbalanced ones."""
import copy

import numpy as np
import pandapower as pp
from pandapower.auxiliary import LoadflowNotConverged
from pandapower.pf.runpp_3ph import runpp_3ph

from .. import common
from ..gen import netgen, net3ph

PROPERTY = "C11"
READY = True
LEVEL = "exploration"
TECHNIQUE = ("runtime monitoring: runpp_3ph result tables of seeded random networks judged by (a) re-execution with the symmetric "
             "runpp on balanced inputs and (b) an independent per-phase Kirchhoff balance with wye/delta constant-power load models")
CASES = {"quick": 1600, "thorough": 40000}
BUDGET = {"quick": 60, "thorough": 1200}
FLOORS = {"quick": {"nontrivial": 750, "tags": {"balanced": 350, "unbalanced": 400, "vg:Dyn": 300, "vg:YNyn": 150, "vg:Yzn": 150,
                                                "delta": 700, "wye_asym": 600, "asym_sgen": 500, "two_levels": 500, "meshed": 250,
                                                "two_ext_grids": 50, "open_line_switch": 50},
                    "extras": {"bal_bus_cmp": 12000, "bal_branch_cmp": 15000, "balance_bus_phase": 10000, "elem_rows": 6000},
                    "max_skip_frac": 0.2},
          "thorough": {"nontrivial": 15000, "tags": {"balanced": 8000, "unbalanced": 8000, "vg:Yzn": 1000, "delta": 5000},
                       "extras": {"balance_bus_phase": 250000}, "max_skip_frac": 0.2}}
RULE = ("seeded random 1-3 level networks (110/20/10/0.4 kV) with zero-sequence line data, Dyn/YNyn/Yzn transformers with zero-sequence "
        "data, 1-2 ext_grids with short-circuit data, symmetric loads/sgens and wye/delta asymmetric loads/sgens; ~45 % of the cases "
        "are balanced (equal phase values) and additionally compared with runpp; non-trivial = converged with >= 2 energized buses "
        "and >= 1 in-service P/Q element away from the slack bus; distinct = digest of the input tables")
ASSUMPTIONS = ["both power flows run with tolerance_mva = 1e-10*sn_mva (option documented for both); balanced comparison bounds: "
               "1e-6 p.u., 1e-4 deg, 1e-6*sn_mva + 1e-6*|S| MVA",
               "runpp_3ph stops its sequence iteration on a hard-coded 3e-8 p.u. positive-sequence mismatch: per-phase nodal balance "
               "bound 1e-4*sn_mva + 1e-6*sum|S| MVA (20x the worst residual measured on 5 100 cases of the unchanged tree)",
               "delta elements: p_a/q_a = power of the branch a-b (b-c, c-a); terminal powers computed from the reported phase voltages",
               "branches that are NaN in res_*_3ph and 0/NaN in res_* (de-energized) are not compared; NaN conventions belong to C07",
               "non-convergence is skipped (bounded by max_skip_frac); any other exception of runpp_3ph on these documented inputs is a violation"]

PH = "abc"
SHIFT = {"a": 0., "b": -120., "c": 120.}


def _angle_diff(a, b):
    return (a - b + 180.) % 360. - 180.


# ------------------------------------------------------------------------------------------------ independent load model
def _spec_phase_powers(net):
    """specified per-phase complex consumption (MVA) of every bus: dict bus -> {"wye": [Sa,Sb,Sc], "delta": [Sab,Sbc,Sca]}
    (generation negative)."""
    out = {}

    def add(bus, typ, s):
        d = out.setdefault(int(bus), {"wye": np.zeros(3, complex), "delta": np.zeros(3, complex)})
        d["delta" if typ == "delta" else "wye"] += s

    for el, sign in (("load", 1.), ("sgen", -1.)):
        t = net[el]
        for i in t.index[t.in_service.values.astype(bool)] if len(t) else []:
            s = complex(t.at[i, "p_mw"], t.at[i, "q_mvar"]) * float(t.at[i, "scaling"]) * sign / 3.
            add(t.at[i, "bus"], t.at[i, "type"], np.array([s, s, s]))
    for el, sign in (("asymmetric_load", 1.), ("asymmetric_sgen", -1.)):
        t = net[el]
        for i in t.index[t.in_service.values.astype(bool)] if len(t) else []:
            s = np.array([complex(t.at[i, "p_%s_mw" % p], t.at[i, "q_%s_mvar" % p]) for p in PH]) * float(t.at[i, "scaling"]) * sign
            add(t.at[i, "bus"], t.at[i, "type"], s)
    return out


def _terminal_powers(spec, v):
    """per-phase terminal consumption [Sa,Sb,Sc] of the wye + delta constant-power elements of one bus at phase voltages v"""
    s = spec["wye"].copy()
    sd = spec["delta"]
    if np.any(sd != 0):
        vll = np.array([v[0] - v[1], v[1] - v[2], v[2] - v[0]])
        ill = np.conj(sd / vll)                                          # currents in the branches ab, bc, ca
        il = np.array([ill[0] - ill[2], ill[1] - ill[0], ill[2] - ill[1]])  # line currents a, b, c
        s = s + v * np.conj(il)
    return s


def _col(df, name):
    v = df[name].values.astype(float)
    return np.where(np.isnan(v), 0., v)


def nodal_balance_3ph(net):
    """list of (bus, phase, mismatch, scale) for every energized bus: ext_grid injection - element consumption - branch outflow"""
    rb = net.res_bus_3ph
    spec = _spec_phase_powers(net)
    out_s = {int(b): np.zeros(3, complex) for b in net.bus.index}
    scale = {int(b): np.zeros(3) for b in net.bus.index}
    for tab, sides in (("line", (("from_bus", "from"), ("to_bus", "to"))), ("trafo", (("hv_bus", "hv"), ("lv_bus", "lv")))):
        t, r = net[tab], net["res_%s_3ph" % tab]
        if not len(t):
            continue
        for bcol, side in sides:
            s = np.array([_col(r, "p_%s_%s_mw" % (p, side)) + 1j * _col(r, "q_%s_%s_mvar" % (p, side)) for p in PH]).T
            for k, b in enumerate(t[bcol].values):
                out_s[int(b)] += s[k]
                scale[int(b)] += np.abs(s[k])
    inj = {int(b): np.zeros(3, complex) for b in net.bus.index}
    r = net.res_ext_grid_3ph
    for k, b in enumerate(net.ext_grid.bus.values):
        s = np.array([complex(_col(r, "p_%s_mw" % p)[k], _col(r, "q_%s_mvar" % p)[k]) for p in PH])
        inj[int(b)] += s
        scale[int(b)] += np.abs(s)
    res = []
    for b in net.bus.index:
        b = int(b)
        if np.isnan(rb.vm_a_pu.at[b]):
            continue
        v = np.array([rb.at[b, "vm_%s_pu" % p] * np.exp(1j * np.deg2rad(rb.at[b, "va_%s_degree" % p])) for p in PH])
        cons = _terminal_powers(spec[b], v) if b in spec else np.zeros(3, complex)
        m = inj[b] - cons - out_s[b]
        res.append((b, m, scale[b] + np.abs(cons), cons))
    return res


def _slack_buses(net):
    eg = net.ext_grid[net.ext_grid.in_service]
    return set(int(b) for b in eg.bus.values)


def run_case(seed, tier, case_no):
    g = netgen.G(seed)
    balanced = g.B(0.45)
    net = net3ph.rnd_net3ph(int(g.rng.integers(0, 2 ** 62)), balanced)
    tol = 1e-10 * float(net.sn_mva)
    opts = {"tolerance_mva": tol}
    if g.B(0.15):
        opts["numba"] = False
    if g.B(0.08):
        opts["trafo_loading"] = "power"
    digest = common.net_digest(net, {"o": opts})
    sample = {"balanced": balanced, "net": netgen.describe(net), "vn_kv": sorted(set(net.bus.vn_kv), reverse=True), "options": opts,
              "vector_groups": sorted(set(net.trafo.vector_group)) if len(net.trafo) else []}
    tags = net_tags(net, balanced)
    slack = _slack_buses(net)
    spec = _spec_phase_powers(net)
    base = copy.deepcopy(net)
    try:
        runpp_3ph(net, **opts)
    except LoadflowNotConverged:
        return common.case(digest, nontrivial=False, tags=tags, skipped="notconv_3ph", sample=sample)
    except Exception as e:  # noqa
        if _n_supplied(base) < 2:
            return common.case(digest, nontrivial=False, tags=tags | {"degenerate"}, skipped="degenerate_single_bus", sample=sample)
        # trafo_loading="power": (3, n_trafo) / sn_mva[:, newaxis] in the 3ph transformer results cannot broadcast for n_trafo = 2 or > 3
        mech = "trafo_loading_power_3ph_broadcast" if (isinstance(e, ValueError) and "broadcast" in str(e) and len(net.trafo) not in (1, 3)
                                                       and opts.get("trafo_loading") == "power") else None
        v = common.viol("runpp_3ph raised %s: %s" % (type(e).__name__, str(e)[:200]), mechanism=mech, exception=type(e).__name__, seed=seed)
        return common.case(digest, nontrivial=False, tags=tags, violations=[v], sample=sample)
    if net.res_bus_3ph.vm_a_pu.notna().sum() < 2:
        return common.case(digest, nontrivial=False, tags=tags | {"degenerate"}, skipped="degenerate_single_bus", sample=sample)
    extra = {"bal_bus_cmp": 0, "bal_branch_cmp": 0, "balance_bus_phase": 0, "elem_rows": 0}
    viols = check_elements(net, extra)                       # clause 2a: element tables = inputs, bus table = sum of elements
    viols += check_nodal_balance(net, extra)                 # clause 2b: Kirchhoff per phase
    if balanced:
        viols += check_balanced(net, base, tol, extra)       # clause 1: agreement with runpp
    for v in viols:
        v["witness"]["seed"] = seed
    nontrivial = any(b not in slack for b in spec)
    return common.case(digest, nontrivial=nontrivial, tags=tags, violations=viols, sample=sample, evals=2 if balanced else 1, extra=extra)


def _n_supplied(base):
    try:
        pp.runpp(base, calculate_voltage_angles=True)
        return int(base.res_bus.vm_pu.notna().sum())
    except Exception:  # noqa
        return 99


def net_tags(net, balanced):
    tags = {"balanced" if balanced else "unbalanced"}
    for vg in set(net.trafo.vector_group) if len(net.trafo) else ():
        tags.add("vg:" + vg)
    if len(set(net.bus.vn_kv)) > 1:
        tags.add("two_levels")
    if len(net.line) > len(net.bus) - len(set(net.bus.vn_kv)):
        tags.add("meshed")
    for el in ("asymmetric_load", "asymmetric_sgen", "load", "sgen"):
        t = net[el][net[el].in_service] if len(net[el]) else net[el]
        if len(t) and (t.type == "delta").any():
            tags.add("delta")
        if len(t) and el.startswith("asym") and (t.type == "wye").any():
            tags.add("wye_asym")
    if len(net.asymmetric_sgen) and net.asymmetric_sgen.in_service.any():
        tags.add("asym_sgen")
    if net.ext_grid.in_service.sum() > 1:
        tags.add("two_ext_grids")
    if any(b in _slack_buses(net) for b in _spec_phase_powers(net)):
        tags.add("load_at_slack_bus")
    if len(net.switch) and (~net.switch.closed).any():
        tags.add("open_line_switch")
    if (~net.line.in_service).any():
        tags.add("oos_line")
    return tags


# ------------------------------------------------------------------------------------------------ clause 2b
def _eg_seq_admittance_gap(net, b):
    """sum over the in-service ext_grids at bus b of (y0 - y2) in MVA at 1 p.u. per phase, from the documented short-circuit data
    (z = c/(s_sc/3), c = 1.1, split by rx_max; zero sequence: x0 = x0x_max*x, r0 = r0x0_max*x0)"""
    dy = 0j
    eg = net.ext_grid[(net.ext_grid.bus == b) & net.ext_grid.in_service]
    for _, e in eg.iterrows():
        x = 1.1 / (e.s_sc_max_mva / 3.) / np.sqrt(e.rx_max ** 2 + 1)
        x0 = e.x0x_max * x
        dy += 1 / (e.r0x0_max * x0 + 1j * x0) - 1 / (e.rx_max * x + 1j * x)
    return dy


def check_nodal_balance(net, extra):
    sn = float(net.sn_mva)
    slack = _slack_buses(net)
    rb = net.res_bus_3ph
    bad = {}
    for b, m, scale, cons in nodal_balance_3ph(net):
        bound = 1e-4 * sn + 1e-6 * scale
        err = np.where(np.isfinite(np.abs(m)), np.abs(m), np.inf)
        extra["balance_bus_phase"] += 3
        if (err <= bound).all():
            continue
        mechs = [None]
        if b in slack:
            # candidate explanations of a mismatch at an ext_grid bus (both are defects of the ext_grid result rows only):
            # A the ext_grid rows lack the consumption of the P/Q elements connected to the ext_grid bus
            # B the zero-sequence shunt of the ext_grid is removed with the negative-sequence admittance: a shunt y0-y2 stays
            v = np.array([rb.at[b, "vm_%s_pu" % p] * np.exp(1j * np.deg2rad(rb.at[b, "va_%s_degree" % p])) for p in PH])
            pa, pb = -cons, v * np.conj(_eg_seq_admittance_gap(net, b) * v.sum() / 3.)
            cand = {"ext_grid_3ph_ignores_load_at_slack_bus": pa, "ext_grid_3ph_zero_seq_shunt_residual": pb}
            for names in (("ext_grid_3ph_ignores_load_at_slack_bus",), ("ext_grid_3ph_zero_seq_shunt_residual",), tuple(cand)):
                pred = sum(cand[n] for n in names)
                if (np.abs(m - pred) <= bound + 1e-6 * np.abs(pred)).all():
                    mechs = [n for n in names if (np.abs(cand[n]) > bound / 2).any()] or [None]
                    break
        k = int((err / bound).argmax())
        for mech in mechs:
            if mech not in bad or err[k] / bound[k] > bad[mech][0]:
                bad[mech] = (err[k] / bound[k], b, PH[k], m[k], bound[k])
    return [common.viol("per-phase nodal balance violated at bus %d phase %s: mismatch %.3e%+.3ej MVA (bound %.1e)" % (
        b, p, m.real, m.imag, bound), mechanism=mech, bus=b, phase=p, mismatch=[m.real, m.imag]) for mech, (_, b, p, m, bound) in bad.items()]


# ------------------------------------------------------------------------------------------------ clause 2a
def check_elements(net, extra):
    viols = []
    rb = net.res_bus_3ph
    en = rb.vm_a_pu.notna()
    sn = float(net.sn_mva)
    tot = {p: np.zeros(len(net.bus), complex) for p in PH}
    pos = {int(b): i for i, b in enumerate(net.bus.index)}
    for el, sign in (("load", 1.), ("sgen", -1.), ("asymmetric_load", 1.), ("asymmetric_sgen", -1.)):
        t = net[el]
        if not len(t):
            continue
        r = net["res_%s_3ph" % el]
        if list(r.index) != list(t.index):
            viols.append(common.viol("res_%s_3ph index differs from net.%s index" % (el, el), element=el))
            continue
        ok = en.loc[t.bus.values].values
        on = t.in_service.values.astype(bool) & ok
        extra["elem_rows"] += int(ok.sum())
        if el in ("load", "sgen"):
            exp = {"": (t.p_mw.values + 1j * t.q_mvar.values) * t.scaling.values * on}
            got = {"": r.p_mw.values + 1j * r.q_mvar.values}
            per_phase = {p: exp[""] / 3. for p in PH}
        else:
            exp = {p: (t["p_%s_mw" % p].values + 1j * t["q_%s_mvar" % p].values) * t.scaling.values * on for p in PH}
            got = {p: r["p_%s_mw" % p].values + 1j * r["q_%s_mvar" % p].values for p in PH}
            per_phase = exp
            exp["sum"], got["sum"] = sum(exp[p] for p in PH), sum(got[p] for p in PH)
        for key in exp:
            d = np.where(ok, np.abs(got[key] - exp[key]), 0.)
            d = np.where(np.isnan(d), np.inf, d)
            if d.max() > 1e-9 * sn + 1e-9 * np.abs(exp[key]).max():
                i = int(d.argmax())
                viols.append(common.viol("res_%s_3ph row %s %s = %s, specified value*scaling = %s" % (
                    el, t.index[i], "total" if key in ("", "sum") else "phase " + key, got[key][i], exp[key][i]), element=el))
                break
        for k, b in enumerate(t.bus.values):
            for p in PH:
                tot[p][pos[int(b)]] += sign * per_phase[p][k]
    # res_bus_3ph = element consumption - ext_grid injection, per phase
    eg = net.res_ext_grid_3ph
    for k, b in enumerate(net.ext_grid.bus.values):
        for p in PH:
            tot[p][pos[int(b)]] -= complex(_col(eg, "p_%s_mw" % p)[k], _col(eg, "q_%s_mvar" % p)[k])
    for p in PH:
        got = rb["p_%s_mw" % p].values + 1j * rb["q_%s_mvar" % p].values
        d = np.where(en.values, np.abs(got - tot[p]), 0.)
        d = np.where(np.isnan(d), np.inf, d)
        if d.max() > 1e-8 * sn + 1e-9 * np.abs(tot[p]).max():
            i = int(d.argmax())
            viols.append(common.viol("res_bus_3ph phase %s at bus %s = %s but its element tables sum to %s" % (
                p, net.bus.index[i], got[i], tot[p][i])))
            break
    return viols


# ------------------------------------------------------------------------------------------------ clause 1
def _pairs():
    pairs = [("bus", "p_%s_mw", "p_mw"), ("bus", "q_%s_mvar", "q_mvar")]
    for tab, sides in (("line", ("from", "to")), ("trafo", ("hv", "lv"))):
        for side in sides:
            pairs += [(tab, "p_%%s_%s_mw" % side, "p_%s_mw" % side), (tab, "q_%%s_%s_mvar" % side, "q_%s_mvar" % side)]
    return pairs + [("ext_grid", "p_%s_mw", "p_mw"), ("ext_grid", "q_%s_mvar", "q_mvar")]


def check_balanced(net, base, tol, extra):
    """compare the 3ph tables of net with runpp on the untouched copy base; returns violations"""
    sn = float(net.sn_mva)
    try:
        pp.runpp(base, calculate_voltage_angles=True, trafo_model="t", voltage_depend_loads=False, tolerance_mva=tol, init="dc",
                 max_iteration=30)
    except LoadflowNotConverged:
        return []
    rb, r3 = base.res_bus, net.res_bus_3ph
    e1, e3 = rb.vm_pu.notna().values, r3.vm_a_pu.notna().values
    if (e1 != e3).any():
        return [common.viol("set of energized buses differs: runpp %s, runpp_3ph %s" % (list(rb.index[e1]), list(r3.index[e3])))]
    slack = _slack_buses(net)
    bad = []   # (relative excess, text, table, row index)
    for p in PH:
        dv = np.abs(r3["vm_%s_pu" % p].values - rb.vm_pu.values)
        da = np.abs(_angle_diff(r3["va_%s_degree" % p].values, rb.va_degree.values + SHIFT[p]))
        extra["bal_bus_cmp"] += int(e1.sum())
        for i in np.flatnonzero(e1 & ~((dv <= 1e-6) & (da <= 1e-4))):
            bad.append((max(dv[i] / 1e-6, da[i] / 1e-4), "bus %s phase %s: vm %.9f / va %.6f deg, runpp vm %.9f / va%+g = %.6f deg" % (
                rb.index[i], p, r3["vm_%s_pu" % p].values[i], r3["va_%s_degree" % p].values[i], rb.vm_pu.values[i], SHIFT[p],
                rb.va_degree.values[i] + SHIFT[p]), "voltage", rb.index[i]))
        for tab, c3, c1 in _pairs():
            if not len(net[tab]):
                continue
            a = net["res_%s_3ph" % tab][c3 % p].values.astype(float) * 3.
            b = base["res_" + tab][c1].values.astype(float)
            live = e1 if tab == "bus" else ~((np.isnan(a) | (a == 0)) & (np.isnan(b) | (b == 0)))    # not de-energized in both
            extra["bal_branch_cmp" if tab != "bus" else "bal_bus_cmp"] += int(live.sum())
            d = np.abs(a - b)
            rel = np.where(np.isnan(d), np.inf, d) / (1e-6 * sn + 1e-6 * np.abs(np.nan_to_num(b)))
            for i in np.flatnonzero(live & (rel > 1.)):
                bad.append((rel[i], "3*res_%s_3ph.%s = %.9g but runpp %s = %.9g (row %s)" % (tab, c3 % p, a[i], c1, b[i], net[tab].index[i]),
                            tab, net[tab].index[i]))
    viols = []
    # known signature 1: ext_grid rows (and the res_bus rows of their buses) lack the consumption connected to the slack bus
    sl_rows = [x for x in bad if x[2] == "ext_grid" or (x[2] == "bus" and x[3] in slack)]
    if sl_rows and _slack_load_explains(net, base):
        viols.append(common.viol("balanced network: ext_grid results of runpp_3ph disagree with runpp: " + sl_rows[0][1],
                                 mechanism="ext_grid_3ph_ignores_load_at_slack_bus", differing=[x[1] for x in sl_rows[:4]]))
        bad = [x for x in bad if x not in sl_rows]
    if bad:
        bad.sort(key=lambda x: -x[0])
        viols.append(common.viol("balanced network: runpp_3ph disagrees with runpp: %s (%d differing quantities in %s)" % (
            bad[0][1], len(bad), sorted(set(x[2] for x in bad))), differing=[x[1] for x in bad[:6]]))
    return viols


def _slack_load_explains(net, base):
    """runpp ext_grid power - 3 * 3ph phase power == consumption of the P/Q elements at the ext_grid bus, for every ext_grid"""
    spec = _spec_phase_powers(net)
    eg = net.ext_grid
    seen = False
    for k, b in enumerate(eg.bus.values):
        if not eg.in_service.values[k]:
            continue
        cons = (spec[int(b)]["wye"].sum() + spec[int(b)]["delta"].sum()) if int(b) in spec else 0j
        for p in PH:
            d = complex(base.res_ext_grid.p_mw.values[k], base.res_ext_grid.q_mvar.values[k]) - 3 * complex(
                net.res_ext_grid_3ph["p_%s_mw" % p].values[k], net.res_ext_grid_3ph["q_%s_mvar" % p].values[k])
            if not abs(d - cons) <= 2e-6 * float(net.sn_mva) + 2e-6 * (abs(cons) + abs(d)):
                return False
        seen = seen or abs(cons) > 0
    return seen
