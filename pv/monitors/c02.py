"""C02 - documented equivalent circuits (reference-model monitor: independent physical-unit element models evaluated at the
reported bus voltages must reproduce every reported branch terminal power, current and loading)."""
import numpy as np
import pandapower as pp

from .. import common, pf
from ..gen import netgen
from ..oracles import physical as ph

PROPERTY = "C02"
READY = True
LEVEL = "exploration"
TECHNIQUE = "runtime monitoring: independent physical-unit reference models of line / transformer / impedance / impedance switch / xward evaluated at the reported voltages of every converged power flow and compared row by row with the result tables"
CASES = {"quick": 500, "thorough": 25000}
BUDGET = {"quick": 60, "thorough": 1200}
FLOORS = {"quick": {"nontrivial": 120, "extras": {"line_rows": 600, "trafo_rows": 300, "impedance_rows": 30, "zswitch_rows": 20, "xward_rows": 20, "trafo3w_rows": 60, "trafo3w_star_tap": 8,
                                                  "dc_line_rows": 100, "dc_trafo_rows": 40, "trafo_tap_offnominal": 200, "trafo_lv_tap": 30,
                                                  "trafo_phase_tap": 30, "trafo_tabular": 20},
                    "tags": {"trafo_model=t": 40, "trafo_model=pi": 40, "loading=power": 30, "angles=False": 30}, "max_skip_frac": 0.4},
          "thorough": {"nontrivial": 5000, "extras": {"line_rows": 40000, "trafo_rows": 25000}, "max_skip_frac": 0.4}}
RULE = ("seeded random networks with random ohmic data, taps at every position on both sides, all tap changer types (Ratio, "
        "Symmetrical, Ideal by degree / percent, Tabular), shifts, parallel, df, asymmetric impedances, impedance switches, xwards; "
        "options trafo_model t/pi x trafo_loading current/power x calculate_voltage_angles on/off x AC/DC; every branch row is one "
        "oracle evaluation; non-trivial = converged and >= 3 branch rows carrying > 1e-3 MVA; distinct = digest of inputs+options")
ASSUMPTIONS = ["model agreement tolerance 1e-6 MVA / 1e-7 kA / 1e-4 % absolute + 1e-8 relative (observed noise <= 1e-11 on the unchanged tree)",
               "tap changer on the lv side also rescales the short-circuit impedance (documented as consistent with Sincal): taken as the documented behaviour",
               "trafo3w: three two-winding equivalents around the reported internal voltage, delta-star conversion of r and x separately (the documentation shows magnitudes only), star-point taps by the documented inversion; rows with a tap table, trafo3w_losses=star or calculate_voltage_angles=False are skipped",
               "DC runs: line flows from the B-model exactly; transformer rows only p_hv = -p_lv, pl = 0 and, for trafo_model='pi', the B-model flow"]

TOL = {"p": 1e-6, "q": 1e-6, "i": 1e-7, "l": 1e-4, "pl": 2e-6, "ql": 2e-6}


def _cmp(viols, opts, el, idx, got, exp, scale):
    for k, e in exp.items():
        if k not in got:
            continue
        g = got[k]
        kind = "i" if k.startswith("i_") else ("l" if k.startswith("loading") else k.split("_")[0])
        tol = TOL.get(kind, 1e-6) + 1e-8 * max(abs(e), scale)
        if not (np.isfinite(g) and abs(g - e) <= tol):
            viols.append(common.viol("%s %s: %s reported %.9g, documented model gives %.9g (diff %.3e)" % (el, idx, k, g, e, g - e),
                                     options=opts, element=el, index=int(idx), column=k))
            return


def check_ac(net, opts, cnt):
    viols = []
    model = opts.get("trafo_model", "t")
    loading = opts.get("trafo_loading", "current")
    angles = bool(net._options["calculate_voltage_angles"])
    vm = net.res_bus.vm_pu
    loaded = 0
    for i in net.line.index:
        l = net.line.loc[i]
        if not l.in_service or np.isnan(vm.at[l.from_bus]) or np.isnan(vm.at[l.to_bus]) or _has_open_switch(net, "l", i):
            continue
        exp = ph.line_model(net, i)
        got = net.res_line.loc[i]
        cnt["line_rows"] += 1
        s = abs(complex(exp["p_from_mw"], exp["q_from_mvar"]))
        loaded += s > 1e-3
        _cmp(viols, opts, "line", i, got, exp, s)
    for i in net.trafo.index:
        t = net.trafo.loc[i]
        if not t.in_service or np.isnan(vm.at[t.hv_bus]) or np.isnan(vm.at[t.lv_bus]) or _has_open_switch(net, "t", i):
            continue
        try:
            exp = ph.trafo_model(net, i, model, angles, loading)
        except LookupError:
            continue
        got = net.res_trafo.loc[i]
        cnt["trafo_rows"] += 1
        if not np.isnan(t.tap_pos) and t.tap_pos != t.tap_neutral:
            cnt["trafo_tap_offnominal"] += 1
            if t.tap_side == "lv":
                cnt["trafo_lv_tap"] += 1
            if angles and (t.tap_changer_type == "Ideal" or (not np.isnan(t.tap_step_degree) and t.tap_step_degree != 0)):
                cnt["trafo_phase_tap"] += 1
        if bool(t.get("tap_dependency_table", False)):
            cnt["trafo_tabular"] += 1
        s = abs(complex(exp["p_hv_mw"], exp["q_hv_mvar"]))
        loaded += s > 1e-3
        _cmp(viols, opts, "trafo", i, got, exp, s)
    loss_side = opts.get("trafo3w_losses", "hv")
    for i in net.trafo3w.index:
        t = net.trafo3w.loc[i]
        if not t.in_service or np.isnan(vm.loc[[t.hv_bus, t.mv_bus, t.lv_bus]].values).any() or _has_open_switch(net, "t3", i):
            continue
        if bool(t.get("tap_dependency_table", False)) or loss_side == "star" or not angles:
            continue
        exp = ph.trafo3w_model(net, i, model, loss_side)
        bal = exp.pop("star_current_balance_ka")
        cnt["trafo3w_rows"] += 1
        if bool(t.tap_at_star_point) and t.tap_pos != t.tap_neutral:
            cnt["trafo3w_star_tap"] += 1
        s = abs(complex(exp["p_hv_mw"], exp["q_hv_mvar"]))
        loaded += s > 1e-3
        _cmp(viols, opts, "trafo3w", i, net.res_trafo3w.loc[i], exp, s)
        if bal > 1e-6 + 1e-8 * s:
            viols.append(common.viol("trafo3w %s: currents of the three equivalent transformers do not balance at the reported internal voltage (%.3e kA)" % (i, bal), options=opts))
    for i in net.impedance.index:
        e = net.impedance.loc[i]
        if not e.in_service or np.isnan(vm.at[e.from_bus]) or np.isnan(vm.at[e.to_bus]):
            continue
        exp = ph.impedance_model(net, i)
        cnt["impedance_rows"] += 1
        _cmp(viols, opts, "impedance", i, net.res_impedance.loc[i], exp, abs(complex(exp["p_from_mw"], exp["q_from_mvar"])))
    if len(net.switch) and "res_switch" in net and "p_from_mw" in net.res_switch:
        sw = net.switch[(net.switch.et == "b") & net.switch.closed & (net.switch.z_ohm > 0)]
        for i in sw.index:
            s = sw.loc[i]
            if np.isnan(vm.at[s.bus]) or np.isnan(vm.at[s.element]):
                continue
            exp = ph.zswitch_model(net, i, opts.get("switch_rx_ratio", 2.0))
            cnt["zswitch_rows"] += 1
            _cmp(viols, opts, "switch", i, net.res_switch.loc[i], exp, abs(complex(exp["p_from_mw"], exp["q_from_mvar"])))
    for i in net.xward.index:
        x = net.xward.loc[i]
        if not x.in_service or np.isnan(vm.at[x.bus]):
            continue
        if opts.get("distributed_slack") and x.get("slack_weight", 0) != 0:
            continue
        exp = ph.xward_model(net, i)
        cnt["xward_rows"] += 1
        _cmp(viols, opts, "xward", i, net.res_xward.loc[i], exp, abs(complex(exp["p_mw"], exp["q_mvar"])))
        # the internal voltage source holds its set-point
        if abs(net.res_xward.vm_internal_pu.at[i] - x.vm_pu) > 1e-7 and not opts.get("enforce_q_lims"):
            viols.append(common.viol("xward %s internal voltage %.9f differs from vm_pu %.9f" % (i, net.res_xward.vm_internal_pu.at[i], x.vm_pu), options=opts))
    return viols, loaded


def _has_open_switch(net, et, i):
    sw = net.switch
    return bool(len(sw) and ((sw.et.values == et) & (sw.element.values == i) & ~sw.closed.values.astype(bool)).any())


def check_dc(net, opts, cnt):
    viols = []
    va = net.res_bus.va_degree
    if (va.abs() > 1e5).any():
        # rundcpp solved a singular system and returned garbage angles (finding F29 of C07, fixed by 05ea88b30)
        viols.append(common.viol("rundcpp returned absurd voltage angles (max |va| = %.3e deg) with converged=True" % va.abs().max(), options=opts))
        return viols, 0
    model = opts.get("trafo_model", "t")
    angles = bool(net._options["calculate_voltage_angles"])
    loaded = 0
    for i in net.line.index:
        l = net.line.loc[i]
        if not l.in_service or np.isnan(va.at[l.from_bus]) or np.isnan(va.at[l.to_bus]) or _has_open_switch(net, "l", i):
            continue
        exp = ph.dc_line_flow(net, i)
        r = net.res_line.loc[i]
        cnt["dc_line_rows"] += 1
        loaded += abs(exp) > 1e-3
        if abs(r.p_from_mw - exp) > 1e-6 + 1e-8 * abs(exp):
            viols.append(common.viol("DC line %s: p_from_mw %.9g, B-model %.9g" % (i, r.p_from_mw, exp), options=opts))
        if abs(r.p_from_mw + r.p_to_mw) > 1e-9 or abs(r.pl_mw) > 1e-9:
            viols.append(common.viol("DC line %s: p_from %.9g p_to %.9g pl %.3e" % (i, r.p_from_mw, r.p_to_mw, r.pl_mw), options=opts))
    for i in net.trafo.index:
        t = net.trafo.loc[i]
        if not t.in_service or np.isnan(va.at[t.hv_bus]) or np.isnan(va.at[t.lv_bus]) or _has_open_switch(net, "t", i):
            continue
        r = net.res_trafo.loc[i]
        cnt["dc_trafo_rows"] += 1
        if abs(r.p_hv_mw + r.p_lv_mw) > 1e-9 or abs(r.pl_mw) > 1e-9:
            viols.append(common.viol("DC trafo %s: p_hv %.9g p_lv %.9g pl %.3e" % (i, r.p_hv_mw, r.p_lv_mw, r.pl_mw), options=opts))
        if model == "pi":
            try:
                exp = ph.dc_trafo_flow(net, i, angles)
            except LookupError:
                continue
            loaded += abs(exp) > 1e-3
            if abs(r.p_hv_mw - exp) > 1e-6 + 1e-8 * abs(exp):
                viols.append(common.viol("DC trafo %s: p_hv_mw %.9g, B-model %.9g" % (i, r.p_hv_mw, exp), options=opts))
    # DC clause "voltage magnitudes 1 p.u."
    vm = net.res_bus.vm_pu[net.res_bus.va_degree.notna()]
    off = vm[(vm - 1.0).abs() > 1e-12]
    if len(off):
        # signature of F26b: the off-nominal magnitudes are exactly the set-points of voltage controlling elements at those buses
        setp = {}
        for el, col in (("ext_grid", "vm_pu"), ("gen", "vm_pu")):
            for b, v, s in zip(net[el].bus.values, net[el][col].values, net[el].in_service.values):
                if s:
                    setp.setdefault(int(b), set()).add(round(float(v), 12))
        for b, v1, v2, s in zip(net.dcline.from_bus.values, net.dcline.vm_from_pu.values, net.dcline.vm_to_pu.values, net.dcline.in_service.values) if len(net.dcline) else []:
            if s:
                setp.setdefault(int(b), set()).add(round(float(v1), 12))
        for b, v2, s in zip(net.dcline.to_bus.values, net.dcline.vm_to_pu.values, net.dcline.in_service.values) if len(net.dcline) else []:
            if s:
                setp.setdefault(int(b), set()).add(round(float(v2), 12))
        from ..oracles import balance
        grp_of = {}
        for grp in balance.fused_groups(net):
            sp = set()
            for b in grp:
                sp |= setp.get(int(b), set())
            for b in grp:
                grp_of[int(b)] = sp
        explained = all(round(float(v), 12) in grp_of.get(int(b), set()) for b, v in off.items())
        viols.append(common.viol("DC power flow reports vm_pu != 1 at buses %s" % list(off.index[:6]),
                                 mechanism="dc_vm_reports_setpoint" if explained else None, options=opts))
    return viols, loaded


COUNTERS = ["dc_garbage_cases", "trafo3w_star_tap", "line_rows", "trafo3w_rows", "trafo_rows", "impedance_rows", "zswitch_rows", "xward_rows", "dc_line_rows", "dc_trafo_rows",
            "trafo_tap_offnominal", "trafo_lv_tap", "trafo_phase_tap", "trafo_tabular"]


def run_case(seed, tier, case_no):
    g = netgen.G(seed)
    profile = g.C(["full_mix", "weakly_meshed", "transmission", "dist_radial"])
    net = netgen.rnd_net(seed, profile, {"ptap": 0.6, "tap": 0.9, "imp": 0.6, "z_sw": 0.6, "bb_sw": 0.7, "xward": 0.6, "tabular": 0.3,
                                         "oos": 0.05, "open_sw": 0.08, "dcline": 0.05})
    ac = not g.B(0.2)
    opts = {}
    if g.B(0.7):
        opts["trafo_model"] = g.C(["t", "pi"])
    if g.B(0.7):
        opts["calculate_voltage_angles"] = g.B(0.7)
    if ac:
        if g.B(0.5):
            opts["trafo_loading"] = g.C(["current", "power"])
        if g.B(0.3):
            opts["switch_rx_ratio"] = g.R(0.5, 5)
        if g.B(0.2):
            opts["numba"] = False
        if g.B(0.15):
            opts["algorithm"] = "iwamoto_nr"
        if g.B(0.3):
            opts["trafo3w_losses"] = g.C(["hv", "mv", "lv"])
        opts["tolerance_mva"] = 1e-8
        status, exc = pf.try_run(pp.runpp, net, **opts)
    else:
        status, exc = pf.try_run(pp.rundcpp, net, **opts)
    digest = common.net_digest(net, {"ac": ac, "o": opts})
    sample = {"profile": profile, "net": netgen.describe(net), "calc": "runpp" if ac else "rundcpp", "options": opts}
    tags = {"ac" if ac else "dc", "trafo_model=%s" % opts.get("trafo_model", "t"), "loading=%s" % opts.get("trafo_loading", "current")}
    if status != "ok":
        return common.case(digest, nontrivial=False, tags=tags, skipped=status, sample=sample)
    tags.add("angles=%s" % bool(net._options["calculate_voltage_angles"]))
    cnt = {k: 0 for k in COUNTERS}
    viols, loaded = (check_ac if ac else check_dc)(net, opts, cnt)
    n = sum(cnt[k] for k in COUNTERS[2:10])
    return common.case(digest, nontrivial=loaded >= 3, tags=tags, violations=viols[:6], sample=sample, evals=max(n, 1), extra=cnt)
