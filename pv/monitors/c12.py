"""C12 - time-series results equal a fresh power flow at every time step; every requested variable is recorded.

History + re-execution model: run_timeseries (ConstControl + DFData, default recycle / batch-read shortcuts) is observed at
OutputWriter.output; the oracle is a manual loop on a scrubbed copy (write the step's profile values, fresh runpp, read the
same cells)."""
import copy

import numpy as np
import pandas as pd
import pandapower as pp
import pandapower.networks as pn
from pandapower.control import ConstControl
from pandapower.timeseries import DFData, OutputWriter, run_timeseries

from pandapower.auxiliary import LoadflowNotConverged

from .. import common, pf
from ..gen import netgen

PROPERTY = "C12"
READY = True
LEVEL = "exploration"
TECHNIQUE = ("runtime monitoring: OutputWriter.output of run_timeseries compared cell by cell with a manual "
             "write-profile / fresh-runpp loop on a scrubbed copy")
CASES = {"quick": 640, "thorough": 20000}
BUDGET = {"quick": 60, "thorough": 1500}
FLOORS = {"quick": {"nontrivial": 250, "max_skip_frac": 0.35,
                    "tags": {"batch_read": 60, "recycle_bus_pq": 150, "recycle_gen": 60, "recycle_trafo": 60, "no_recycle": 25,
                             "recycle_gen_only": 25, "ctrl:line": 25, "ctrl:trafo.tap_pos": 25, "ctrl:gen.vm_pu": 15, "ctrl:ext_grid.vm_pu": 15,
                             "log:eval": 40, "log:index_subset": 40, "log:non_branch_table": 60, "ts_returned": 300},
                    "extras": {"cells_compared": 30000, "steps_compared": 1500}},
          "thorough": {"nontrivial": 6000, "max_skip_frac": 0.35,
                       "tags": {"batch_read": 1500, "recycle_gen": 1500, "recycle_trafo": 1500, "ctrl:line": 600, "log:eval": 1000},
                       "extras": {"cells_compared": 1000000}}}
RULE = ("one case = one generated network (netgen profiles + perturbed pandapower.networks cases) x 1-3 ConstControl/DFData "
        "profiles on random (element, variable, index subset, scale_factor) x a random OutputWriter variable selection "
        "(2-tuples that allow batch reading, log_variable calls with index subsets / eval functions) x 4-7 time steps x a "
        "random runpp option vector; non-trivial = run_timeseries and the manual loop both completed and >= 1 logged cell "
        "changes over the steps; distinct = digest of net + controllers + log variables + options")
ASSUMPTIONS = ["fresh reference power flows use the same runpp options as run_timeseries (tolerance_mva 1e-8, NR)",
               "tolerances: vm 1e-6 pu, va 1e-4 deg; loading 1e-4 %, currents 1e-6 kA, powers 1e-5 MVA, each + 1e-4 relative "
               "(largest measured noise of a recycled vs a fresh solution: 1.3e-5 relative in a branch current)",
               "cases whose manual loop does not converge at some step are skipped (run_timeseries may legitimately raise)",
               "networks have contiguous element indices, so positional and label addressing of output columns coincide"]

PROFILES = ["simple", "dist_radial", "weakly_meshed", "full_mix", "transmission", "multi_island", "corpus", "corpus"]
CORPUS = ["case9", "case14", "example_multivoltage", "cigre_mv", "case30", "simple_four_bus_system", "case9", "case14",
          "example_multivoltage", "cigre_mv", "mv_oberrhein_half"]

LINE_EL_COLS = ["length_km", "r_ohm_per_km", "x_ohm_per_km", "c_nf_per_km"]
CTRL_VARS = {
    "load": ["p_mw", "q_mvar", "scaling"], "sgen": ["p_mw", "q_mvar", "scaling"], "storage": ["p_mw", "q_mvar", "scaling"],
    "gen": ["p_mw", "vm_pu"], "ext_grid": ["vm_pu", "va_degree"], "trafo": ["tap_pos"], "trafo3w": ["tap_pos"],
    "line": LINE_EL_COLS + ["max_i_ka"],
}
LOG_VARS = {
    "res_bus": ["vm_pu", "va_degree", "p_mw", "q_mvar"],
    "res_line": ["loading_percent", "i_ka", "p_from_mw", "pl_mw", "i_from_ka", "i_to_ka", "q_to_mvar", "vm_from_pu"],
    "res_trafo": ["loading_percent", "i_hv_ka", "i_lv_ka", "p_hv_mw", "pl_mw", "q_lv_mvar"],
    "res_trafo3w": ["loading_percent", "i_hv_ka", "p_hv_mw", "p_mv_mw", "q_lv_mvar", "i_lv_ka"],
    "res_load": ["p_mw", "q_mvar"], "res_sgen": ["p_mw"], "res_ext_grid": ["p_mw", "q_mvar"], "res_gen": ["p_mw", "q_mvar", "vm_pu"],
    "res_storage": ["p_mw"], "res_shunt": ["q_mvar"],
}
# what the batch reader (OutputWriter.get_batch_outputs) can deliver
BATCH_TABLES = ["res_bus", "res_line", "res_trafo", "res_trafo3w"]
BATCH_SUPPORTED = {"res_bus": {"vm_pu", "va_degree"}, "res_line": {"i_ka", "i_from_ka", "i_to_ka", "loading_percent"},
                   "res_trafo": {"i_ka", "i_hv_ka", "i_lv_ka", "loading_percent"},
                   "res_trafo3w": {"i_h", "i_m", "i_l", "loading_percent"}}
EVALS = {"max": np.max, "min": np.min, "sum": np.sum, "nanmax": np.nanmax, "mean": np.mean}


def _tol(var):
    """(atol, rtol).  Recycled steps start from the previous solution and stop at the first iterate below tolerance_mva, fresh
    ones overshoot it quadratically; in a low-impedance loop that residual showed up as 1.3e-5 relative in a branch current
    (seed 2, case 359), hence 1e-4 relative for branch / power quantities; voltages keep the absolute bound."""
    if var.startswith("vm"):
        return 1e-6, 0.0
    if var.startswith("va"):
        return 1e-4, 1e-6
    if "loading" in var:
        return 1e-4, 1e-4
    if var.startswith("i_"):
        return 1e-6, 1e-4
    return 1e-5, 1e-4


def corpus_net(g):
    name = g.C(CORPUS)
    if name == "cigre_mv":
        net = pn.create_cigre_network_mv(with_der=g.C([False, "pv_wind", "all"]))
    elif name == "mv_oberrhein_half":
        net = pn.mv_oberrhein(separation_by_sub=True)[g.I(0, 1)]
        pp.create_continuous_elements_index(net)
    else:
        net = getattr(pn, name)()
    for el in ("load", "sgen"):
        if len(net[el]):
            net[el]["scaling"] = g.rng.uniform(0.6, 1.1, len(net[el]))
    if len(net.trafo) and g.B(0.5):
        ok = net.trafo.tap_pos.notna() & net.trafo.tap_min.notna() & net.trafo.tap_max.notna()
        net.trafo.loc[ok, "tap_pos"] = [g.I(int(a), int(b)) for a, b in zip(net.trafo.tap_min[ok], net.trafo.tap_max[ok])]
    if len(net.line) > 6 and g.B(0.3):
        net.line.at[net.line.index[g.I(0, len(net.line) - 1)], "in_service"] = False
    return net, name


def make_net(seed, g):
    profile = g.C(PROFILES)
    if profile == "corpus":
        net, name = corpus_net(g)
        return net, "corpus:" + name
    ov = {"dcline": 0.06}   # every net with a dcline ends in the recycle_with_dcline finding; keep that share small
    if profile == "full_mix":
        ov["oos"] = 0.06
    return netgen.rnd_net(seed, profile, ov), profile


def gen_controls(net, g, steps):
    """list of dicts: element, variable, index (list), single (bool), values (steps x n array), scale_factor"""
    cands = []
    for el, vs in CTRL_VARS.items():
        if not len(net[el]):
            continue
        for v in vs:
            if el in ("trafo", "trafo3w") and not net[el].tap_pos.notna().any():
                continue
            w = {"line": 0.5, "trafo": 2.0, "trafo3w": 2.0, "gen": 1.5, "ext_grid": 1.0}.get(el, 1.0)
            cands.append((el, v, w))
    if not cands:
        return []
    w = np.array([c[2] for c in cands])
    k = min(len(cands), g.C([1, 1, 2, 2, 3]))
    pick = g.rng.choice(len(cands), size=k, replace=False, p=w / w.sum())
    out = []
    for ci in pick:
        el, var, _ = cands[int(ci)]
        tab = net[el]
        pool = list(tab.index)
        if el in ("trafo", "trafo3w"):
            pool = list(tab.index[tab.tap_pos.notna()])
        if el == "gen" and var == "vm_pu":
            # only gens that are the single voltage controlling element of their bus
            cnt = pd.concat([net.gen.bus, net.ext_grid.bus, net.dcline.from_bus, net.dcline.to_bus, net.xward.bus]).value_counts()
            swb = set(net.switch.bus[net.switch.et == "b"]) | set(net.switch.element[net.switch.et == "b"])
            pool = [i for i in pool if cnt.get(tab.bus.at[i], 0) == 1 and tab.bus.at[i] not in swb]
        if el == "ext_grid" and var == "vm_pu":
            cnt = pd.concat([net.gen.bus, net.ext_grid.bus]).value_counts()
            pool = [i for i in pool if cnt.get(tab.bus.at[i], 0) == 1]
        if not pool:
            continue
        n = 1 if g.B(0.3) else g.I(1, min(len(pool), 5))
        idx = sorted(int(i) for i in g.rng.choice(pool, size=n, replace=False))
        base = tab.loc[idx, var].values.astype(float)
        sf = 1.0 if g.B(0.6) else g.C([0.5, 2.0, 1e-3, 1.25])
        if var == "tap_pos":
            lo, hi = tab.loc[idx, "tap_min"].values, tab.loc[idx, "tap_max"].values
            lo = np.where(np.isnan(lo), base - 2, np.maximum(lo, base - 4))
            hi = np.where(np.isnan(hi), base + 2, np.minimum(hi, base + 4))
            vals = np.array([[g.I(int(a), int(b)) for a, b in zip(lo, hi)] for _ in range(steps)], dtype=float)
            sf = 1.0
        elif var == "vm_pu":
            vals = g.rng.uniform(0.99, 1.04, (steps, n))
        elif var == "va_degree":
            span = 1.0 if len(net.ext_grid) + int(net.gen.slack.sum() if len(net.gen) else 0) > 1 else 8.0
            vals = base + g.rng.uniform(-span, span, (steps, n))
        elif var == "scaling":
            vals = g.rng.uniform(0.3, 1.4, (steps, n))
        elif el == "line":
            vals = np.where(base == 0, 0.0, base) * g.rng.uniform(0.6, 1.4, (steps, n))
        elif el == "gen":
            vals = base * g.rng.uniform(0.6, 1.2, (steps, n))
        else:
            vals = base * g.rng.uniform(0.2, 1.5, (steps, n)) + (g.rng.uniform(-0.02, 0.02, (steps, n)) if g.B(0.2) else 0.)
        if sf != 1.0:
            vals = vals / sf
        out.append({"element": el, "variable": var, "index": idx, "single": n == 1 and g.B(0.6), "values": vals,
                    "scale_factor": sf, "recycle": None if g.B(0.9) else False})
    return out


def gen_logs(net, g):
    """(mode, ctor_list, calls) - ctor_list: 2-tuples given to the OutputWriter constructor (None = defaults);
    calls: (table, var, index, eval key, eval_name) given to ow.log_variable"""
    avail = {t: vs for t, vs in LOG_VARS.items() if len(net[t[4:]])}
    mode = g.C(["batch_ok", "batch_ok", "tuples_any", "calls", "calls", "mixed", "default"])
    ctor, calls = None, []
    if mode == "default":
        if not len(net.line):
            mode = "batch_ok"
        else:
            return mode, None, []
    if mode == "batch_ok":
        tabs = [t for t in BATCH_TABLES if t in avail]
        k = g.I(1, min(3, len(tabs)))
        ctor = []
        for t in g.rng.choice(tabs, size=k, replace=False):
            vs = sorted(BATCH_SUPPORTED[str(t)] & set(LOG_VARS[str(t)]))
            ctor.append((str(t), g.C(vs)))
    elif mode == "tuples_any":
        pool = [(t, v) for t in avail for v in avail[t] if t in BATCH_TABLES or g.B(0.3)]
        k = g.I(1, min(4, len(pool)))
        ctor = [pool[int(i)] for i in g.rng.choice(len(pool), size=k, replace=False)]
    if mode in ("calls", "mixed"):
        if mode == "mixed":
            tabs = [t for t in BATCH_TABLES if t in avail]
            t = g.C(tabs)
            ctor = [(t, g.C(sorted(BATCH_SUPPORTED[t] & set(LOG_VARS[t]))))]
        else:
            ctor = []
        pool = [(t, v) for t in avail for v in avail[t]]
        k = g.I(1, min(4, len(pool)))
        seen_plain = set(ctor)
        for i in g.rng.choice(len(pool), size=k, replace=False):
            t, v = pool[int(i)]
            idx_all = list(net[t[4:]].index)
            kind = g.C(["plain", "plain", "subset", "eval", "eval_subset"])
            idx = None
            if kind in ("subset", "eval_subset") or (kind == "plain" and (t, v) in seen_plain):
                idx = sorted(int(x) for x in g.rng.choice(idx_all, size=g.I(1, min(4, len(idx_all))), replace=False))
            if kind.startswith("eval"):
                ek = g.C(sorted(EVALS))
                calls.append((t, v, idx, ek, "%s_%s_%s_%d" % (ek, t, v, len(calls))))
            else:
                if (t, v) in seen_plain:
                    continue   # extending an already logged variable is a separate (undocumented) feature
                seen_plain.add((t, v))
                calls.append((t, v, idx, None, None))
        if not ctor and not calls:
            calls.append(("res_bus", "vm_pu", None, None, None))
    return mode, ctor, calls


def attach(net, ctrls, ctor, calls, time_steps, g):
    for k, c in enumerate(ctrls):
        cols = ["p%d_%d" % (k, j) for j in range(len(c["index"]))] if c.get("str_cols") else list(range(len(c["index"])))
        df = pd.DataFrame(c["values"], index=time_steps, columns=cols)
        kw = {} if c["recycle"] is None else {"recycle": False}
        if c["single"]:
            ConstControl(net, c["element"], c["variable"], element_index=c["index"][0], profile_name=cols[0],
                         data_source=DFData(df), scale_factor=c["scale_factor"], **kw)
        else:
            ConstControl(net, c["element"], c["variable"], element_index=list(c["index"]), profile_name=cols,
                         data_source=DFData(df), scale_factor=c["scale_factor"], **kw)
    ow = OutputWriter(net, time_steps, output_path=None, log_variables=None if ctor is None else [tuple(x) for x in ctor])
    for t, v, idx, ek, en in calls:
        ow.log_variable(t, v, index=idx, eval_function=EVALS[ek] if ek else None, eval_name=en)
    return ow


def requested(net, ctor, calls):
    """list of requested outputs: (table, var, labels or None(all), eval key, eval_name)"""
    req = []
    for t, v in ([("res_bus", "vm_pu"), ("res_line", "loading_percent")] if ctor is None else ctor):
        req.append((t, v, None, None, None))
    req += list(calls)
    return req


def manual_loop(base, ctrls, time_steps, kw, req, freeze_line=False):
    """the oracle: returns (status, {req_no: array steps x cells}) ; with freeze_line the electrical line parameters written
    by controllers stay at their values of the first step (model of the recycled power flow's stale admittance matrix)"""
    net = copy.deepcopy(base)
    exp = {i: [] for i in range(len(req))}
    for si in range(len(time_steps)):
        for c in ctrls:
            if freeze_line and si > 0 and c["element"] == "line" and c["variable"] in LINE_EL_COLS:
                continue
            vals = c["values"][si] * c["scale_factor"]
            if c["single"]:
                net[c["element"]].at[c["index"][0], c["variable"]] = vals[0]
            else:
                net[c["element"]].loc[c["index"], c["variable"]] = vals
        net["_ppc"] = None
        status, exc = pf.try_run(pp.runpp, net, **kw)
        if status != "ok":
            return "step%d:%s" % (si, status), None
        for i, (t, v, idx, ek, en) in enumerate(req):
            col = net[t][v]
            a = (col if idx is None else col.loc[idx]).values.astype(float)
            if ek:
                a = np.array([EVALS[ek](a)])
            exp[i].append(a)
    return "ok", {i: np.array(x) for i, x in exp.items()}


def batch_eligible(ctrls, ctor, calls, kw):
    """documented fast path: every controller recyclable, no branch controller, only 2-tuple log variables of the 4 tables"""
    if kw.get("recycle") is False or calls:
        return False
    if any(c["recycle"] is False or c["element"] in ("trafo", "trafo3w", "line") for c in ctrls):
        return False
    lv = [("res_bus", "vm_pu"), ("res_line", "loading_percent")] if ctor is None else ctor
    return all(t in BATCH_TABLES for t, _ in lv)


def predicted_batch_failure(ctor):
    """replays the control flow of OutputWriter.get_batch_outputs on the log list: first (exception type, arg, mechanism)"""
    lv = [("res_bus", "vm_pu"), ("res_line", "loading_percent")] if ctor is None else ctor
    seen = set()
    for t, v in lv:
        if t in ("res_bus", "res_line", "res_trafo") and t in seen:
            return "ValueError", "Something went wrong", "batch_read_second_variable_of_table"
        seen.add(t)
        if v not in BATCH_SUPPORTED[t]:
            return "KeyError", v, "batch_read_unsupported_variable"
    return None


def compare(req, exp, ow, time_steps):
    """returns list of (req_no, kind, maxdev, detail[, bad mask, recorded, expected]), number of cells compared, varying"""
    bad, cells, varying = [], 0, False
    for i, (t, v, idx, ek, en) in enumerate(req):
        name = "%s.%s" % (t, v)
        e = exp[i]
        if np.nanmax(np.abs(e - e[0]), initial=0.) > 1e-7:
            varying = True
        df = ow.output.get(name)
        if not isinstance(df, pd.DataFrame):
            bad.append((i, "missing", np.inf, "requested %s was not recorded (keys %s)" % (name, sorted(ow.output)[:8])))
            continue
        if list(df.index) != list(time_steps):
            bad.append((i, "index", np.inf, "%s: time index %s != %s" % (name, list(df.index)[:8], list(time_steps))))
            continue
        labels = [en] if ek else (list(range(e.shape[1])) if idx is None else list(idx))
        miss = [l for l in labels if l not in df.columns]
        if miss:
            bad.append((i, "missing", np.inf, "%s: column(s) %s not recorded (columns %s)" % (name, miss[:5], list(df.columns)[:8])))
            continue
        got = df.loc[:, labels].values.astype(float)
        if got.shape != e.shape:
            bad.append((i, "shape", np.inf, "%s: shape %s != %s" % (name, got.shape, e.shape)))
            continue
        atol, rtol = _tol(v)
        d = np.abs(got - e)
        ok = (d <= atol + rtol * np.abs(e)) | (np.isnan(got) & np.isnan(e))
        cells += int(e.size)
        if not ok.all():
            si, ci = np.argwhere(~ok)[0]
            bad.append((i, "value", float(np.nanmax(np.where(ok, 0, np.where(np.isnan(d), np.inf, d)))),
                        "%s%s: step %s column %s recorded %r, fresh power flow %r (%d of %d cells differ)" % (
                            name, "[%s]" % en if ek else "", time_steps[si], labels[ci], float(got[si, ci]), float(e[si, ci]),
                            int((~ok).sum()), e.size), ~ok, got, e))
    return bad, cells, varying


def inactive_branches(net, el):
    """mask over net[el]: branches that are not part of the power flow model although their buses may be energized"""
    tab = net[el]
    sides = {"line": ["from_bus", "to_bus"], "trafo": ["hv_bus", "lv_bus"], "trafo3w": ["hv_bus", "mv_bus", "lv_bus"]}[el]
    m = ~tab.in_service.values.astype(bool)
    for s_ in sides:
        m |= ~net.bus.in_service.loc[tab[s_].values].values.astype(bool)
    et = {"line": "l", "trafo": "t", "trafo3w": "t3"}[el]
    sw = net.switch[(net.switch.et == et) & ~net.switch.closed]
    if el == "line" and len(sw):
        n_open = sw.groupby("element").bus.nunique()
        m |= tab.index.isin(n_open.index[n_open >= 2])
    return m


def open_trafo_switch(net):
    """an in-service trafo / trafo3w with an open switch: its auxiliary bus is lost when the recycled power flow rebuilds
    the transformer rows (recycle['trafo'])"""
    for et, el in (("t", "trafo"), ("t3", "trafo3w")):
        sw = net.switch[(net.switch.et == et) & ~net.switch.closed]
        if len(sw) and len(net[el]) and net[el].in_service.reindex(sw.element.values).fillna(False).any():
            return True
    return False


def classify_values(bad, req, base, ctrls, time_steps, kw, ow, all_rec, rec_trafo, eligible, stale_ppc_buses=None):
    if not all(b[1] == "value" for b in bad):
        return None
    line_ctrl = [c for c in ctrls if c["element"] == "line" and c["variable"] in LINE_EL_COLS]
    if line_ctrl and all_rec:
        # defect model: the recycled power flow never rebuilds the line part of the admittance matrix
        st2, exp2 = manual_loop(base, ctrls, time_steps, kw, req, freeze_line=True)
        if st2 == "ok" and not compare(req, exp2, ow, time_steps)[0]:
            return "line_parameters_not_recycled"
    if eligible:
        # batch reader: branches that are not in the internal model get NaN, a power flow reports 0 for them
        ok = True
        for i, _, _, _, mask, got, e in bad:
            t, v, idx, ek, en = req[i]
            if t not in ("res_line", "res_trafo", "res_trafo3w") or ek:
                ok = False
                break
            inact = inactive_branches(base, t[4:])
            ok &= bool(np.isnan(got[mask]).all() and (e[mask] == 0).all() and inact[np.nonzero(mask)[1]].all())
        if ok:
            return "batch_read_nan_for_inactive_branch"
    if eligible and stale_ppc_buses is not None and stale_ppc_buses[0] != stale_ppc_buses[1]:
        # OutputWriter._init_ppc_logging sizes its buffers from a net._ppc left over from an earlier power flow of another
        # topology; every _log_ppc call then fails (exception swallowed) and the zero-initialised buffers are reported
        if all((np.nan_to_num(b[5][b[4]]) == 0).all() for b in bad):   # voltages 0, branch quantities 0 or NaN
            return "batch_read_buffer_from_stale_ppc"
    if all_rec and rec_trafo and open_trafo_switch(base) and all(not b[4][0].any() for b in bad):
        return "recycle_trafo_open_switch"     # first step (full power flow) right, later steps wrong
    return None


def _pf_bypassed(base, kw):
    """(classification only) the power flow of this net stores no internal model"""
    chk = copy.deepcopy(base)
    st, _ = pf.try_run(pp.runpp, chk, **{k: v for k, v in kw.items() if k != "recycle"})
    return st == "ok" and "baseMVA" not in (chk._ppc or {}).get("internal", {})


def _mask_excess(exc):
    import re
    m = re.search(r"size of axis is (\d+) but size of corresponding boolean axis is (\d+)", str(exc))
    return int(m.group(2)) - int(m.group(1)) if m else None


def _tb_functions(exc):
    names, seen = set(), set()
    while exc is not None and id(exc) not in seen:     # run_time_step re-raises a bare exception class: follow the context
        seen.add(id(exc))
        tb = exc.__traceback__
        while tb is not None:
            names.add(tb.tb_frame.f_code.co_name)
            tb = tb.tb_next
        exc = exc.__cause__ or exc.__context__
    return names


def run_case(seed, tier, case_no):
    g = netgen.G(seed)
    net, profile = make_net(seed, g)
    steps = g.I(4, 7) if tier == "quick" else g.I(4, 12)
    t0 = g.C([0, 0, 0, 3, 17])
    time_steps = list(range(t0, t0 + steps))
    if g.B(0.15):
        time_steps = sorted(int(x) for x in g.rng.choice(range(t0, t0 + 2 * steps), size=steps, replace=False))
    ctrls = gen_controls(net, g, steps)
    for c in ctrls:
        c["str_cols"] = g.B(0.25)
    mode, ctor, calls = gen_logs(net, g)
    kw = {}
    if g.B(0.3):
        kw["calculate_voltage_angles"] = g.B(0.7)
    if g.B(0.2):
        kw["trafo_loading"] = g.C(["current", "power"])
    if g.B(0.15):
        kw["trafo_model"] = g.C(["t", "pi"])
    if g.B(0.15):
        kw["numba"] = False
    if g.B(0.08):
        kw["recycle"] = False
    if g.B(0.08):
        kw["voltage_depend_loads"] = False
    use_range = g.B(0.3) and time_steps == list(range(time_steps[0], time_steps[-1] + 1))
    req = requested(net, ctor, calls)
    sample = {"profile": profile, "net": netgen.describe(net), "time_steps": time_steps,
              "controls": [{k: c[k] for k in ("element", "variable", "index", "single", "scale_factor", "recycle")} for c in ctrls],
              "log_mode": mode, "log_ctor": ctor, "log_calls": calls, "options": kw}
    digest = common.net_digest(net, {"c": [(c["element"], c["variable"], c["index"], c["values"].tolist()) for c in ctrls],
                                     "l": [ctor, calls], "o": kw, "t": time_steps})
    tags = {"profile:" + profile.split(":")[0], "log_mode:" + mode}
    if not ctrls:
        return common.case(digest, nontrivial=False, tags=tags, skipped="no_controllable_element", sample=sample)
    base = copy.deepcopy(net)
    status, exp = manual_loop(base, ctrls, time_steps, {k: v for k, v in kw.items() if k != "recycle"}, req)
    if status != "ok":
        return common.case(digest, nontrivial=False, tags=tags, skipped="oracle_" + status.split(":", 1)[1], sample=sample)

    ow = attach(net, ctrls, ctor, calls, time_steps, g)
    recyc = [net.controller.recycle.at[i] for i in net.controller.index]
    all_rec = kw.get("recycle") is not False and all(isinstance(r, dict) for r in recyc)
    for key in ("bus_pq", "gen", "trafo"):
        if all_rec and any(r[key] for r in recyc):
            tags.add("recycle_" + key)
    if not all_rec:
        tags.add("no_recycle")
    elif tags & {"recycle_gen"} and not tags & {"recycle_bus_pq", "recycle_trafo"}:
        tags.add("recycle_gen_only")
    eligible = batch_eligible(ctrls, ctor, calls, kw)
    if eligible:
        tags.add("batch_read")
    for c in ctrls:
        tags.add("ctrl:" + c["element"] if c["element"] == "line" else "ctrl:%s.%s" % (c["element"], c["variable"]))
        if c["single"]:
            tags.add("ctrl_single_index")
        if c["scale_factor"] != 1.0:
            tags.add("scale_factor")
    for t, v, idx, ek, en in req:
        if ek:
            tags.add("log:eval")
        if idx is not None:
            tags.add("log:index_subset")
        if t not in BATCH_TABLES:
            tags.add("log:non_branch_table")
    if np.isnan(np.concatenate([e.ravel() for e in exp.values()])).any():
        tags.add("nan_cells")

    stale = None
    if net._ppc is not None and eligible:
        # (classification only) bus count of the left-over internal model vs the one of this topology
        from pandapower.pypower.idx_bus import BUS_TYPE, NONE
        chk = copy.deepcopy(base)
        if pf.try_run(pp.runpp, chk)[0] == "ok":
            stale = (int((net._ppc["bus"][:, BUS_TYPE] != NONE).sum()), int(chk._ppc["internal"]["bus"].shape[0]))
            tags.add("stale_ppc_in_net")
    viols = []
    wit = dict(seed=seed, profile=profile, options=kw)
    try:
        run_timeseries(net, time_steps=range(time_steps[0], time_steps[-1] + 1) if use_range else time_steps, verbose=False, **kw)
        exc = None
    except Exception as e:  # noqa - an exception of the code under test is an observation
        exc = e
    if exc is not None:
        tags.add("ts_raised")
        mech = None
        pred = predicted_batch_failure(ctor) if eligible else None
        frames = _tb_functions(exc)
        if pred and type(exc).__name__ == pred[0] and exc.args and exc.args[0] == pred[1] and "get_batch_outputs" in frames:
            mech = pred[2]
        elif eligible and isinstance(exc, KeyError) and exc.args == ("baseMVA",) and "v_to_i_s" in frames and _pf_bypassed(base, kw):
            # no PQ / PV bus is energized: runpp takes _bypass_pf_and_set_results, which stores no internal model; the ppc
            # logger fails silently every step and the batch reader then finds no baseMVA / Yf
            mech = "batch_read_after_bypassed_power_flow"
        elif (isinstance(exc, IndexError) and len(net.dcline) and all_rec and len(time_steps) > 1
              and "_recycled_powerflow" in frames and _mask_excess(exc) == 2 * len(net.dcline)):
            # the recycled power flow skips _add_auxiliary_elements: the cached in-service mask of net.gen still counts the two
            # auxiliary generators per dcline that _clean_up removed after the first step (mask is 2 * n_dcline too long)
            mech = "recycle_with_dcline"
        elif (all_rec and "recycle_trafo" in tags and open_trafo_switch(base) and "_recycled_powerflow" in frames
              and (isinstance(exc, LoadflowNotConverged) or (isinstance(exc, IndexError) and "newtonpf" in frames))):
            # the recycled power flow rewrites the transformer rows from the bus lookup: the auxiliary bus of the open switch
            # becomes isolated (singular Jacobian or, if it is the last bus, an index error in newtonpf)
            mech = "recycle_trafo_open_switch"
        viols.append(common.viol("run_timeseries raised %s(%s) although every step solves with a plain runpp; logged %s" % (
            type(exc).__name__, str(exc)[:80], [(r[0], r[1]) for r in req]), mechanism=mech, exception=type(exc).__name__, **wit))
        return common.case(digest, nontrivial=True, tags=tags, violations=viols, sample=sample, evals=1,
                           extra={"ts_raised": 1})
    tags.add("ts_returned")
    bad, cells, varying = compare(req, exp, ow, time_steps)
    if bad:
        mech = classify_values(bad, req, base, ctrls, time_steps, {k: v for k, v in kw.items() if k != "recycle"}, ow, all_rec,
                               "recycle_trafo" in tags, eligible, stale)
        b = max(bad, key=lambda x: x[2])
        viols.append(common.viol("time series output differs from a fresh power flow of the same step: " + b[3], mechanism=mech,
                                 n_bad_outputs=len(bad), kinds=sorted({x[1] for x in bad}), others=[x[3] for x in bad[:4]], **wit))
    return common.case(digest, nontrivial=varying, tags=tags, violations=viols, sample=sample, evals=len(time_steps),
                       extra={"cells_compared": cells, "steps_compared": len(time_steps)})
