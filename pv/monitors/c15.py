"""C15 - run_contingency_parallel returns the same results for any n_procs / completion order, equal to run_contingency.

Every generated N-1 set-up is executed in a forked watchdog child: run_contingency, then run_contingency_parallel for
n_procs in {1,2,3,4,8} with an evaluation wrapper that sleeps a seeded 0-30 ms per outage and logs (outage, pid, t_done), so the
completion orders that actually occurred are recorded.  Verdict: dict equality (NaN == NaN, 1e-9) against run_contingency and
across n_procs.  A child that exceeds the wall-clock budget is killed and the case skipped (never a violation)."""
import copy
import gc
import json
import multiprocessing as mp
import os
import pickle
import shutil
import signal

import numpy as np
import pandapower as pp
from pandapower.contingency import run_contingency
from pandapower.contingency.contingency_parallel import run_contingency_parallel

from .. import common
from ..gen import netgen
from ..oracles import nminus1 as nm

PROPERTY = "C15"
READY = True
LEVEL = "fault_enumeration"
TECHNIQUE = ("runtime monitoring: returned dicts of run_contingency_parallel under seeded schedule perturbation (n_procs x delay "
             "seeds, observed completion orders logged) compared with run_contingency")
CASES = {"quick": 32, "thorough": 500}       # a pool worker costs 1.5-2.5 CPU-s after its fork (page faults): ~14 CPU-s per case
BUDGET = {"quick": 60, "thorough": 1500}
CASE_TIMEOUT = 240
WATCHDOG = {"quick": 90, "thorough": 180}
FLOORS = {"quick": {"nontrivial": 12, "max_skip_frac": 0.3,
                    "tags": {"n_procs=8": 1, "n_procs=4": 3, "n_procs=1": 16, "unwrapped_run": 2, "trafo_cases": 8, "several_pool_sizes": 5},
                    "extras": {"parallel_runs": 40, "runs_completed_out_of_task_order": 8, "runs_with_several_pids": 15,
                               "dict_comparisons": 45, "distinct_orders_in_case": 25}},
          "thorough": {"nontrivial": 150, "max_skip_frac": 0.3, "tags": {"n_procs=8": 40, "unsolved_case": 3, "unwrapped_run": 40},
                       "extras": {"parallel_runs": 1500, "runs_completed_out_of_task_order": 400, "distinct_orders_in_case": 700}}}
RULE = ("one case = one generated N-1 set-up (network, ratings, case dict, options as in C14, <= 8 outages in quick) x n_procs = 1 "
        "plus 1-2 (quick) / 3 (thorough) pool sizes drawn from {2,3,4,8} x seeded delay patterns (1 in quick, 2 in thorough), one "
        "pool run with plain runpp in 30 % of the cases; "
        "non-trivial = >= 2 outages solved and >= 2 parallel runs returned; distinct = digest of net + cases + options + schedule")
ASSUMPTIONS = ["schedules are perturbed by seeded sleeps inside the evaluation function; the completion orders that occurred are "
               "recorded as evidence, the verdict never uses wall-clock",
               "a watchdog expiry (pool hang, overloaded machine) makes the case skipped='watchdog', never a violation",
               "equality: floats 1e-9 with NaN == NaN, cause_index compared where a cause_element was assigned"]

WORK = os.path.join(common.WORK, "c15")


def _pack(res, net):
    out = {el: {k: np.array(v) for k, v in r.items()} for el, r in res.items()}
    ins = {el: net[el].in_service.values.copy() for el in nm.BRANCH if len(net[el])}
    return {"res": out, "in_service": ins}


def setup(tier):
    """warm the JIT once, then freeze the heap: garbage collections in the forked children / pool workers would otherwise
    touch (and copy-on-write) every inherited page"""
    import pandapower.networks as pn
    n = pn.case9()
    pp.runpp(n)
    run_contingency(n, {"line": {"index": [1, 2]}})
    gc.collect()
    gc.freeze()


def _child(net, cdict, kw, kw0, kw1, runs, wd, out_path):
    os.setsid()
    gc.freeze()
    results = {}
    try:
        n = copy.deepcopy(net)
        results["seq"] = _pack(run_contingency(n, cdict, pf_options=kw0, pf_options_nminus1=kw1, **kw), n)
    except Exception as e:  # noqa
        results["seq"] = {"exception": "%s(%s)" % (type(e).__name__, str(e)[:200])}
    for key, n_procs, wrapped, dseed in runs:
        log = os.path.join(wd, key + ".log")
        os.environ[nm.LOG_ENV] = log
        os.environ[nm.DSEED_ENV] = str(dseed)
        try:
            n = copy.deepcopy(net)
            r = run_contingency_parallel(n, cdict, pf_options=kw0, pf_options_nminus1=kw1, n_procs=n_procs,
                                         contingency_evaluation_function=nm.delayed_runpp if wrapped else pp.runpp, **kw)
            results[key] = _pack(r, n)
        except Exception as e:  # noqa
            results[key] = {"exception": "%s(%s)" % (type(e).__name__, str(e)[:200])}
    with open(out_path, "wb") as f:
        pickle.dump(results, f)
    os._exit(0)


def run_watched(target, args, timeout):
    p = mp.get_context("fork").Process(target=target, args=args)
    p.start()
    p.join(timeout)
    hung = p.is_alive()
    try:
        os.killpg(p.pid, signal.SIGKILL)      # pool workers share the child's session / process group
    except (ProcessLookupError, PermissionError):
        pass
    p.join(5)
    return not hung


def completion_order(log, base_sig):
    """list of (case, pid) in order of t_done, N-0 evaluation dropped"""
    rows = []
    if os.path.exists(log):
        with open(log) as f:
            for line in f:
                try:
                    rows.append(json.loads(line))
                except ValueError:
                    pass
    rows.sort(key=lambda r: r["t"])
    out = []
    for r in rows:
        extra = [(el, i) for (el, idx), (_, bidx) in zip(r["sig"], base_sig) for i in idx if i not in bidx]
        if extra:
            out.append((tuple(extra[0]), r["pid"]))
    return out


def run_case(seed, tier, case_no):
    g = netgen.G(seed)
    net, profile = nm.make_net(seed, g, tier)
    st = nm.set_limits(net, g)
    tags = {"profile:" + profile.split(":")[0]}
    sample = {"profile": profile, "net": netgen.describe(net)}
    if st != "ok":
        return common.case(common.net_digest(net), nontrivial=False, tags=tags, skipped="base_" + st, sample=sample)
    cases = nm.gen_cases(net, g, 8 if tier == "quick" else g.C([6, 10, 16]))
    kw = {}
    if g.B(0.3):
        kw["calculate_voltage_angles"] = g.B(0.7)
    kw1 = {"trafo_loading": "power"} if g.B(0.35) else None      # N-1 option that differs from the N-0 default
    kw0 = {"trafo_model": g.C(["t", "pi"])} if g.B(0.1) else None
    # every pool worker costs 1.5-2.5 CPU-s of page faults after the fork: n_procs = 1 always, plus 1-2 (quick) or 3 (thorough)
    # different pool sizes per case; one of the pool runs uses plain runpp with probability 0.3
    k = (2 if g.B(0.4) else 1) if tier == "quick" else 3
    n_par = sorted(int(x) for x in g.rng.choice([2, 3, 4, 8], size=k, replace=False, p=[0.4, 0.3, 0.22, 0.08] if tier == "quick" else [0.3, 0.3, 0.2, 0.2]))
    dseeds = [g.I(0, 10 ** 6) for _ in range(1 if tier == "quick" else 2)]
    runs = [("p1_d0", 1, True, dseeds[0])]
    plain = n_par[g.I(0, k - 1)] if g.B(0.3) else None
    for n in n_par:
        if n == plain:
            runs.append(("p%d_plain" % n, n, False, 0))
        else:
            runs += [("p%d_d%d" % (n, j), n, True, d) for j, d in enumerate(dseeds)]
    sample.update({"cases": cases, "kwargs": kw, "pf_options": kw0, "pf_options_nminus1": kw1, "runs": [r[:3] for r in runs]})
    digest = common.net_digest(net, {"c": cases, "o": [kw, kw0, kw1], "r": runs})
    before = copy.deepcopy(net)
    n0, per = nm.reference(before, cases, {**(kw0 or {}), **kw}, {**(kw1 or {}), **kw})
    if n0 is None:
        return common.case(digest, nontrivial=False, tags=tags, skipped="n0_not_solved", sample=sample)
    order = [c for c in nm.flat(cases) if bool(before[c[0]].at[c[1], "in_service"])]
    solved = [c for c in order if per.get(c) is not None]
    if len(solved) < len(order):
        tags.add("unsolved_case")
    if len(order) < len(nm.flat(cases)):
        tags.add("oos_element_in_case_list")
    for el in ("trafo", "trafo3w"):
        if cases.get(el):
            tags.add("trafo_cases")
    if k > 1:
        tags.add("several_pool_sizes")

    wd = os.path.join(WORK, "%d_%d" % (os.getpid(), case_no))
    shutil.rmtree(wd, ignore_errors=True)
    os.makedirs(wd, exist_ok=True)
    out_path = os.path.join(wd, "results.pkl")
    cdict = {el: {"index": list(v)} for el, v in cases.items()}
    try:
        finished = run_watched(_child, (net, cdict, kw, kw0, kw1, runs, wd, out_path), WATCHDOG[tier])
        if not finished or not os.path.exists(out_path):
            return common.case(digest, nontrivial=False, tags=tags | {"watchdog"}, skipped="watchdog", sample=sample)
        with open(out_path, "rb") as f:
            results = pickle.load(f)
        base_sig = nm.oos_signature(before)
        orders = {key: completion_order(os.path.join(wd, key + ".log"), base_sig) for key, _, wrapped, _ in runs if wrapped}
    finally:
        shutil.rmtree(wd, ignore_errors=True)

    viols, cnt = [], {"parallel_runs": 0, "dict_comparisons": 0, "runs_completed_out_of_task_order": 0,
                      "runs_with_several_pids": 0, "distinct_orders_in_case": 0}
    wit = dict(seed=seed, cases=cases)
    seq = results["seq"]
    if "exception" in seq:
        v = common.viol("run_contingency raised %s although the N-0 power flow solves" % seq["exception"], **wit)
        return common.case(digest, nontrivial=True, tags=tags, violations=[v], sample=sample)
    model_par = nm.simulate_aggregation(before, per, order, n0, "not_nan")
    seen_orders = set()
    returned = {}
    for key, n_procs, wrapped, dseed in runs:
        r = results.get(key)
        tags.add("n_procs=%d" % n_procs)
        if not wrapped:
            tags.add("unwrapped_run")
        cnt["parallel_runs"] += 1
        if r is None or "exception" in r:
            viols.append(common.viol("run_contingency_parallel(n_procs=%d) raised %s; run_contingency returned" % (
                n_procs, (r or {}).get("exception")), n_procs=n_procs, **wit))
            continue
        returned[key] = r
        if wrapped:
            o = orders.get(key, [])
            oc = [c for c, _ in o]
            if len(oc) == len(order) and oc != order:
                cnt["runs_completed_out_of_task_order"] += 1
            if len({p for _, p in o}) > 1:
                cnt["runs_with_several_pids"] += 1
            seen_orders.add(tuple(oc))
        # in_service restored
        for el, ins in r["in_service"].items():
            if not np.array_equal(ins, before[el].in_service.values):
                viols.append(common.viol("n_procs=%d: %s.in_service not restored" % (n_procs, el), n_procs=n_procs, **wit))
        d = nm.dict_diff(r["res"], seq["res"])
        cnt["dict_comparisons"] += 1
        if d:
            mech = None
            if n_procs > 1 and not nm.dict_diff(r["res"], model_par):
                # every difference is what the aggregation yields when values of out-of-service / outaged elements are
                # not masked (where_mask = ~isnan(val) in the parallel branch)
                mech = "parallel_aggregation_ignores_in_service"
            el, k, what = d[0]
            viols.append(common.viol("run_contingency_parallel(n_procs=%d%s) differs from run_contingency in %d key(s), e.g. %s.%s %s" % (
                n_procs, "" if wrapped else ", plain runpp", len(d), el, k, what), mechanism=mech, n_procs=n_procs,
                keys=["%s.%s" % (a, b) for a, b, _ in d[:8]], **wit))
    cnt["distinct_orders_in_case"] = len(seen_orders)
    # across n_procs > 1 (n_procs = 1 is the sequential code path): must agree with each other
    par = [k for k, n, _, _ in runs if n > 1 and k in returned]
    for k in par[1:]:
        d = nm.dict_diff(returned[k]["res"], returned[par[0]]["res"])
        cnt["dict_comparisons"] += 1
        if d:
            el, kk, what = d[0]
            viols.append(common.viol("parallel results differ between runs %s and %s in %d key(s), e.g. %s.%s %s" % (
                k, par[0], len(d), el, kk, what), runs=[k, par[0]], **wit))
    # one violation per mechanism is enough in the report
    uniq, seen = [], set()
    for v in viols:
        sig = (v["mechanism"], v["what"][:40]) if v["mechanism"] is None else v["mechanism"]
        if sig not in seen:
            seen.add(sig)
            uniq.append(v)
    sample["observed_completion_orders"] = {k: [list(c) for c, _ in o] for k, o in list(orders.items())[:3]}
    return common.case(digest, nontrivial=len(solved) >= 2 and len(returned) >= 2, tags=tags, violations=uniq, sample=sample,
                       evals=len(runs) + 1, extra=cnt)
