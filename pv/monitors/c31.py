"""C31 - tabular tap dependency uses each transformer's own table row (differential monitor: tabular net vs. a copy in which the
row values are entered directly)."""
import copy

import numpy as np
import pandas as pd
import pandapower as pp

from .. import common, pf
from ..gen import netgen
from ..probe import snapshot

PROPERTY = "C31"
READY = True
LEVEL = "exploration"
TECHNIQUE = "runtime monitoring: differential execution of the real power flow on a net with tabular tap changers and on a copy with the table row values entered directly, plus input-table snapshot"
CASES = {"quick": 320, "thorough": 15000}
BUDGET = {"quick": 60, "thorough": 1200}
FLOORS = {"quick": {"nontrivial": 120, "tags": {"shared_id_different_pos": 60, "lv_side_tabular": 40, "angle_rows": 40, "three_or_more_tabular": 40,
                                                "trafo3w_tabular": 25}, "max_skip_frac": 0.4},
          "thorough": {"nontrivial": 6000, "tags": {"shared_id_different_pos": 3000, "trafo3w_tabular": 1000}, "max_skip_frac": 0.4}}
RULE = ("seeded random networks in which most 2W transformers (and some 3W transformers) get tap_dependency_table=True with shared or "
        "own characteristic ids at random tap positions; the same net with tap_dependency_table=False and the row's voltage ratio, "
        "angle, vk and vkr written into vn_*_kv / shift_degree / vk* must give the same bus voltages and branch powers; "
        "non-trivial = converged and >= 2 tabular transformers at off-neutral positions; distinct = digest of inputs")
ASSUMPTIONS = ["direct entry: tapped side vn_kv *= voltage_ratio, shift_degree += (+/-)angle_deg (sign by tap side), vk/vkr from the row, "
               "tap changer disabled; loading_percent is not compared (its rating base vn_hv_kv changes with the direct entry)",
               "comparison tolerance 1e-7 p.u. / 1e-6 deg / (1e-6 + 20 * tolerance_mva * sn_mva) MVA"]


def direct_copy(net):
    n = copy.deepcopy(net)
    tab = net.trafo_characteristic_table
    for i in n.trafo.index:
        t = n.trafo.loc[i]
        if not bool(t.get("tap_dependency_table", False)):
            continue
        r = tab[(tab.id_characteristic == int(t.id_characteristic_table)) & (tab.step == int(t.tap_pos))]
        assert len(r) == 1
        r = r.iloc[0]
        direction = 1 if t.tap_side == "hv" else -1
        col = "vn_hv_kv" if t.tap_side == "hv" else "vn_lv_kv"
        n.trafo.at[i, col] = t[col] * r.voltage_ratio
        if not pd.isna(r.angle_deg):
            n.trafo.at[i, "shift_degree"] = t.shift_degree + direction * r.angle_deg
        if not pd.isna(r.vk_percent):
            n.trafo.at[i, "vk_percent"] = r.vk_percent
        if not pd.isna(r.vkr_percent):
            n.trafo.at[i, "vkr_percent"] = r.vkr_percent
        n.trafo.at[i, "tap_dependency_table"] = False
        n.trafo.at[i, "tap_changer_type"] = None
        n.trafo.at[i, "tap_pos"] = np.nan
    if len(n.trafo3w) and "tap_dependency_table" in n.trafo3w:
        for i in n.trafo3w.index:
            t = n.trafo3w.loc[i]
            if not bool(t.get("tap_dependency_table", False)):
                continue
            r = tab[(tab.id_characteristic == int(t.id_characteristic_table)) & (tab.step == int(t.tap_pos))].iloc[0]
            side = t.tap_side
            ratio = 1 / r.voltage_ratio if bool(t.tap_at_star_point) else r.voltage_ratio
            n.trafo3w.at[i, "vn_%s_kv" % side] = t["vn_%s_kv" % side] * ratio
            for c in ("vk_hv_percent", "vkr_hv_percent", "vk_mv_percent", "vkr_mv_percent", "vk_lv_percent", "vkr_lv_percent"):
                if not pd.isna(r[c]):
                    n.trafo3w.at[i, c] = r[c]
            n.trafo3w.at[i, "tap_dependency_table"] = False
            n.trafo3w.at[i, "tap_changer_type"] = None
            n.trafo3w.at[i, "tap_pos"] = np.nan
    return n


def add_t3_table(net, g):
    """tabular tap changer (ratio + impedances, no angle) for 3W transformers, ids continue after the 2W ids"""
    if not len(net.trafo3w):
        return False
    tab = net.get("trafo_characteristic_table")
    rows = []
    nxt = int(tab.id_characteristic.max()) + 1 if tab is not None and len(tab) else 0
    net.trafo3w["tap_dependency_table"] = False
    net.trafo3w["id_characteristic_table"] = pd.array([pd.NA] * len(net.trafo3w), dtype="Int64")
    done = False
    for i in net.trafo3w.index:
        if not g.B(0.7):
            continue
        t = net.trafo3w.loc[i]
        for step in range(int(t.tap_min), int(t.tap_max) + 1):
            rows.append(dict(id_characteristic=nxt, step=step, voltage_ratio=1 + g.R(0.004, 0.015) * (step - t.tap_neutral), angle_deg=0.,
                             vk_percent=np.nan, vkr_percent=np.nan,
                             vk_hv_percent=t.vk_hv_percent * g.R(0.95, 1.05), vkr_hv_percent=t.vkr_hv_percent * g.R(0.95, 1.05),
                             vk_mv_percent=t.vk_mv_percent * g.R(0.95, 1.05), vkr_mv_percent=t.vkr_mv_percent * g.R(0.95, 1.05),
                             vk_lv_percent=t.vk_lv_percent * g.R(0.95, 1.05), vkr_lv_percent=t.vkr_lv_percent * g.R(0.95, 1.05)))
        net.trafo3w.at[i, "tap_dependency_table"] = True
        net.trafo3w.at[i, "tap_at_star_point"] = False     # direct entry of a star-point tap is not expressible through vn_*_kv
        net.trafo3w.at[i, "id_characteristic_table"] = nxt
        net.trafo3w.at[i, "tap_changer_type"] = "Tabular"
        nxt += 1
        done = True
    if rows:
        new = pd.DataFrame(rows)
        net["trafo_characteristic_table"] = new if tab is None or not len(tab) else pd.concat([tab, new], ignore_index=True)
    return done


def run_case(seed, tier, case_no):
    g = netgen.G(seed)
    profile = g.C(["full_mix", "weakly_meshed", "dist_radial"])
    net = netgen.rnd_net(seed, profile, {"tabular": 0.0, "n_lv": (1, 3), "oos": 0.03, "open_sw": 0.05, "dcline": 0.0, "tap": 1.0})
    # equalise tap ranges of the MV/LV transformers so that they can share a table, then add the table
    netgen.add_tap_table(net, g, share=0.7)
    t3 = g.B(0.4) and add_t3_table(net, g)
    if "trafo_characteristic_table" not in net or not len(net.trafo_characteristic_table):
        return common.case("none-%d" % case_no, nontrivial=False, skipped="no_tabular_trafo", sample={"profile": profile})
    tb = net.trafo[net.trafo.tap_dependency_table.astype(bool)]
    # random positions (shared ids at different positions is the interesting case)
    for i in tb.index:
        net.trafo.at[i, "tap_pos"] = g.I(int(net.trafo.tap_min.at[i]), int(net.trafo.tap_max.at[i]))
    tb = net.trafo[net.trafo.tap_dependency_table.astype(bool)]
    opts = {"tolerance_mva": 1e-8}
    if g.B(0.5):
        opts["trafo_model"] = g.C(["t", "pi"])
    if g.B(0.5):
        opts["calculate_voltage_angles"] = g.B(0.7)
    if g.B(0.2):
        opts["numba"] = False
    if (net.trafo_characteristic_table.angle_deg.fillna(0) != 0).any():
        # the direct entry of a row angle goes into shift_degree, which is only honoured when angles are calculated
        opts["calculate_voltage_angles"] = True
    direct = direct_copy(net)
    before = snapshot.snapshot(net)
    digest = common.net_digest(net, opts)
    tags = set()
    grp = tb.groupby("id_characteristic_table").tap_pos.nunique()
    if (grp > 1).any():
        tags.add("shared_id_different_pos")
    if (tb.tap_side == "lv").any():
        tags.add("lv_side_tabular")
    if len(tb) >= 3:
        tags.add("three_or_more_tabular")
    tabx = net.trafo_characteristic_table
    if (tabx.angle_deg.fillna(0) != 0).any():
        tags.add("angle_rows")
    if t3:
        tags.add("trafo3w_tabular")
    sample = {"profile": profile, "options": opts, "tabular": {int(i): [int(tb.id_characteristic_table.at[i]), int(tb.tap_pos.at[i]), tb.tap_side.at[i]] for i in tb.index}}
    dc = g.B(0.1) and not t3   # 3W: rundcpp treats a changed vn_*_kv and a tap ratio differently (not the subject of C31)
    fn = pp.rundcpp if dc else pp.runpp
    if dc:
        opts = {k: v for k, v in opts.items() if k in ("trafo_model", "calculate_voltage_angles")}
    s1, e1 = pf.try_run(fn, net, **opts)
    s2, e2 = pf.try_run(fn, direct, **opts)
    viols = []
    d = snapshot.diff(before, net)
    if d:
        viols.append(common.viol("power flow with tabular tap changers changed the input tables: %s" % d[:3], options=opts))
    if s1 != "ok" or s2 != "ok":
        if s1 != s2 and not (s1 == "notconv" or s2 == "notconv"):
            viols.append(common.viol("tabular net: %s, direct-entry net: %s" % (s1, s2), options=opts))
        return common.case(digest, nontrivial=False, tags=tags, violations=viols, skipped=None if viols else "pf:%s/%s" % (s1, s2), sample=sample)
    a, b = net.res_bus, direct.res_bus
    dvm = np.nanmax(np.abs(a.vm_pu.values - b.vm_pu.values)) if not dc else 0.
    dva = np.nanmax(np.abs((a.va_degree.values - b.va_degree.values + 180) % 360 - 180))
    if (np.isnan(a.va_degree.values) != np.isnan(b.va_degree.values)).any() or dvm > 1e-7 or dva > 1e-6:
        i = int(np.nanargmax(np.abs(a.va_degree.values - b.va_degree.values)))
        viols.append(common.viol("bus voltages differ from the direct-entry net: max dvm %.3e p.u., max dva %.3e deg (bus %s)" % (dvm, dva, a.index[i]),
                                 options=opts))
    else:
        for el, cols in (("trafo", ["p_hv_mw", "q_hv_mvar", "p_lv_mw", "q_lv_mvar"]), ("trafo3w", ["p_hv_mw", "q_hv_mvar", "p_mv_mw", "p_lv_mw"]),
                         ("line", ["p_from_mw", "q_from_mvar"])):
            if len(net[el]):
                x, y = net["res_" + el][cols].values.astype(float), direct["res_" + el][cols].values.astype(float)
                # both runs stop at a mismatch of tolerance_mva * sn_mva MVA per bus (F34): flows agree within a multiple of that
                slack_mva = 20 * opts.get("tolerance_mva", 1e-8) * float(net.sn_mva)
                bad = ~((np.abs(x - y) <= 1e-6 + slack_mva + 1e-8 * np.abs(x)) | (np.isnan(x) & np.isnan(y)))
                if bad.any():
                    r, c = np.argwhere(bad)[0]
                    viols.append(common.viol("res_%s.%s[%s]: tabular %.9g, direct entry %.9g" % (el, cols[c], net[el].index[r], x[r, c], y[r, c]), options=opts))
                    break
    off = int(((tb.tap_pos != tb.tap_neutral)).sum())
    return common.case(digest, nontrivial=off >= 2, tags=tags | {"dc" if dc else "ac"}, violations=viols, sample=sample, evals=len(tb))
