"""C27 - group operations behave as set operations on group membership.

One case = one random history of group related operations on a generated net.  An executable set model written from the
docstrings of pandapower/groups.py and pandapower/create/group_create.py is driven with the same operations and compared
with the real net after EVERY operation (net.group rows, group_element_index, isin_group, element_associated_groups,
count_group_elements, group_name; group result sums after a converged power flow; table snapshots around
set_group_in_service/out_of_service/set_value_to_group).  When an operation leaves the net in a state the model does not
predict, the violation is recorded and net + model are restored to the state before the operation, so that one defect does
not cascade into follow-up violations.
"""
import collections
import copy
import linecache
import traceback

import numpy as np
import pandas as pd
import pandapower as pp
import pandapower.groups as pgroups
import pandapower.networks as pn
import pandapower.toolbox as tb

from .. import common, pf
from ..gen import netgen
from ..probe import snapshot as snap

PROPERTY = "C27"
READY = True
LEVEL = "exploration"
TECHNIQUE = "runtime monitoring: executable set model driven with the same random operation history, compared after every operation"
CASES = {"quick": 360, "thorough": 12000}
BUDGET = {"quick": 60, "thorough": 1500}
CASE_TIMEOUT = 120
_QF = {  # quick floors on the per-operation / per-oracle-branch counters: about 40 % of the minimum reached over seeds 0,1,2
    "create_ok": 550, "create_rc_name": 350, "create_rc_cid": 180, "create_bad_member": 50, "create_index_exists": 30,
    "attach_existing_type": 300, "attach_new_type": 250, "attach_overlap": 280, "attach_convert_rc": 90, "attach_take_existing_false": 8,
    "attach_nan_rc_row": 12, "detach_members": 240, "detach_nonmembers_only": 50, "detach_rc_name": 100, "detach_rc_cid": 50,
    "detach_row_emptied": 160, "detach_group_emptied": 40, "drop_group": 60, "drop_group_and_elements": 40, "drop_hit_members": 300,
    "tb_drop_buses": 45, "tb_drop_elements": 85, "tb_drop_elements_simple": 45, "tb_drop_lines": 40, "tb_drop_trafos": 40,
    "tb_fuse_buses": 65, "tb_reindex_elements": 110, "tb_reindex_buses": 8, "tb_create_continuous_bus_index": 20,
    "tb_create_continuous_elements_index": 20, "tb_reindex_group": 45, "reindex_moved_index_group": 80, "reindex_with_refcol_group": 110,
    "reindex_partial_covered": 50, "replace_moved_members": 100, "tb_replace_gen_by_sgen": 12, "tb_replace_sgen_by_gen": 20,
    "tb_replace_ext_grid_by_gen": 4, "tb_replace_gen_by_ext_grid": 12, "tb_replace_pq_elmtype": 45, "tb_replace_line_by_impedance": 18,
    "tb_replace_impedance_by_line": 6, "tb_replace_ward_by_internal_elements": 5, "tb_replace_xward_by_internal_elements": 2,
    "tb_replace_xward_by_ward": 3, "set_rc_changed": 170, "set_rc_refused": 2, "set_value_snapshot_checked": 180,
    "set_value_touched_members": 140, "pf_ok": 95, "res_p_checked": 210, "res_q_checked": 210, "res_per_bus_checked": 210,
    "res_branch_members": 110, "res_generator_members": 100, "res_refcol_group": 130, "copy_compare": 100, "compare_cross_reference": 90,
    "compare_different": 50, "as_net": 20, "as_net_keep": 18, "q_isin": 11000, "q_isin_index": 5500, "q_assoc_list": 8000,
    "q_assoc_single": 5500, "q_element_index": 20000, "q_count": 6500, "q_group_name": 6500}
FLOORS = {"quick": {"nontrivial": 200, "extras": _QF, "tags": {"final_refcol_group": 120, "net:networks": 20}, "max_skip_frac": 0.1},
          "thorough": {"nontrivial": 5000, "extras": {k: 25 * v for k, v in _QF.items()},
                       "tags": {"final_refcol_group": 3000, "net:networks": 500}, "max_skip_frac": 0.1}}
RULE = ("seeded random net (pv.gen.netgen profiles or a pandapower.networks case; unique 'name' strings and an integer 'cid' "
        "column in every element table) x random history of 10-30 operations out of create/attach/detach/drop group, "
        "set_group_reference_column, toolbox drops, reindexing, replace_* functions, group in/out of service, set_value_to_group, "
        "group result sums, return_group_as_net, copy+compare; non-trivial = at least 8 operations judged with >= 2 groups alive "
        "at some point; distinct = digest of initial net + operation log")
ASSUMPTIONS = ["element lists handed to create/attach are duplicate free lists of existing elements unless the refusal itself is tested",
               "reference columns used for groups are unique and non-null for the referenced rows ('cid' groups are not used with replace_* "
               "functions because new elements have no cid)",
               "a toolbox operation that also raises on a copy of the net WITHOUT groups is out of domain (skipped, counted)",
               "result sums: generators (ext_grid, gen, sgen) negative, everything else positive, branches by their losses; "
               "tolerance 1e-9 + 1e-9*sum|x|; reactive sums of groups with dcline members are not judged (no ql_mvar column)",
               "uuid4 used by set_group_reference_column to name unnamed rows is replaced by a counter for determinism",
               "after a discrepancy net and model are restored to the state before the operation; drop_group_and_elements ends the history",
               "in 70 % of the attach / replace operations NaN reference columns of net.group are normalised to None beforehand "
               "(work-around for the known attach defect) so that the remaining attach logic stays observable"]

BUS_ETS = ["load", "sgen", "gen", "ext_grid", "shunt", "ward", "xward", "storage", "motor", "asymmetric_load", "asymmetric_sgen"]
BRANCH_ETS = ["line", "trafo", "trafo3w", "impedance", "dcline"]
ALL_ETS = ["bus"] + BUS_ETS + BRANCH_ETS + ["switch"]
BUS_COLS = {"line": ["from_bus", "to_bus"], "impedance": ["from_bus", "to_bus"], "dcline": ["from_bus", "to_bus"],
            "trafo": ["hv_bus", "lv_bus"], "trafo3w": ["hv_bus", "mv_bus", "lv_bus"]}
SIDES = {"line": ["from", "to"], "impedance": ["from", "to"], "dcline": ["from", "to"], "trafo": ["hv", "lv"],
         "trafo3w": ["hv", "mv", "lv"]}
PROFILES = ["full_mix", "full_mix", "full_mix", "simple", "dist_radial", "weakly_meshed", "multi_island", "transmission"]
RCS = [None, None, None, "name", "name", "cid"]


# ----------------------------------------------------------------------------------------------------------- helpers
class _U:
    """deterministic stand-in for the uuid module inside pandapower.groups (values only have to be unique)"""

    def __init__(self):
        self.n = 0

    def uuid4(self):
        self.n += 1
        return "u%06d" % self.n


def isnull(x):
    return x is None or (isinstance(x, float) and np.isnan(x)) or x is pd.NA


def py(v):
    return v.item() if hasattr(v, "item") else v


def srt(vals):
    return sorted((py(v) for v in vals), key=lambda x: (str(type(x)), x if not isnull(x) else 0))


def rows_of(net, et, rc, vals):
    """set of indices of net[et] the model entry (rc, vals) refers to"""
    if rc is None:
        return set(py(v) for v in vals)
    if et not in net or rc not in net[et].columns:
        return set()
    t = net[et]
    return set(py(i) for i in t.index[t[rc].isin(list(vals))])


def vals_of(net, et, rc, rows):
    rows = sorted(rows)
    if rc is None:
        return set(rows)
    return set(py(v) for v in net[et].loc[rows, rc].values)


def col_ok(net, et, rc):
    """reference column usable for the whole table (set_group_reference_column refuses otherwise)"""
    if rc is None:
        return True
    if rc not in net[et].columns:
        return True  # created and filled with unique names
    c = net[et][rc]
    if pd.api.types.is_object_dtype(c):
        c = c.dropna()  # nulls are filled with unique names by the function
        return not c.duplicated().any()
    return not (c.duplicated() | c.isnull()).any()


def backup(net):
    """copies of all non-empty DataFrames (empty ones are re-emptied on restore), group lists copied too"""
    bk = {}
    for k in list(net.keys()):
        v = net[k]
        if isinstance(v, pd.DataFrame) and (len(v) or k == "group" or k in ALL_ETS):
            bk[k] = v.copy()
    g = bk["group"]
    if len(g):
        g["element_index"] = pd.Series([list(x) if hasattr(x, "__iter__") and not isinstance(x, str) else x
                                        for x in g.element_index.values], index=g.index, dtype=object)
    return bk


def restore(net, bk):
    for k in list(net.keys()):
        if k in bk:
            net[k] = bk[k]
        elif isinstance(net[k], pd.DataFrame) and len(net[k]):
            net[k] = net[k].iloc[0:0]


def model_from_net(net):
    M = {}
    for pos in range(len(net.group)):
        gi, et = py(net.group.index[pos]), net.group.element_type.iat[pos]
        raw, rc = net.group.element_index.iat[pos], net.group.reference_column.iat[pos]
        e = M.setdefault(gi, {"name": net.group.name.iat[pos], "m": {}})
        if et in e["m"] or not isinstance(raw, list):
            return None
        e["m"][et] = [None if isnull(rc) else rc, set(py(v) for v in raw)]
    return M


def tb_last(e, fname="groups.py"):
    """(function name, source line) of the innermost traceback frame inside file fname"""
    out = None
    for fr in traceback.extract_tb(e.__traceback__):
        if fr.filename.endswith(fname):
            out = (fr.name, (fr.line or linecache.getline(fr.filename, fr.lineno)).strip())
    return out


def tb_short(e):
    fr = traceback.extract_tb(e.__traceback__)
    return "%s: %s @ %s" % (type(e).__name__, str(e)[:150], " < ".join("%s:%d" % (f.filename.split("/")[-1], f.lineno) for f in fr[-3:][::-1]))


def call(fn, *a, **k):
    try:
        return True, fn(*a, **k)
    except Exception as e:  # noqa
        if type(e).__name__ == "CaseTimeout":
            raise
        return False, e


class State:
    def __init__(self, seed):
        self.g = netgen.G(seed)
        self.viols = []
        self.tags = set()
        self.x = collections.Counter()
        self.log = []
        self.seen = set()
        self.model = {}
        self.net = None
        self.ctx = {}
        self.gname = 0
        self.judged = 0
        self.max_groups = 0

    def fail(self, what, mechanism=None, code="", **w):
        self.x["viol_total"] += 1
        if mechanism is None:
            self.x["unexplained"] += 1
        else:
            self.x["mech:" + mechanism] += 1
        key = (mechanism, code)
        if key in self.seen:
            return
        self.seen.add(key)
        w["op"] = self.ctx.get("op")
        w["op_no"] = len(self.log)
        w["history"] = self.log[-4:]
        self.viols.append(common.viol(what, mechanism=mechanism, code=code, **w))

    # ---- picking
    def ets(self, nonempty=True):
        return [et for et in ALL_ETS if len(self.net[et])] if nonempty else list(ALL_ETS)

    def pick_rows(self, et, kmin=1, kmax=4, prefer=None):
        idx = [py(i) for i in self.net[et].index]
        if not idx:
            return []
        k = min(len(idx), self.g.I(kmin, kmax))
        pool = idx
        if prefer and self.g.B(0.6):
            pm = sorted(set(prefer) & set(idx))
            if pm:
                extra = [i for i in idx if i not in pm]
                k1 = min(len(pm), max(1, k - 1))
                out = [py(i) for i in self.g.rng.choice(pm, k1, replace=False)]
                if extra and k > k1:
                    out += [py(i) for i in self.g.rng.choice(extra, min(len(extra), k - k1), replace=False)]
                return out
        return [py(i) for i in self.g.rng.choice(pool, k, replace=False)]

    def members(self, gi, et):
        e = self.model[gi]["m"].get(et)
        return rows_of(self.net, et, e[0], e[1]) if e else set()

    def all_members(self, et):
        out = set()
        for gi in self.model:
            out |= self.members(gi, et)
        return out

    def pick_group(self):
        return self.g.C(sorted(self.model)) if self.model else None

    def usable_rows(self, et, rc):
        """rows whose reference value is non-null and unique in the column"""
        t = self.net[et]
        if rc is None:
            return [py(i) for i in t.index]
        if rc not in t.columns:
            return []
        c = t[rc]
        ok = ~(c.isnull() | c.duplicated(keep=False))
        return [py(i) for i in t.index[ok.values]]


# ------------------------------------------------------------------------------------------------- model vs. real net
def compare(S, queries=True):
    """list of discrepancies (code, group, element_type, real, model)"""
    net, M, g = S.net, S.model, S.g
    D = []
    gdf = net.group
    real_idx = set(py(i) for i in gdf.index)
    if real_idx != set(M):
        D.append(("group_index_set", None, None, srt(real_idx), srt(M)))
    seen = {}
    for pos in range(len(gdf)):
        gi, et = py(gdf.index[pos]), gdf.element_type.iat[pos]
        raw, rc = gdf.element_index.iat[pos], gdf.reference_column.iat[pos]
        if (gi, et) in seen:
            D.append(("duplicate_row", gi, et, None, None))
            continue
        seen[(gi, et)] = (raw, None if isnull(rc) else rc)
        if gi in M and gdf.name.iat[pos] != M[gi]["name"]:
            D.append(("row_name", gi, et, gdf.name.iat[pos], M[gi]["name"]))
    for (gi, et), (raw, rc) in seen.items():
        if gi not in M:
            continue
        if et not in M[gi]["m"]:
            D.append(("extra_row", gi, et, str(raw)[:80], None))
            continue
        mrc, mv = M[gi]["m"][et]
        if not isinstance(raw, list):
            D.append(("raw_not_list", gi, et, type(raw).__name__, "list"))
            continue
        rl = [py(v) for v in raw]
        try:
            if len(rl) != len(set(rl)):
                D.append(("raw_duplicates", gi, et, rl, None))
            if rc != mrc:
                D.append(("reference_column", gi, et, rc, mrc))
            elif set(rl) != mv:
                D.append(("raw_values", gi, et, srt(rl), srt(mv)))
        except TypeError:
            D.append(("raw_unhashable", gi, et, str(rl)[:80], None))
    for gi in M:
        for et in M[gi]["m"]:
            if (gi, et) not in seen and gi in real_idx:
                D.append(("missing_row", gi, et, None, srt(M[gi]["m"][et][1])))
    if not queries:
        return D
    # ---- public query functions
    qg = sorted(set(M) & real_idx)
    if S.ctx.get("op") not in ("drop", "fuse", "reindex", "replace", "drop_group_and_elements") and len(qg) > 3:
        # operations on single groups: the touched groups and two others (net.group of all groups was compared above)
        t = [gi for gi in qg if gi in set(_touched(S))]
        rest = [gi for gi in qg if gi not in t]
        qg = sorted(t + [py(i) for i in g.rng.choice(rest, min(len(rest), 2), replace=False)])
    for gi in qg:
        ok, r = call(pp.group_name, net, gi)
        S.x["q_group_name"] += 1
        if not ok or r != M[gi]["name"]:
            D.append(("group_name", gi, None, r if ok else tb_short(r), M[gi]["name"]))
        ok, r = call(pp.count_group_elements, net, gi)
        S.x["q_count"] += 1
        exp = {et: len(v[1]) for et, v in M[gi]["m"].items()}
        if not ok or {k: int(v) for k, v in r.to_dict().items()} != exp:
            D.append(("count_group_elements", gi, None, r.to_dict() if ok else tb_short(r), exp))
        other = [et for et in ALL_ETS if et not in M[gi]["m"]]
        for et in list(M[gi]["m"]) + ([g.C(other)] if other else []):
            ok, r = call(pp.group_element_index, net, gi, et)
            S.x["q_element_index"] += 1
            exp = S.members(gi, et)
            if not ok or set(py(i) for i in r) != exp or len(r) != len(exp):
                D.append(("group_element_index", gi, et, srt(r) if ok else tb_short(r), srt(exp)))
    in_groups = sorted({et for gi in M for et in M[gi]["m"]})
    cand = [et for et in in_groups if len(net[et])]
    qets = ([g.C(cand)] if cand else []) + [g.C(S.ets())]
    for et in qets:
        memb = {gi: S.members(gi, et) for gi in M}
        allm = set().union(*memb.values()) if memb else set()
        idx = [py(i) for i in net[et].index]
        pool = sorted(set(idx) | allm)
        k = min(len(pool), 5)
        el = [py(i) for i in g.rng.choice(pool, k, replace=False)] + [max(pool) + 7]
        gl = sorted(M)
        # isin_group, list form, all groups
        ok, r = call(pp.isin_group, net, et, list(el))
        S.x["q_isin"] += 1
        exp = [e in allm for e in el]
        if not ok or [bool(b) for b in r] != exp:
            D.append(("isin_group_list", None, et, [bool(b) for b in r] if ok else tb_short(r), {"elements": el, "expected": exp}))
        e1 = g.C(el)
        ok, r = call(pp.isin_group, net, et, e1)
        S.x["q_isin"] += 1
        if not ok or bool(r) != (e1 in allm) or hasattr(r, "__len__"):
            D.append(("isin_group_single", None, et, bool(r) if ok and not hasattr(r, "__len__") else (str(r) if ok else tb_short(r)),
                      {"element": e1, "expected": e1 in allm}))
        if gl:
            sub = [py(i) for i in g.rng.choice(gl, g.I(1, min(2, len(gl))), replace=False)]
            arg = sub[0] if len(sub) == 1 and g.B(0.5) else sub
            subm = set().union(*[memb[i] for i in sub])
            ok, r = call(pp.isin_group, net, et, list(el), index=arg)
            S.x["q_isin_index"] += 1
            exp = [e in subm for e in el]
            if not ok or [bool(b) for b in r] != exp:
                D.append(("isin_group_index", None, et, [bool(b) for b in r] if ok else tb_short(r),
                          {"elements": el, "index": arg, "expected": exp}))
        # element_associated_groups, list form
        ok, r = call(pp.element_associated_groups, net, et, list(el))
        S.x["q_assoc_list"] += 1
        exp = {e: [gi for gi in gl if e in memb[gi]] for e in el}
        got = {py(k_): sorted(py(i) for i in v) for k_, v in r.items()} if ok else None
        if not ok or got != exp or any(len(v) != len(set(v)) for v in r.values()):
            D.append(("assoc_list", None, et, got if ok else tb_short(r), exp))
        if g.B(0.5):
            ok, r = call(pp.element_associated_groups, net, et, list(el), return_empties=False)
            S.x["q_assoc_list"] += 1
            exp2 = {e: v for e, v in exp.items() if v}
            got = {py(k_): sorted(py(i) for i in v) for k_, v in r.items()} if ok else None
            if not ok or got != exp2:
                D.append(("assoc_list_noempties", None, et, got if ok else tb_short(r), exp2))
        # single element form
        ok, r = call(pp.element_associated_groups, net, et, e1)
        S.x["q_assoc_single"] += 1
        if not ok or not isinstance(r, list) or sorted(py(i) for i in r) != exp[e1]:
            D.append(("assoc_single", None, et, r if ok else r, {"element": e1, "expected": exp[e1]}))
    return D


PRIMARY = ("group_index_set", "duplicate_row", "row_name", "extra_row", "raw_not_list", "raw_duplicates", "reference_column",
           "raw_values", "raw_unhashable", "missing_row", "op_exception")


def classify_all(S, D):
    """mechanism per discrepancy: structural (net.group) discrepancies are matched against the triggering conditions of the
    known defects; discrepancies of the query functions inherit the mechanism of a structural discrepancy of the same
    group / element type and stay None when net.group itself agrees with the model"""
    mech = [classify(S, d) if d[0] in PRIMARY or d[0] == "assoc_single" else None for d in D]
    prim = [(d, m) for d, m in zip(D, mech) if d[0] in PRIMARY]
    for i, d in enumerate(D):
        if d[0] in PRIMARY or mech[i] is not None:
            continue
        code, gi, et = d[0], d[1], d[2]
        rel = [(p, m) for p, m in prim if (gi is None or p[1] is None or p[1] == gi) and (et is None or p[2] is None or p[2] == et)]
        ms = {m for p, m in rel}
        if rel and None not in ms and len(ms) == 1:
            mech[i] = ms.pop()
    return mech


def classify(S, d):
    """mechanism name of a known defect whose precise triggering condition is met by discrepancy d, else None"""
    code, gi, et, real, model = d
    c = S.ctx
    op = c.get("op")
    if code == "assoc_single":
        # element_associated_groups(..., element_index=<scalar>) returns associated[index[0]] where index is the list of
        # GROUP indices: KeyError unless the first group index equals the element index, IndexError without groups
        if isinstance(real, (KeyError, IndexError)):
            fr = tb_last(real)
            if fr and fr[0] == "element_associated_groups" and "associated[index[0]]" in fr[1]:
                return "assoc_groups_single_element_uses_group_index"
        return None
    if op in ("attach", "attach_groups", "replace") and c.get("nan_rc_rows"):
        # attach to an existing row whose stored reference_column is NaN (row created through concat) with
        # reference_columns=None: NaN != None -> the new members are converted to values of a reference column named nan
        if (gi, et) in c["nan_rc_rows"] or (code == "op_exception" and tb_last(real)):
            return "attach_existing_row_nan_reference_column"
    if op == "reindex" and code == "op_exception" and c.get("partial_uncovered") and c.get("exc_keyerror_get_indices"):
        # reindex_elements with a lookup that does not contain every member of an index group of that element type
        return "reindex_partial_lookup_keyerror_in_group_link"
    if op == "replace" and c.get("refcol_groups"):
        # _replace_group_member_element_type compares element indices with reference-column values
        if gi in c["refcol_groups"] and et in (c["old_et"], c["new_et"]):
            return "replace_group_transfer_ignores_reference_column"
        if code == "group_index_set" and set(model) - set(real) <= c["refcol_groups"] and not set(real) - set(model):
            return "replace_group_transfer_ignores_reference_column"
        if code == "op_exception" and any(fr.name == "_replace_group_member_element_type" for fr in traceback.extract_tb(real.__traceback__)):
            return "replace_group_transfer_ignores_reference_column"
    if op in ("drop", "fuse") and c.get("undetached"):
        # rows dropped without detach_from_groups: the group keeps the dropped members (values)
        def kept(g2, et2):
            e = S.model_before.get(g2, {}).get("m", {}).get(et2)
            if e is None or et2 not in c["undetached"]:
                return False
            if e[0] is None:
                return bool(e[1] & c["undetached"][et2])
            ser = S.before_tables[1].get((et2, e[0]))
            return ser is not None and bool(e[1] & set(py(v) for v in ser.loc[sorted(c["undetached"][et2] & set(ser.index))].values))
        if code in ("raw_values", "extra_row") and kept(gi, et):
            return c["undetached_mech"][et]
        if code == "group_index_set" and set(real) - set(model) and not set(model) - set(real):
            hits = [[et2 for et2 in S.model_before.get(g2, {}).get("m", {}) if kept(g2, et2)] for g2 in set(real) - set(model)]
            if all(hits):
                return c["undetached_mech"][hits[0][0]]
    if op == "return_group_as_net" and c["args"]["keep_everything_else"] and c.get("n_groups", 0) > 1 and c.get("stale"):
        # with further groups in the net return_group_as_net calls remove_not_existing_group_members(net) on the INPUT net instead
        # of the returned copy (groups.py, "Not existing members get dropped now"): exactly the members without a row disappear
        st = c["stale"]
        if code == "raw_values" and (gi, et) in st and set(real) == st[(gi, et)][1] - st[(gi, et)][0]:
            return "return_group_as_net_cleans_groups_of_input_net"
        if code == "missing_row" and (gi, et) in st and st[(gi, et)][0] == st[(gi, et)][1]:
            return "return_group_as_net_cleans_groups_of_input_net"
        if code == "group_index_set" and not set(real) - set(model) and set(model) - set(real) and all(
                all((g2, et2) in st and st[(g2, et2)][0] == st[(g2, et2)][1] for et2 in S.model_before[g2]["m"])
                for g2 in set(model) - set(real)):
            return "return_group_as_net_cleans_groups_of_input_net"
    if op == "drop_group_and_elements":
        # rows are dropped directly: other groups keep the dropped elements as members
        dropped = c.get("dropped", {})
        if code == "group_index_set":
            ok = not set(model) - set(real) and all(any(
                rows_of(c["net_before_rows"], et2, e[0], e[1]) & dropped.get(et2, set()) for et2, e in S.model_before[g2]["m"].items()
                if et2 in dropped) for g2 in set(real) - set(model))
            return "drop_group_and_elements_keeps_members_of_other_groups" if ok and set(real) - set(model) else None
        e = S.model_before.get(gi, {}).get("m", {}).get(et)
        if e is not None and gi != c.get("group") and et in dropped and code in ("raw_values", "extra_row") and (
                rows_of(c["net_before_rows"], et, e[0], e[1]) & dropped[et]):
            return "drop_group_and_elements_keeps_members_of_other_groups"
    return None


# ---------------------------------------------------------------------------------------------------------- the ops
def new_name(S):
    S.gname += 1
    return "g%d" % S.gname


def free_group_index(S):
    used = set(S.model) | set(py(i) for i in S.net.group.index)
    while True:
        i = S.g.I(0, 12)
        if i not in used:
            return i


def gen_members(S, n_ets=(1, 3), rc_choice=None):
    """random {et: (rc, rows)} with existing, usable rows"""
    ets = S.ets()
    k = min(len(ets), S.g.I(*n_ets))
    out = {}
    rc_all = S.g.C(RCS) if rc_choice is None else rc_choice
    per_et = S.g.B(0.25)
    for et in [ets[int(i)] for i in S.g.rng.choice(len(ets), k, replace=False)]:
        rc = S.g.C(RCS) if per_et else rc_all
        us = S.usable_rows(et, rc)
        if not us:
            rc, us = None, S.usable_rows(et, None)
        kk = min(len(us), S.g.I(1, 4))
        rows = [py(i) for i in S.g.rng.choice(us, kk, replace=False)]
        out[et] = (rc, rows)
    return out


def as_args(S, spec):
    ets = list(spec)
    elm = [srt(vals_of(S.net, et, spec[et][0], spec[et][1])) for et in ets]
    for l in elm:
        S.g.rng.shuffle(l)
    rcs = [spec[et][0] for et in ets]
    rc_arg = rcs[0] if len(set(rcs)) == 1 and S.g.B(0.7) else rcs
    return ets, elm, rc_arg


def op_create(S):
    net, g = S.net, S.g
    spec = gen_members(S)
    ets, elm, rc_arg = as_args(S, spec)
    name = new_name(S)
    kw = {"name": name}
    mode = "ok"
    if g.B(0.35):
        kw["index"] = free_group_index(S)
    if S.model and g.B(0.07):
        kw["index"] = S.pick_group()
        mode = "index_exists"
    elif g.B(0.08):
        i = g.I(0, len(ets) - 1)
        bad = "no_such_%d" % g.I(0, 9) if (rc_arg if not isinstance(rc_arg, list) else rc_arg[i]) == "name" else 10 ** 6 + g.I(0, 9)
        elm[i] = elm[i] + [bad]
        mode = "bad_member"
    use_dict = g.B(0.3) and not isinstance(rc_arg, list)
    S.ctx.update(op="create", mode=mode, args={"ets": ets, "elm": elm, "rc": rc_arg, **kw}, via="dict" if use_dict else "lists")
    if use_dict:
        ok, r = call(pp.create_group_from_dict, net, dict(zip(ets, elm)), reference_column=rc_arg, **kw)
    elif len(ets) == 1 and g.B(0.3):
        ok, r = call(pp.create_group, net, ets[0], elm, reference_columns=rc_arg if not isinstance(rc_arg, list) else rc_arg[0], **kw)
    else:
        ok, r = call(pp.create_group, net, ets, elm, reference_columns=rc_arg, **kw)
    S.x["create_" + mode] += 1
    if mode != "ok":
        if ok:
            S.fail("create_group accepted %s" % mode, code="no_refusal", args=S.ctx["args"])
            return "restore"
        if not isinstance(r, UserWarning):
            S.fail("create_group refused %s with %s instead of the UserWarning" % (mode, tb_short(r)), code="wrong_refusal")
        return
    if not ok:
        S.fail("create_group raised %s" % tb_short(r), code="op_exception", args=S.ctx["args"])
        return "restore"
    gi = py(r)
    if gi in S.model or ("index" in kw and gi != kw["index"]):
        S.fail("create_group returned index %r (requested %r, existing %s)" % (gi, kw.get("index"), sorted(S.model)), code="bad_index")
        return "restore"
    S.model[gi] = {"name": name, "m": {et: [spec[et][0], set(vals_of(net, et, spec[et][0], spec[et][1]))] for et in ets}}
    for et in ets:
        S.x["create_rc_%s" % spec[et][0]] += 1


def normalise_nan_rc(net):
    nn = [isinstance(x, float) for x in net.group.reference_column.values]
    if any(nn):
        net.group["reference_column"] = pd.Series([None if b else x for b, x in zip(nn, net.group.reference_column.values)],
                                                  index=net.group.index, dtype=object)
    return any(nn)


def op_attach(S):
    net, g, M = S.net, S.g, S.model
    multi = len(M) >= 2 and g.B(0.25)
    gis = [py(i) for i in g.rng.choice(sorted(M), 2, replace=False)] if multi else [S.pick_group()]
    if g.B(0.04):
        # unknown group
        S.ctx.update(op="attach", mode="no_group")
        ok, r = call(pp.attach_to_group, net, max(M) + 50, "bus", [[py(net.bus.index[0])]])
        S.x["attach_no_group"] += 1
        if ok or not isinstance(r, ValueError):
            S.fail("attach_to_group to a non-existent group: %s" % ("accepted" if ok else tb_short(r)), code="no_refusal")
            return "restore" if ok else None
        return
    if g.B(0.7) and normalise_nan_rc(net):
        # work around the known NaN-vs-None defect of attach_to_group so that the rest of its logic stays observable
        S.x["attach_nan_rc_normalised"] += 1
    # element types: existing ones of the (first) group and/or new ones
    have = [et for et in M[gis[0]]["m"] if len(net[et])]
    new = [et for et in S.ets() if et not in M[gis[0]]["m"]]
    ets = []
    if have and g.B(0.75):
        ets.append(g.C(have))
    if new and (not ets or g.B(0.4)):
        ets.append(g.C(new))
    if have and g.B(0.15):
        e2 = g.C(have)
        if e2 not in ets:
            ets.append(e2)
    take = True
    spec = {}
    nan_hit, nan_rows = set(), set()
    differ = False
    for et in ets:
        rows_exist = [M[gi]["m"][et] for gi in gis if et in M[gi]["m"]]
        rc_pass = rows_exist[0][0] if rows_exist else g.C(RCS)
        if rows_exist and g.B(0.3):
            rc_pass = g.C([r for r in [None, "name", "cid"] if r != rows_exist[0][0]])
        # every involved column must be usable
        cols = {rc_pass} | {e[0] for e in rows_exist}
        if not all(col_ok(net, et, c) for c in cols) or not S.usable_rows(et, rc_pass):
            rc_pass = rows_exist[0][0] if rows_exist else None
            if not all(col_ok(net, et, c) for c in {rc_pass} | {e[0] for e in rows_exist}):
                continue
        differ |= any(e[0] != rc_pass for e in rows_exist)
        us = S.usable_rows(et, rc_pass)
        for c in {e[0] for e in rows_exist}:
            us = [r for r in us if r in set(S.usable_rows(et, c))]
        if not us:
            continue
        prefer = set().union(*[S.members(gi, et) for gi in gis])
        rows = [r for r in S.pick_rows(et, 1, 4, prefer=prefer) if r in set(us)] or [g.C(us)]
        spec[et] = (rc_pass, rows)
        # stored reference column NaN instead of None?
        for gi in gis:
            sel = net.group.loc[[gi]]
            sel = sel[sel.element_type == et]
            if len(sel) == 1 and isinstance(sel.reference_column.iat[0], float):
                nan_hit.add(gi)
                nan_rows.add((gi, et))
    if not spec:
        S.x["attach_nothing"] += 1
        return "skip"
    ets2, elm, rc_arg = as_args(S, spec)
    kw = {}
    if differ and not multi and len(spec) == 1 and g.B(0.35):
        take = False
        kw["take_existing_reference_columns"] = False
    elif not multi and g.B(0.2):
        kw["take_existing_reference_columns"] = True
    bad_new = False
    if not differ and not multi and g.B(0.06) and any(et not in M[gis[0]]["m"] for et in ets2):
        i = [k for k, et in enumerate(ets2) if et not in M[gis[0]]["m"]][0]
        rci = rc_arg[i] if isinstance(rc_arg, list) else rc_arg
        elm[i] = elm[i] + ["no_such_x" if rci == "name" else 10 ** 6 + 3]
        bad_new = True
    S.ctx.update(op="attach_groups" if multi else "attach", args={"groups": gis, "ets": ets2, "elm": elm, "rc": rc_arg, **kw},
                 nan_rc_hit=nan_hit, nan_rc_rows=nan_rows)
    if nan_hit:
        S.x["attach_nan_rc_row"] += 1
    if multi:
        ok, r = call(pp.attach_to_groups, net, gis, ets2, elm, reference_columns=rc_arg)
    elif len(ets2) == 1 and g.B(0.3) and not isinstance(rc_arg, list):
        ok, r = call(pp.attach_to_group, net, gis[0], ets2[0], elm, reference_columns=rc_arg, **kw)
    else:
        ok, r = call(pp.attach_to_group, net, gis[0], ets2, elm, reference_columns=rc_arg, **kw)
    if bad_new:
        S.x["attach_bad_member"] += 1
        if ok or not isinstance(r, UserWarning):
            S.fail("attach_to_group with a non-existent member for a new element type: %s" % ("accepted" if ok else tb_short(r)),
                   code="no_refusal", args=S.ctx["args"])
        return "restore"  # the refusal is not promised to be atomic
    if not take:
        S.x["attach_take_existing_false"] += 1
        if ok or not isinstance(r, UserWarning):
            S.fail("attach_to_group(take_existing_reference_columns=False) with differing reference column: %s" % (
                "accepted" if ok else tb_short(r)), code="no_refusal", args=S.ctx["args"])
            return "restore"
        return
    if not ok:
        mech = "attach_existing_row_nan_reference_column" if nan_hit and tb_last(r) else None
        S.fail("attach_to_group raised %s" % tb_short(r), mechanism=mech, code="op_exception", args=S.ctx["args"])
        return "restore"
    for gi in gis:
        for et in ets2:
            rc_pass, rows = spec[et]
            e = M[gi]["m"].get(et)
            if e is None:
                M[gi]["m"][et] = [rc_pass, set(vals_of(net, et, rc_pass, rows))]
                S.x["attach_new_type"] += 1
            else:
                before = len(e[1])
                e[1] |= vals_of(net, et, e[0], rows)
                S.x["attach_existing_type"] += 1
                if e[0] != rc_pass:
                    S.x["attach_convert_rc"] += 1
                if len(e[1]) < before + len(rows):
                    S.x["attach_overlap"] += 1


def op_detach(S):
    net, g, M = S.net, S.g, S.model
    gi = S.pick_group()
    et = g.C(sorted(M[gi]["m"])) if g.B(0.8) else g.C(S.ets(nonempty=False))
    rows = S.pick_rows(et, 1, 4, prefer=S.members(gi, et)) if len(net[et]) else []
    if g.B(0.25) or not rows:
        rows = rows + [(max([py(i) for i in net[et].index], default=0)) + g.I(3, 9)]  # not existing element
    arg = rows[0] if len(rows) == 1 and g.B(0.5) else list(rows)
    mode = g.C(["group", "group", "groups_all", "groups_some", "groups_one"])
    if mode == "group":
        tgt = [gi]
        S.ctx.update(op="detach", args={"group": gi, "et": et, "idx": arg, "fn": "detach_from_group"})
        ok, r = call(pp.detach_from_group, net, gi, et, arg)
    elif mode == "groups_all":
        tgt = sorted(M)
        S.ctx.update(op="detach", args={"et": et, "idx": arg, "fn": "detach_from_groups", "index": None})
        ok, r = call(pp.detach_from_groups, net, et, arg)
    else:
        tgt = sorted({gi} | ({S.pick_group()} if mode == "groups_some" else set()))
        ia = tgt[0] if len(tgt) == 1 and mode == "groups_one" else tgt
        S.ctx.update(op="detach", args={"et": et, "idx": arg, "fn": "detach_from_groups", "index": ia})
        ok, r = call(pp.detach_from_groups, net, et, arg, index=ia)
    S.x["detach_" + mode] += 1
    if not ok:
        S.fail("detach raised %s" % tb_short(r), code="op_exception", args=S.ctx["args"])
        return "restore"
    hit = 0
    for t in tgt:
        e = M[t]["m"].get(et)
        if e is None:
            S.x["detach_type_not_in_group"] += 1
            continue
        ex = [r_ for r_ in rows if r_ in net[et].index] if e[0] is not None else rows
        rm = vals_of(net, et, e[0], ex) & e[1]
        hit += len(rm)
        e[1] -= rm
        S.x["detach_rc_%s" % e[0]] += 1
        if not e[1]:
            del M[t]["m"][et]
            S.x["detach_row_emptied"] += 1
            if not M[t]["m"]:
                del M[t]
                S.x["detach_group_emptied"] += 1
    S.x["detach_members" if hit else "detach_nonmembers_only"] += 1


def op_drop_group(S):
    gi = S.pick_group()
    S.ctx.update(op="drop_group", args={"group": gi})
    ok, r = call(pp.drop_group, S.net, gi)
    S.x["drop_group"] += 1
    if not ok:
        S.fail("drop_group raised %s" % tb_short(r), code="op_exception")
        return "restore"
    del S.model[gi]


def table_state(S):
    idx = {et: set(py(i) for i in S.net[et].index) for et in ALL_ETS}
    vals = {}
    for gi in S.model:
        for et, (rc, _) in S.model[gi]["m"].items():
            if rc is not None and (et, rc) not in vals and rc in S.net[et].columns:
                vals[(et, rc)] = S.net[et][rc].copy()
    return idx, vals


def apply_removed(S, before):
    """model: remove exactly the rows that disappeared from the element tables"""
    idx0, vals0 = before
    gone = {et: idx0[et] - set(py(i) for i in S.net[et].index) for et in ALL_ETS}
    n = 0
    for gi in list(S.model):
        for et in list(S.model[gi]["m"]):
            if not gone[et]:
                continue
            rc, vals = S.model[gi]["m"][et]
            if rc is None:
                rm = vals & gone[et]
            else:
                s = vals0.get((et, rc))
                rm = vals & set(py(v) for v in s.loc[sorted(gone[et] & set(s.index))].values) if s is not None else set()
            n += len(rm)
            vals -= rm
            if not vals:
                del S.model[gi]["m"][et]
        if not S.model[gi]["m"]:
            del S.model[gi]
            S.x["group_vanished_by_drop"] += 1
    return gone, n


def op_drop_group_and_elements(S):
    gi = S.pick_group()
    net = S.net
    dropped = {et: S.members(gi, et) for et in S.model[gi]["m"]}
    others = any(S.members(o, et) & rows for o in S.model if o != gi for et, rows in dropped.items())
    S.ctx.update(op="drop_group_and_elements", args={"group": gi}, group=gi, dropped=dropped, others_hit=others,
                 net_before_rows={et: net[et].copy() for et in dropped})
    before = table_state(S)
    ok, r = call(pp.drop_group_and_elements, net, gi)
    S.x["drop_group_and_elements"] += 1
    if others:
        S.x["drop_group_and_elements_shared_members"] += 1
    if not ok:
        S.fail("drop_group_and_elements raised %s" % tb_short(r), code="op_exception")
        return "restore"
    del S.model[gi]
    gone, _ = apply_removed(S, before)
    for et in ALL_ETS:
        if gone[et] != dropped.get(et, set()):
            S.fail("drop_group_and_elements dropped %s %s instead of the members %s" % (et, srt(gone[et]), srt(dropped.get(et, set()))),
                   code="wrong_rows_dropped")
            return "restore"
    return "end"  # directly dropped buses/branches leave dangling connections: the history ends here


def toolbox(S, label, fn, args, kwargs=None, op="drop", need_ref=True, removes=True):
    """run a toolbox function on the real net; out of domain if it also fails on a copy of the net without groups.
    returns (status, result, gone) with status ok / skip / fail"""
    kwargs = kwargs or {}
    ref_idx = None
    if need_ref:
        ref = copy.deepcopy(S.net)
        ref["group"] = ref.group.iloc[0:0]
        ok, r = call(fn, ref, *copy.deepcopy(args), **copy.deepcopy(kwargs))
        if not ok:
            S.x["toolbox_fails_without_groups"] += 1
            S.x["refused:" + label] += 1
            return "skip", r, None
        ref_idx = {et: set(py(i) for i in ref[et].index) for et in ALL_ETS}
    S.ctx.update(op=op, fn=label, args={"fn": label, "args": args, **kwargs})
    before = table_state(S)
    S.before_tables = before
    ok, r = call(fn, S.net, *args, **kwargs)
    S.x["tb_" + label] += 1
    if not ok:
        S.ctx["exc"] = r
        return "fail", r, None
    gone, n = apply_removed(S, before) if removes else (None, 0)
    if n:
        S.x["drop_hit_members"] += 1
    if ref_idx is not None:
        for et in ALL_ETS:
            now = set(py(i) for i in S.net[et].index)
            if now != ref_idx[et]:
                S.fail("%s: rows of net.%s differ from the same call on a copy without groups: %s vs %s" % (
                    label, et, srt(now - ref_idx[et]), srt(ref_idx[et] - now)), code="rows_depend_on_groups")
                return "fail_reported", r, gone
    return "ok", r, gone


def undetached_ctx(S, kind, buses=()):
    """which element types the called function drops without detach_from_groups (known defects), computed from the code path"""
    und, mech = {}, {}
    net = S.net
    if kind in ("drop_buses", "fuse"):
        # drop_elements_at_buses -> drop_switches_at_buses drops switches without detach_from_groups
        sw = net.switch
        if kind == "drop_buses" and len(sw):
            m = sw.bus.isin(buses) | (sw.element.isin(buses) & (sw.et == "b"))
            # lines come before switches in element_bus_tuples(): switches at dropped lines are detached by drop_lines;
            # trafo / trafo3w switches at the dropped buses are removed by drop_switches_at_buses before drop_trafos runs
            hit = net.line.index[net.line.from_bus.isin(buses) | net.line.to_bus.isin(buses)] if len(net.line) else []
            m &= ~((sw.et == "l") & sw.element.isin(hit))
            und["switch"] = set(py(i) for i in sw.index[m.values])
            mech["switch"] = "drop_buses_switches_not_detached"
    if kind == "fuse":
        # _inner_branches(task="drop") drops impedance / dcline / bus-bus switches directly
        for et_ in ("impedance", "dcline", "switch"):
            und[et_] = set(py(i) for i in net[et_].index)
            mech[et_] = "drop_inner_branches_not_detached"
    S.ctx.update(undetached=und, undetached_mech=mech)


def op_drop(S):
    net, g = S.net, S.g
    kinds = ["drop_elements", "drop_elements", "drop_elements_simple", "drop_buses", "drop_lines", "drop_trafos"]
    kind = g.C(kinds)
    S.ctx.update(undetached={}, undetached_mech={})
    if kind == "drop_elements":
        ets = [et for et in S.ets() if et != "bus" or len(net.bus) > 4]
        in_groups = [et for et in ets if S.all_members(et)]
        et = g.C(in_groups) if in_groups and g.B(0.7) else g.C(ets)
        rows = S.pick_rows(et, 1, 2 if et == "bus" else 3, prefer=S.all_members(et))
        if et == "bus":
            undetached_ctx(S, "drop_buses", rows)
        st, r, gone = toolbox(S, "drop_elements", tb.drop_elements, [et, rows])
    elif kind == "drop_elements_simple":
        ets = [et for et in S.ets() if et in BUS_ETS + ["impedance", "dcline", "switch"]]
        if not ets:
            return "skip"
        in_groups = [et for et in ets if S.all_members(et)]
        et = g.C(in_groups) if in_groups and g.B(0.7) else g.C(ets)
        rows = S.pick_rows(et, 1, 3, prefer=S.all_members(et))
        arg = rows[0] if len(rows) == 1 and g.B(0.4) else rows
        st, r, gone = toolbox(S, "drop_elements_simple", tb.drop_elements_simple, [et, arg])
    elif kind == "drop_buses":
        if len(net.bus) <= 4:
            return "skip"
        rows = S.pick_rows("bus", 1, 2, prefer=S.all_members("bus"))
        undetached_ctx(S, "drop_buses", rows)
        st, r, gone = toolbox(S, "drop_buses", tb.drop_buses, [rows])
    elif kind == "drop_lines":
        if len(net.line) <= 1:
            return "skip"
        rows = S.pick_rows("line", 1, 3, prefer=S.all_members("line"))
        st, r, gone = toolbox(S, "drop_lines", tb.drop_lines, [rows])
    else:
        et = g.C([e for e in ("trafo", "trafo3w") if len(net[e])] or [None])
        if et is None:
            return "skip"
        rows = S.pick_rows(et, 1, 2, prefer=S.all_members(et))
        st, r, gone = toolbox(S, "drop_trafos", tb.drop_trafos, [rows], {"table": et})
    return finish_toolbox(S, st, r)


def finish_toolbox(S, st, r):
    if st == "skip":
        return "skip"
    if st == "fail":
        S.viol_exc = r
        return "exception"
    if st == "fail_reported":
        return "restore"
    return None


def op_fuse(S):
    net, g = S.net, S.g
    cands = []
    for et in ("line", "impedance"):
        for i in net[et].index:
            cands.append((py(net[et].at[i, "from_bus"]), py(net[et].at[i, "to_bus"])))
    sw = net.switch[net.switch.et == "b"]
    cands += [(py(a), py(b)) for a, b in zip(sw.bus.values, sw.element.values)]
    cands = [(a, b) for a, b in cands if a != b and a in net.bus.index and b in net.bus.index and
             net.bus.vn_kv.at[a] == net.bus.vn_kv.at[b]]
    if not cands or len(net.bus) <= 4:
        return "skip"
    b1, b2 = cands[g.I(0, len(cands) - 1)]
    if g.B(0.5):
        b1, b2 = b2, b1
    undetached_ctx(S, "fuse", [b2])
    st, r, gone = toolbox(S, "fuse_buses", tb.fuse_buses, [b1, [b2]], op="fuse")
    if st == "ok":
        for et in ("impedance", "dcline", "switch", "line", "trafo", "trafo3w"):
            if gone[et]:
                S.x["fuse_dropped_" + et] += 1
    return finish_toolbox(S, st, r)


def remap(S, et, lookup):
    n = 0
    for gi in S.model:
        e = S.model[gi]["m"].get(et)
        if e is not None and e[0] is None:
            new = set(lookup.get(v, v) for v in e[1])
            n += new != e[1]
            e[1] = new
    if n:
        S.x["reindex_moved_index_group"] += 1
    if any(S.model[gi]["m"].get(et, [None])[0] is not None for gi in S.model):
        S.x["reindex_with_refcol_group"] += 1


def fresh_indices(S, et, k, allow_existing=()):
    used = set(py(i) for i in S.net[et].index) - set(allow_existing)
    out = []
    hi = max(used | set(allow_existing) | {0}) + 12
    while len(out) < k:
        i = S.g.I(0, hi)
        if i not in used and i not in out:
            out.append(i)
    return out


def op_reindex(S):
    net, g = S.net, S.g
    kind = g.C(["all", "all", "lookup", "lookup", "new_old", "buses", "cont_bus", "cont_all", "group", "group"])
    S.ctx.update(partial_uncovered=False, exc_keyerror_get_indices=False)
    in_groups = [et for et in S.ets() if et != "bus" and any(et in S.model[gi]["m"] for gi in S.model)]
    ets = [et for et in S.ets() if et != "bus"]
    if kind in ("all", "lookup", "new_old"):
        if not ets:
            return "skip"
        et = g.C(in_groups) if in_groups and g.B(0.75) else g.C(ets)
        idx = sorted(py(i) for i in net[et].index)
        if kind == "all":
            new = fresh_indices(S, et, len(idx), allow_existing=idx)
            old = [py(i) for i in net[et].index]
            lookup = dict(zip(old, new))
            st, r, _ = toolbox(S, "reindex_elements", tb.reindex_elements, [et], {"new_indices": new}, op="reindex", removes=False)
        else:
            # the lookup covers every member of every index group of this type, unless the uncovered variant is drawn
            need = set()
            for gi in S.model:
                e = S.model[gi]["m"].get(et)
                if e is not None and e[0] is None:
                    need |= e[1] & set(idx)
            uncovered = bool(need) and g.B(0.12)
            rest = [i for i in idx if i not in need]
            extra = [py(i) for i in g.rng.choice(rest, min(len(rest), g.I(0, 3)), replace=False)] if rest else []
            if uncovered:
                old = sorted(set(extra) | set(sorted(need)[:max(0, len(need) - 1)]))
                if not old:
                    old = extra or [idx[0]]
                uncovered = bool(need - set(old))
            else:
                old = sorted(need | set(extra))
            if not old:
                return "skip"
            if len(old) >= 2 and g.B(0.3):
                new = old[1:] + old[:1]  # permutation among themselves
            else:
                new = fresh_indices(S, et, len(old), allow_existing=old)
            lookup = dict(zip(old, new))
            S.ctx["partial_uncovered"] = uncovered
            S.x["reindex_partial_uncovered" if uncovered else "reindex_partial_covered"] += 1
            if kind == "lookup":
                st, r, _ = toolbox(S, "reindex_elements", tb.reindex_elements, [et], {"lookup": dict(lookup)}, op="reindex", removes=False)
            else:
                st, r, _ = toolbox(S, "reindex_elements", tb.reindex_elements, [et], {"new_indices": new, "old_indices": old},
                                   op="reindex", removes=False)
        if st == "ok":
            remap(S, et, lookup)
    elif kind == "buses":
        idx = sorted(py(i) for i in net.bus.index)
        old = [py(i) for i in g.rng.choice(idx, min(len(idx), g.I(1, 4)), replace=False)]
        new = old[1:] + old[:1] if len(old) >= 2 and g.B(0.3) else fresh_indices(S, "bus", len(old), allow_existing=old)
        lookup = dict(zip(old, new))
        if g.B(0.5):
            st, r, _ = toolbox(S, "reindex_buses", tb.reindex_buses, [dict(lookup)], op="reindex", removes=False)
        else:
            st, r, _ = toolbox(S, "reindex_elements", tb.reindex_elements, ["bus"], {"lookup": dict(lookup)}, op="reindex", removes=False)
        if st == "ok":
            remap(S, "bus", lookup)
    elif kind == "cont_bus":
        start = g.I(0, 3)
        lookup = dict(zip(sorted(py(i) for i in net.bus.index), range(start, start + len(net.bus))))
        st, r, _ = toolbox(S, "create_continuous_bus_index", tb.create_continuous_bus_index, [], {"start": start}, op="reindex", removes=False)
        if st == "ok":
            remap(S, "bus", lookup)
            if {py(k): py(v) for k, v in r.items()} != lookup:
                S.fail("create_continuous_bus_index returned lookup %s, expected %s" % (r, lookup), code="lookup")
    elif kind == "cont_all":
        start = g.I(0, 2)
        lk = {et: dict(zip(sorted(py(i) for i in net[et].index), range(start, start + len(net[et])))) for et in ALL_ETS}
        st, r, _ = toolbox(S, "create_continuous_elements_index", tb.create_continuous_elements_index, [], {"start": start}, op="reindex", removes=False)
        if st == "ok":
            for et in ALL_ETS:
                remap(S, et, lk[et])
    else:
        if not S.model:
            return "skip"
        M = S.model
        old = [py(i) for i in g.rng.choice(sorted(M), g.I(1, min(2, len(M))), replace=False)]
        new = []
        while len(new) < len(old):
            i = g.I(0, 15)
            if i not in new and (i not in M or i in old):
                new.append(i)
        if set(new) & set(old) and new != old[::-1]:
            new = old[::-1]
        lookup = dict(zip(old, new))
        S.ctx.update(op="reindex", fn="reindex_group", args={"lookup": lookup})
        if g.B(0.5):
            ok, r = call(tb.reindex_elements, net, "group", lookup=dict(lookup))
        else:
            ok, r = call(tb.reindex_elements, net, "group", new_indices=new, old_indices=old)
        S.x["tb_reindex_group"] += 1
        if not ok:
            S.viol_exc = r
            return "exception"
        S.model = {lookup.get(gi, gi): v for gi, v in M.items()}
        return
    if st == "fail":
        S.ctx["exc_keyerror_get_indices"] = isinstance(r, KeyError) and _in_group_link(r)
    return finish_toolbox(S, st, r)


def _in_group_link(e):
    """the KeyError was raised while reindex_elements adapted the group link"""
    for fr in traceback.extract_tb(e.__traceback__):
        if fr.filename.endswith("data_modification.py") and fr.name == "reindex_elements":
            src = "".join(linecache.getline(fr.filename, fr.lineno + k) for k in (-1, 0, 1))
            return "net.group" in src
    return False


REPLACERS = {
    "gen_sgen": ("gen", "sgen", tb.replace_gen_by_sgen), "sgen_gen": ("sgen", "gen", tb.replace_sgen_by_gen),
    "eg_gen": ("ext_grid", "gen", tb.replace_ext_grid_by_gen), "gen_eg": ("gen", "ext_grid", tb.replace_gen_by_ext_grid),
    "pq": (None, None, tb.replace_pq_elmtype), "ward_int": ("ward", None, tb.replace_ward_by_internal_elements),
    "xward_int": ("xward", None, tb.replace_xward_by_internal_elements), "xward_ward": ("xward", "ward", tb.replace_xward_by_ward),
    "imp_line": ("impedance", "line", tb.replace_impedance_by_line), "line_imp": ("line", "impedance", tb.replace_line_by_impedance),
}


def op_replace(S):
    net, g, M = S.net, S.g, S.model
    poss = []
    for k, (o, n, f) in REPLACERS.items():
        if k == "pq":
            poss += [("pq", o_, n_) for o_ in ("sgen", "load", "storage") for n_ in ("sgen", "load", "storage") if o_ != n_ and len(net[o_])]
        elif len(net[o]) and not (o == "ext_grid" and len(net.ext_grid) < 2) and not (o == "line" and len(net.line) < 3):
            poss.append((k, o, n))
    if not poss:
        return "skip"
    memb = [p for p in poss if S.all_members(p[1])]
    pool = memb if memb and g.B(0.8) else poss
    k = g.C(sorted({p[0] for p in pool}))
    k, old_et, new_et = g.C([p for p in pool if p[0] == k])
    fn = REPLACERS[k][2]
    olds = S.pick_rows(old_et, 1, 3, prefer=S.all_members(old_et))
    new_ets = {"ward_int": ["load", "shunt"], "xward_int": ["bus", "load", "shunt", "gen", "impedance"]}.get(k, [new_et])
    # domain: no 'cid' reference (new elements have none) in involved rows
    for gi in M:
        e = M[gi]["m"].get(old_et)
        if e is not None and (rows_of(net, old_et, e[0], e[1]) & set(olds)):
            if e[0] not in (None, "name") or any(M[gi]["m"].get(n, [None])[0] not in (None, "name") for n in new_ets):
                S.x["replace_skipped_cid"] += 1
                return "skip"
            if not all(col_ok(net, n, M[gi]["m"][n][0]) for n in new_ets if n in M[gi]["m"]):
                return "skip"
    # _replace_group_member_element_type compares the old element INDICES with the stored reference VALUES: affected are
    # reference-column rows of the old element type whose members or whose raw values meet the replaced indices
    refcol = {gi for gi in M if old_et in M[gi]["m"] and M[gi]["m"][old_et][0] is not None and
              ((S.members(gi, old_et) & set(olds)) or (M[gi]["m"][old_et][1] & set(olds)))} if k not in ("ward_int", "xward_int") else set()
    holders = {gi: S.members(gi, old_et) & set(olds) for gi in M}
    if g.B(0.7) and normalise_nan_rc(net):
        S.x["attach_nan_rc_normalised"] += 1
    # the replace functions attach the new elements through attach_to_group: same NaN-vs-None defect
    nan_rows = set()
    for pos in range(len(net.group)):
        gi_, et_ = py(net.group.index[pos]), net.group.element_type.iat[pos]
        if et_ in new_ets and holders.get(gi_) and isinstance(net.group.reference_column.iat[pos], float):
            nan_rows.add((gi_, et_))
    if k in ("ward_int", "xward_int"):
        # a row added by the first attach_to_groups call gets NaN as reference column (concat), the attach for the next
        # ward of the same group hits the same defect
        nan_rows |= {(gi_, n) for gi_, hs in holders.items() if len(hs) >= 2 for n in new_ets if n not in M[gi_]["m"]}
    S.ctx.update(old_et=old_et, new_et=new_et, refcol_groups=refcol, nan_rc_rows=nan_rows)
    if nan_rows:
        S.x["attach_nan_rc_row"] += 1
    names = {o: net[old_et].at[o, "name"] for o in olds}
    before_idx = {et: set(py(i) for i in net[et].index) for et in ALL_ETS}
    if k == "pq":
        args, kw = [old_et, new_et], {"old_indices": list(olds)}
    elif k in ("imp_line", "line_imp"):
        args, kw = [], {"index": list(olds), "only_valid_replace": g.B(0.5)}
    elif k == "xward_ward":
        args, kw = [], {"index": list(olds)}
    else:
        args, kw = [list(olds)], {}
    st, r, gone = toolbox(S, fn.__name__, fn, args, kw, op="replace")
    if refcol:
        S.x["replace_with_refcol_members"] += 1
    if st != "ok":
        return finish_toolbox(S, st, r)
    # map old -> new elements: by the returned list (same order as the replaced old elements), for the internal-element
    # functions by the (unique) name the new elements inherit; apply_removed already removed the old ones
    replaced = [o for o in olds if o in gone[old_et]]
    newrows = {n_et: [py(i) for i in net[n_et].index if py(i) not in before_idx[n_et]] for n_et in new_ets}
    if k not in ("ward_int", "xward_int"):
        ret = [py(i) for i in r]
        if len(ret) != len(replaced) or set(ret) != set(newrows[new_et]):
            S.fail("%s returned %s for the replaced %s %s; new rows of net.%s: %s" % (fn.__name__, ret, old_et, replaced, new_et,
                                                                                     newrows[new_et]), code="replacement_not_found")
            return "restore"
    moved = 0
    for pos, o in enumerate(replaced):
        for n_et in new_ets:
            t = net[n_et]
            cand = [ret[pos]] if k not in ("ward_int", "xward_int") else [i for i in newrows[n_et] if t.at[i, "name"] == names[o]]
            if len(cand) != 1:
                S.fail("%s: cannot identify the %s that replaces %s %s (candidates %s)" % (fn.__name__, n_et, old_et, o, cand),
                       code="replacement_not_found")
                return "restore"
            for gi, hs in holders.items():
                if o in hs and gi in S.model_before:
                    e_old = S.model_before[gi]["m"][old_et]
                    grp = M.setdefault(gi, {"name": S.model_before[gi]["name"], "m": {}})
                    e = grp["m"].get(n_et)
                    if e is None:
                        rc_new = e_old[0] if k not in ("ward_int", "xward_int") else None
                        e = grp["m"][n_et] = [rc_new, set()]
                    e[1] |= vals_of(net, n_et, e[0], [cand[0]])
                    moved += 1
    S.x["replace_moved_members" if moved else "replace_no_members"] += 1
    S.x["replace_" + k] += 1


def op_set_rc(S):
    net, g, M = S.net, S.g, S.model
    gi = S.pick_group()
    ets_all = list(M[gi]["m"])
    rc = g.C([None, None, "name", "name", "cid", "ref2"])
    et_arg = g.C(ets_all) if g.B(0.4) else None
    order = [et for et in net.group.loc[[gi], "element_type"].tolist()] if et_arg is None else [et_arg]
    S.ctx.update(op="set_reference_column", args={"group": gi, "rc": rc, "et": et_arg})
    expect_err = False
    plan = []
    for et in order:
        if not col_ok(net, et, rc):
            expect_err = True
            break
        plan.append(et)
    rows = {et: S.members(gi, et) for et in plan}
    ok, r = call(pp.set_group_reference_column, net, gi, rc, **({"element_type": et_arg} if et_arg is not None else {}))
    S.x["set_rc_to_%s" % rc] += 1
    if expect_err:
        S.x["set_rc_refused"] += 1
        if ok or not isinstance(r, ValueError):
            S.fail("set_group_reference_column to a column with duplicated/null values: %s" % ("accepted" if ok else tb_short(r)),
                   code="no_refusal", args=S.ctx["args"])
            return "restore"
    elif not ok:
        S.fail("set_group_reference_column raised %s" % tb_short(r), code="op_exception", args=S.ctx["args"])
        return "restore"
    for et in plan:
        if et in M[gi]["m"]:
            if M[gi]["m"][et][0] != rc:
                S.x["set_rc_changed"] += 1
            M[gi]["m"][et] = [rc, vals_of(net, et, rc, rows[et])]


def op_set_value(S):
    net, g, M = S.net, S.g, S.model
    gi = S.pick_group()
    kind = g.C(["in", "out", "out", "value", "value"])
    before = snap.snapshot(net)
    exp = {k: v for k, v in before.items()}
    if kind == "value":
        column = g.C(["in_service", "scaling", "zone", "c27_tag", "max_loading_percent"])
        value = {"in_service": g.B(0.5), "scaling": g.R(0.1, 2), "zone": "z%d" % g.I(0, 3), "c27_tag": g.I(1, 9),
                 "max_loading_percent": g.R(50, 150)}[column]
        replace, append = g.B(0.6), g.B(0.5)
        S.ctx.update(op="set_value", args={"group": gi, "column": column, "value": value, "replace": replace, "append_column": append})
    else:
        column, value, replace, append = "in_service", kind == "in", True, False
        S.ctx.update(op="set_value", args={"group": gi, "fn": "set_group_%s_service" % ("in" if kind == "in" else "out_of")})
    touched = 0
    for et in M[gi]["m"]:
        t = net[et]
        if not (append or column in t.columns):
            continue
        rows = sorted(S.members(gi, et) & set(py(i) for i in t.index))
        e = t.copy(deep=True)
        if column not in e.columns:
            e[column] = pd.Series([None] * len(e), index=e.index, dtype=object) if isinstance(value, str) else np.nan
            ix = rows
        elif replace:
            ix = rows
        else:
            ix = [i for i in rows if isnull(t.at[i, column])]
        if ix:
            if isinstance(value, (str, float, int)) and not isinstance(value, bool) and e[column].dtype == bool:
                e[column] = e[column].astype(object)
            e.loc[ix, column] = value
            touched += len(ix)
        exp[et] = ("df", e)
    if kind == "in":
        ok, r = call(pp.set_group_in_service, net, gi)
    elif kind == "out":
        ok, r = call(pp.set_group_out_of_service, net, gi)
    else:
        ok, r = call(pp.set_value_to_group, net, gi, value, column, replace=replace, append_column=append)
    S.x["set_value_" + kind] += 1
    if not ok:
        S.fail("%s raised %s" % (S.ctx["args"], tb_short(r)), code="op_exception")
        return "restore"
    d = snap.diff(exp, net, ignore_new_columns=False)
    S.x["set_value_snapshot_checked"] += 1
    if touched:
        S.x["set_value_touched_members"] += 1
    if d:
        S.fail("tables after %s differ from 'exactly the members get the value': %s" % (S.ctx["args"], d[:4]), code="set_value_tables")
        return "restore"


def expected_sums(S, gi):
    """(p, q, per_bus {bus: [p, q]}, judged_q) computed from the res_* tables for the model's members"""
    net = S.net
    p = q = 0.
    pb = collections.defaultdict(lambda: [0., 0.])
    judged_q = True
    for et in S.model[gi]["m"]:
        if et in ("bus", "switch"):
            continue
        res = net["res_" + et]
        rows = sorted(S.members(gi, et) & set(py(i) for i in res.index))
        sign = -1. if et in ("ext_grid", "gen", "sgen") else 1.
        if et in BRANCH_ETS:
            p += np.nansum(res.pl_mw.loc[rows].values)
            if "ql_mvar" in res.columns:
                q += np.nansum(res.ql_mvar.loc[rows].values)
            else:
                judged_q = False
            for col, side in zip(BUS_COLS[et], SIDES[et]):
                for i in rows:
                    b = py(net[et].at[i, col])
                    pb[b][0] += np.nan_to_num(res.at[i, "p_%s_mw" % side])
                    pb[b][1] += np.nan_to_num(res.at[i, "q_%s_mvar" % side])
        else:
            p += sign * np.nansum(res.p_mw.loc[rows].values)
            q += sign * np.nansum(res.q_mvar.loc[rows].values)
            for i in rows:
                b = py(net[et].at[i, "bus"])
                pb[b][0] += sign * np.nan_to_num(res.at[i, "p_mw"])
                pb[b][1] += sign * np.nan_to_num(res.at[i, "q_mvar"])
    return p, q, dict(pb), judged_q


def op_results(S):
    net, M = S.net, S.model
    S.ctx.update(op="results", args={})
    st, exc = pf.try_run(pp.runpp, net)
    if st != "ok":
        S.x["pf_" + st.split(":")[0]] += 1
        return "skip"
    S.x["pf_ok"] += 1
    for gi in sorted(M):
        if not any(et not in ("bus", "switch") for et in M[gi]["m"]):
            continue
        if any(("res_" + et) not in net or not set(S.members(gi, et)) <= set(net["res_" + et].index)
               for et in M[gi]["m"] if et not in ("bus", "switch")):
            S.x["results_no_res_table"] += 1
            continue
        p, q, pb, judged_q = expected_sums(S, gi)
        scale = sum(abs(v[0]) + abs(v[1]) for v in pb.values()) + abs(p) + abs(q)
        tol = 1e-9 + 1e-9 * scale
        ok, r = call(pp.group_res_p_mw, net, gi)
        S.x["res_p_checked"] += 1
        if not ok or not abs(r - p) <= tol:
            S.fail("group_res_p_mw(group %s) = %s, sum over the members = %r (%s)" % (gi, r if ok else tb_short(r), p, _desc(M[gi])),
                   code="res_p")
        ok, r = call(pp.group_res_q_mvar, net, gi)
        if judged_q:
            S.x["res_q_checked"] += 1
            if not ok or not abs(r - q) <= tol:
                S.fail("group_res_q_mvar(group %s) = %s, sum over the members = %r (%s)" % (gi, r if ok else tb_short(r), q, _desc(M[gi])),
                       code="res_q")
        ok, r = call(pp.group_res_power_per_bus, net, gi)
        S.x["res_per_bus_checked"] += 1
        if not ok:
            S.fail("group_res_power_per_bus(group %s) raised %s (%s)" % (gi, tb_short(r), _desc(M[gi])), code="res_per_bus_exc")
            continue
        got = {py(b): [float(r.p_mw.at[b]), float(r.q_mvar.at[b])] for b in r.index}
        bad = [b for b in set(got) | set(pb) if b not in got or b not in pb or abs(got[b][0] - pb[b][0]) > tol or
               abs(got[b][1] - pb[b][1]) > tol]
        if bad:
            b = sorted(bad)[0]
            S.fail("group_res_power_per_bus(group %s) at bus %s: %s, members give %s (%d buses differ; %s)" % (
                gi, b, got.get(b), pb.get(b), len(bad), _desc(M[gi])), code="res_per_bus")
        if any(et in BRANCH_ETS for et in M[gi]["m"]):
            S.x["res_branch_members"] += 1
        if any(et in ("gen", "sgen", "ext_grid") for et in M[gi]["m"]):
            S.x["res_generator_members"] += 1
        if any(v[0] is not None for v in M[gi]["m"].values()):
            S.x["res_refcol_group"] += 1


def _desc(e):
    return {et: [v[0], srt(v[1])[:8]] for et, v in e["m"].items()}


def op_copy_compare(S):
    net, g, M = S.net, S.g, S.model
    gi = S.pick_group()
    S.ctx.update(op="copy_compare", args={"group": gi})
    ok, r = call(pgroups.group_element_lists, net, gi)
    if not ok:
        S.fail("group_element_lists raised %s" % tb_short(r), code="op_exception")
        return "restore"
    ets, elm, rcs = r
    ok, ci = call(pp.create_group, net, list(ets), [list(e) for e in elm], name=M[gi]["name"], reference_columns=[None if isnull(x) else x for x in rcs])
    if not ok:
        S.fail("copying group %s through group_element_lists/create_group raised %s" % (gi, tb_short(ci)), code="op_exception")
        return "restore"
    S.x["copy_compare"] += 1
    ok1, r1 = call(pp.compare_group_elements, net, gi, ci)
    ok2, r2 = call(pp.groups_equal, net, gi, ci)
    if not ok1 or not r1:
        S.fail("compare_group_elements(group, copy of it) = %s" % (r1 if ok1 else tb_short(r1)), code="compare_copy")
    if not ok2 or not r2:
        S.fail("groups_equal(group, copy of it with the same name) = %s" % (r2 if ok2 else tb_short(r2)), code="equal_copy")
    # a copy with another reference column still has the same members
    et = g.C(list(ets))
    cur = M[gi]["m"][et][0]
    rc2 = g.C([c for c in (None, "name", "cid") if c != cur])
    if all(col_ok(net, e, rc2) for e in ets) and all(len(S.usable_rows(e, rc2)) == len(net[e]) for e in ets):
        ok, r = call(pp.set_group_reference_column, net, ci, rc2)
        if ok:
            ok1, r1 = call(pp.compare_group_elements, net, gi, ci)
            S.x["compare_cross_reference"] += 1
            if not ok1 or not r1:
                S.fail("compare_group_elements(group, copy with reference column %r) = %s" % (rc2, r1 if ok1 else tb_short(r1)),
                       code="compare_cross_rc")
    # a copy that differs by one member is different
    pool = [py(i) for i in net[et].index if py(i) not in S.members(gi, et)]
    if pool:
        normalise_nan_rc(net)
        ok, r = call(pp.attach_to_group, net, ci, et, [[g.C(pool)]])
        if ok:
            ok1, r1 = call(pp.compare_group_elements, net, gi, ci)
            S.x["compare_different"] += 1
            if not ok1 or r1:
                S.fail("compare_group_elements(group, copy + one further %s) = %s" % (et, r1 if ok1 else tb_short(r1)), code="compare_diff")
    return "restore_silent"  # the copy is not part of the history


def op_as_net(S):
    net, g, M = S.net, S.g, S.model
    gi = S.pick_group()
    keep = g.B(0.4)
    # members that remove_not_existing_group_members would remove (rows missing after earlier known defects, or values that
    # pandapower's own existence test does not find, e.g. the number 0 in a text column)
    from pandapower.groups import group_entries_exist_in_element_table
    stale = {}
    for g2, ent in M.items():
        for et2, (rc2, vals2) in ent.get("m", {}).items():
            try:
                row = net.group.loc[[g2]]
                raw = list(row.element_index[row.element_type == et2].iloc[0])
                ex = np.asarray(group_entries_exist_in_element_table(net, g2, et2), dtype=bool)
                gone = set(py(v) for v, e in zip(raw, ex) if not e)
            except Exception:  # noqa
                continue
            if gone:
                stale[(g2, et2)] = (gone, set(py(v) for v in raw))
    S.ctx.update(op="return_group_as_net", args={"group": gi, "keep_everything_else": keep}, stale=stale, n_groups=len(M))
    ok, r = call(pp.return_group_as_net, net, gi, keep_everything_else=keep, verbose=False)
    S.x["as_net_keep" if keep else "as_net"] += 1
    if not ok:
        S.fail("return_group_as_net raised %s" % tb_short(r), code="op_exception")
        return "restore"
    for et in ALL_ETS:
        exp = S.members(gi, et) & set(py(i) for i in net[et].index)
        got = set(py(i) for i in r[et].index)
        if got != exp:
            S.fail("return_group_as_net(group %s, keep_everything_else=%s): %s rows %s, members %s" % (gi, keep, et, srt(got), srt(exp)),
                   code="as_net_rows")
            break


OPS = [("create", op_create, 10), ("attach", op_attach, 16), ("detach", op_detach, 14), ("drop_group", op_drop_group, 3),
       ("drop", op_drop, 12), ("fuse", op_fuse, 3), ("reindex", op_reindex, 10), ("replace", op_replace, 9), ("set_rc", op_set_rc, 7),
       ("set_value", op_set_value, 7), ("results", op_results, 5), ("copy_compare", op_copy_compare, 4), ("as_net", op_as_net, 2),
       ("drop_group_and_elements", op_drop_group_and_elements, 2)]


def make_net(S, seed):
    g = S.g
    if g.B(0.15):
        which = g.C(["cigre_mv", "case14", "multivoltage", "case9"])
        net = {"cigre_mv": lambda: pn.create_cigre_network_mv(with_der="all"), "case14": pn.case14, "case9": pn.case9,
               "multivoltage": pn.example_multivoltage}[which]()
        src = "networks." + which
    else:
        prof = g.C(PROFILES)
        net = netgen.rnd_net(seed, prof)
        src = "rnd_net:" + prof
    for et in ALL_ETS:
        t = net[et]
        n = len(t)
        t["name"] = pd.Series(["%s_%d" % (et, i) for i in t.index], index=t.index, dtype=object)
        t["cid"] = pd.Series(g.rng.permutation(n) + g.I(0, 3), index=t.index, dtype=np.int64)
    return net, src


def run_case(seed, tier, case_no):
    S = State(seed)
    g = S.g
    old_uuid = pgroups.uuid
    pgroups.uuid = _U()
    try:
        return _run(S, seed)
    finally:
        pgroups.uuid = old_uuid


def _run(S, seed):
    g = S.g
    net, src = make_net(S, seed)
    S.net = net
    digest0 = common.net_digest(net)
    n_ops = g.I(10, 30)
    names = [o[0] for o in OPS]
    fns = {o[0]: o[1] for o in OPS}
    w = np.array([o[2] for o in OPS], dtype=float)
    S.tags.add("net:" + src.split(":")[0])
    S.tags.add("net:" + src.split(":")[0].split(".")[0])
    ended = None
    for k in range(n_ops):
        if not S.model or (len(S.model) < 2 and g.B(0.6)):
            name = "create"
        else:
            name = names[int(g.rng.choice(len(names), p=w / w.sum()))]
        S.ctx = {"op": name}
        S.viol_exc = None
        bk = backup(net)
        S.model_before = copy.deepcopy(S.model)
        nv = S.x["viol_total"]
        action = fns[name](S)
        S.x["op_" + name] += 1
        S.log.append({"op": name, **{k_: v for k_, v in S.ctx.items() if k_ in ("args", "mode", "fn")}, "action": action})
        if action == "skip":
            S.x["op_skipped"] += 1
            restore(net, bk)
            S.model = S.model_before
            continue
        if action == "restore_silent":
            restore(net, bk)
            S.model = S.model_before
        elif action == "exception":
            # the real net raised where the copy without groups did not
            d = ("op_exception", None, None, S.viol_exc, None)
            S.fail("%s raised %s although the same call succeeds on a copy of the net without groups" % (
                S.ctx.get("fn", name), tb_short(S.viol_exc)), mechanism=classify(S, d), code="op_exception", args=S.ctx.get("args"))
            restore(net, bk)
            S.model = S.model_before
            continue
        elif action == "restore":
            restore(net, bk)
            S.model = S.model_before
            continue
        D = compare(S)
        S.judged += 1
        S.max_groups = max(S.max_groups, len(S.model))
        if D:
            others = set(S.model_before) & set(S.model) - set(_touched(S))
            for d, mech in zip(D, classify_all(S, D)):
                real = d[3] if not isinstance(d[3], Exception) else tb_short(d[3])
                S.fail("after %s: %s group=%s element_type=%s real=%s model=%s" % (name, d[0], d[1], d[2], real, d[4]),
                       mechanism=mech, code=d[0], args=S.ctx.get("args"), other_group_affected=d[1] in others)
            if [d for d in D if d[0] != "assoc_single"]:
                # resynchronise: state before the operation
                restore(net, bk)
                S.model = S.model_before
                S.x["resync"] += 1
                continue
        if action == "end":
            ended = name
            break
    for k in list(S.x):
        if k.startswith("op_") and k != "op_skipped":
            S.tags.add(k)
    if any(v[0] is not None for e in S.model.values() for v in e["m"].values()):
        S.tags.add("final_refcol_group")
    nontrivial = S.judged >= 8 and S.max_groups >= 2
    sample = {"net": src, "describe": netgen.describe(net), "n_ops": len(S.log), "ended_by": ended,
              "ops": [l["op"] + ("/" + str(l.get("fn")) if l.get("fn") else "") for l in S.log],
              "final_groups": {str(gi): _desc(e) for gi, e in list(S.model.items())[:4]}}
    digest = common.sha([digest0, [(l["op"], l.get("args"), l.get("action")) for l in S.log]])
    for v in S.viols:
        v["witness"]["seed"] = seed
        v["witness"]["net"] = src
    return common.case(digest, nontrivial=nontrivial, tags=S.tags, violations=S.viols, sample=sample, evals=S.judged,
                       extra=dict(S.x))


def _touched(S):
    a = S.ctx.get("args") or {}
    t = []
    if "group" in a:
        t.append(a["group"])
    t += list(a.get("groups", []))
    return t
