"""Cheap deep snapshot + diff of all *input* tables of a pandapower net (everything that is not res_* / _private)."""
import copy

import numpy as np
import pandas as pd


def _is_input_key(k):
    # net["ppci"] is the internal calculation matrix calc_sc leaves on the net (currents.py "todo remove this"): an output
    return not (k.startswith("res_") or k.startswith("_") or k == "ppci")


def snapshot(net):
    snap = {}
    for k in list(net.keys()):
        if not _is_input_key(k):
            continue
        v = net[k]
        if isinstance(v, pd.DataFrame):
            snap[k] = ("df", v.copy(deep=True))
        elif isinstance(v, dict):
            try:
                snap[k] = ("dict", copy.deepcopy(v))
            except Exception:
                snap[k] = ("repr", repr(v))
        elif k in ("name", "f_hz", "sn_mva") and isinstance(v, (int, float, str, bool, type(None), np.integer, np.floating)):
            snap[k] = ("val", v)   # 'converged', 'OPF_converged' ... are outputs, not inputs
    return snap


def _cell_equal(a, b):
    if a is b:
        return True
    try:
        if pd.isna(a) and pd.isna(b):
            return True
    except (TypeError, ValueError):
        pass
    try:
        r = a == b
        if isinstance(r, (bool, np.bool_)):
            return bool(r)
        return bool(np.all(r))
    except Exception:
        return repr(a) == repr(b)


def diff(before, net, ignore_new_columns=True, max_items=8):
    """list of human readable differences between a snapshot and the current net (values, rows, index); dtype changes of
    unchanged values and new columns are not differences."""
    out = []
    for k, (kind, old) in before.items():
        if k not in net:
            out.append("%s: table removed" % k)
            continue
        new = net[k]
        if kind == "df":
            if not isinstance(new, pd.DataFrame):
                out.append("%s: no longer a DataFrame" % k)
                continue
            if len(old) != len(new) or not np.array_equal(np.asarray(old.index), np.asarray(new.index)):
                out.append("%s: rows changed: index %s -> %s" % (k, list(old.index)[:12], list(new.index)[:12]))
                continue
            for c in old.columns:
                if c not in new.columns:
                    out.append("%s.%s: column removed" % (k, c))
                    continue
                a, b = old[c], new[c]
                try:
                    an, bn = pd.to_numeric(a, errors="raise"), pd.to_numeric(b, errors="raise")
                    av, bv = np.asarray(an, dtype=float), np.asarray(bn, dtype=float)
                    neq = ~((av == bv) | (np.isnan(av) & np.isnan(bv)))
                except Exception:
                    neq = np.array([not _cell_equal(x, y) for x, y in zip(a.values, b.values)], dtype=bool)
                if neq.any():
                    i = int(np.flatnonzero(neq)[0])
                    out.append("%s.%s[%s]: %r -> %r (%d cell(s))" % (k, c, old.index[i], a.values[i], b.values[i], int(neq.sum())))
            if not ignore_new_columns:
                for c in new.columns:
                    if c not in old.columns:
                        out.append("%s.%s: column added" % (k, c))
        elif kind == "dict":
            if not _dict_equal(old, new):
                out.append("%s: dict content changed" % k)
        elif kind == "val":
            if not _cell_equal(old, new):
                out.append("%s: %r -> %r" % (k, old, new))
        if len(out) >= max_items:
            break
    return out


def _dict_equal(a, b):
    if isinstance(a, dict) and isinstance(b, dict):
        if set(a.keys()) != set(b.keys()):
            return False
        return all(_dict_equal(a[k], b[k]) for k in a)
    if isinstance(a, pd.DataFrame) and isinstance(b, pd.DataFrame):
        try:
            pd.testing.assert_frame_equal(a, b, check_dtype=False)
            return True
        except AssertionError:
            return False
    return _cell_equal(a, b)
