"""Source-free fault injection with sys.monitoring (Python 3.12).

A PY_START callback over all code objects whose file lives under <repo>/pandapower (tests excluded) counts events and
raises InjectedFault at event k.  record() lists the events of one call; inject() re-runs a call with the k-th event raising.
"""
import sys

mon = sys.monitoring
TOOL = 3
_state = {"on": False, "n": 0, "target": None, "log": None, "fired": None, "claimed": False}


class InjectedFault(Exception):
    """raised from inside pandapower by the failpoint probe"""


def _on_start(code, offset):
    fn = code.co_filename
    if "/pandapower/" not in fn or "/pandapower/test/" in fn:
        return mon.DISABLE
    if not _state["on"]:
        return None
    _state["n"] += 1
    if _state["log"] is not None:
        _state["log"].append((fn.split("/pandapower/", 1)[-1], code.co_qualname))
    if _state["target"] is not None and _state["n"] == _state["target"]:
        _state["fired"] = (fn.split("/pandapower/", 1)[-1], code.co_qualname)
        raise InjectedFault("%s:%s" % _state["fired"])
    return None


def _claim():
    if not _state["claimed"]:
        mon.use_tool_id(TOOL, "pv-failpoints")
        mon.register_callback(TOOL, mon.events.PY_START, _on_start)
        _state["claimed"] = True


def record(fn, *a, **kw):
    """run fn(*a, **kw) and return (events list, exception or None)"""
    _claim()
    _state.update(on=True, n=0, target=None, log=[], fired=None)
    mon.restart_events()
    mon.set_events(TOOL, mon.events.PY_START)
    exc = None
    try:
        fn(*a, **kw)
    except Exception as e:  # noqa
        exc = e
    finally:
        mon.set_events(TOOL, 0)
        _state["on"] = False
    log = _state["log"]
    _state["log"] = None
    return log, exc


def inject(k, fn, *a, **kw):
    """run fn with InjectedFault raised at the k-th (1-based) pandapower function start.
    returns (outcome, fired) with outcome in 'injected' (fault propagated), 'swallowed' (fault raised, call returned),
    'other:<Type>' (fault transformed into another exception), 'not_reached'"""
    _claim()
    _state.update(on=True, n=0, target=k, log=None, fired=None)
    mon.restart_events()
    mon.set_events(TOOL, mon.events.PY_START)
    try:
        fn(*a, **kw)
        outcome = "swallowed" if _state["fired"] else "not_reached"
    except InjectedFault:
        outcome = "injected"
    except Exception as e:  # noqa
        outcome = "other:" + type(e).__name__ if _state["fired"] else "natural:" + type(e).__name__
    finally:
        mon.set_events(TOOL, 0)
        _state["on"] = False
        _state["target"] = None
    return outcome, _state["fired"]
