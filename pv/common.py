"""Shared plumbing for the runtime monitors: paths, seeds, quiet mode, numeric helpers."""
import hashlib
import json
import logging
import os
import sys
import warnings

VERIF = os.path.dirname(os.path.dirname(os.path.abspath(__file__)))
REPO = os.environ.get("PV_REPO", "/repo")
WORK = os.path.join(VERIF, ".work")
DEPS = os.path.join(VERIF, ".deps")
EVIDENCE = os.path.join(VERIF, "evidence")
REPLAYS = os.path.join(VERIF, "replays")
PY = os.environ.get("PV_PYTHON", "/venv/bin/python")
GUARD = "PANDAPOWER_VERIF"


def setup_paths():
    """Make sure the working tree of /repo is what gets imported, and that .deps is visible."""
    if REPO not in sys.path:
        sys.path.insert(0, REPO)
    if os.path.isdir(DEPS) and DEPS not in sys.path:
        sys.path.append(DEPS)


def quiet():
    warnings.filterwarnings("ignore")
    logging.disable(logging.CRITICAL)
    import numpy as np
    np.seterr(all="ignore")


def verif_seed():
    try:
        return int(os.environ.get("VERIF_SEED", "0"))
    except ValueError:
        return 0


def case_seed(prop, tier, case_no, vseed=None):
    vseed = verif_seed() if vseed is None else vseed
    h = hashlib.sha256(f"{vseed}|{prop}|{tier}|{case_no}".encode()).digest()
    return int.from_bytes(h[:8], "big")


def sha(obj):
    return hashlib.sha1(json.dumps(obj, sort_keys=True, default=str).encode()).hexdigest()[:16]


def net_digest(net, extra=None):
    """Digest of the input tables of a pandapower net (values + index), cheap."""
    import pandas as pd
    h = hashlib.sha1()
    for k in sorted(net.keys()):
        v = net[k]
        if isinstance(v, pd.DataFrame) and len(v) and not k.startswith("res_") and not k.startswith("_"):
            h.update(k.encode())
            try:
                h.update(pd.util.hash_pandas_object(v, index=True).values.tobytes())
            except Exception:
                h.update(v.to_csv().encode())
    h.update(repr(getattr(net, "sn_mva", None)).encode())
    if extra is not None:
        h.update(json.dumps(extra, sort_keys=True, default=str).encode())
    return h.hexdigest()[:16]


class J(json.JSONEncoder):
    def default(self, o):
        import numpy as np
        if isinstance(o, (np.integer,)):
            return int(o)
        if isinstance(o, (np.floating,)):
            return float(o)
        if isinstance(o, (np.bool_,)):
            return bool(o)
        if isinstance(o, np.ndarray):
            return o.tolist()
        if isinstance(o, complex):
            return [o.real, o.imag]
        if isinstance(o, (set, frozenset, tuple)):
            return list(o)
        return str(o)


def dumps(o, **kw):
    return json.dumps(o, cls=J, **kw)


def viol(what, mechanism=None, **witness):
    """A violation record. mechanism = name of a known-finding signature that *explains* it, or None."""
    return {"what": what, "mechanism": mechanism, "witness": witness}


def case(digest, nontrivial=True, tags=(), violations=(), skipped=None, sample=None, evals=1, extra=None):
    return {"digest": digest, "nontrivial": bool(nontrivial), "tags": sorted(set(tags)),
            "violations": list(violations), "skipped": skipped, "sample": sample, "evals": int(evals),
            "extra": extra}
