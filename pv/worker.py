"""Shard runner: executes cases of one property monitor and appends one JSON line per observed case."""
import argparse
import importlib
import os
import signal
import sys
import time
import traceback

from . import common


class CaseTimeout(Exception):
    pass


def _alarm(signum, frame):
    raise CaseTimeout()


def main(argv=None):
    ap = argparse.ArgumentParser()
    ap.add_argument("prop")
    ap.add_argument("tier")
    ap.add_argument("shard", type=int)
    ap.add_argument("nshards", type=int)
    ap.add_argument("out")
    ap.add_argument("--cases", type=int, required=True)
    ap.add_argument("--budget", type=float, default=0.0)
    ap.add_argument("--case-timeout", type=int, default=120)
    a = ap.parse_args(argv)

    os.environ[common.GUARD] = "1"
    common.setup_paths()
    common.quiet()
    mod = importlib.import_module("pv.monitors." + a.prop.lower())
    t0 = time.time()
    if hasattr(mod, "setup"):
        mod.setup(a.tier)
    signal.signal(signal.SIGALRM, _alarm)
    with open(a.out, "w") as f:
        done = 0
        for case_no in range(a.shard, a.cases, a.nshards):
            if a.budget and time.time() - t0 > a.budget:
                f.write(common.dumps({"truncated": True, "at_case": case_no}) + "\n")
                break
            seed = common.case_seed(a.prop, a.tier, case_no)
            signal.alarm(a.case_timeout)
            try:
                rec = mod.run_case(seed, a.tier, case_no)
            except CaseTimeout:
                rec = common.case("timeout-%d" % case_no, nontrivial=False, skipped="case_timeout")
            except Exception:
                rec = {"error": traceback.format_exc()[-3000:]}
            finally:
                signal.alarm(0)
            rec["case_no"] = case_no
            rec["seed"] = seed
            f.write(common.dumps(rec) + "\n")
            f.flush()
            done += 1
        f.write(common.dumps({"shard_done": True, "cases": done, "wall": time.time() - t0}) + "\n")
    return 0


if __name__ == "__main__":
    sys.exit(main())
