"""Shared by C14 / C15: seeded contingency-analysis set-ups and an independent N-1 reference loop on scrubbed copies."""
import copy

import numpy as np
import pandapower as pp
import pandapower.networks as pn

from .. import pf
from ..gen import netgen

BRANCH = ("line", "trafo", "trafo3w")
VARS = {"bus": "vm_pu", "line": "loading_percent", "trafo": "loading_percent", "trafo3w": "loading_percent"}
CORPUS = ["case9", "case14", "case30", "case_ieee30", "case39", "case6ww", "case5", "case24_ieee_rts", "example_multivoltage",
          "case9", "case6ww", "example_multivoltage"]
CORPUS_THOROUGH = CORPUS + ["case57", "case118"]
PROFILES = ["transmission", "transmission", "weakly_meshed", "full_mix", "corpus", "corpus", "corpus"]


def make_net(seed, g, tier="quick"):
    profile = g.C(PROFILES)
    if profile == "corpus":
        name = g.C(CORPUS if tier == "quick" else CORPUS_THOROUGH)
        net = getattr(pn, name)()
        net.load["scaling"] = g.rng.uniform(0.6, 1.3, len(net.load)) * g.C([1.0, 1.0, 1.3, 1.8])
        for i in net.line.index:
            if g.B(0.04):
                net.line.at[i, "in_service"] = False
        profile = "corpus:" + name
    else:
        net = netgen.rnd_net(seed, profile, {"mesh": 1.0, "oos": 0.04, "open_sw": 0.08, "n_hv": (3, 6), "n_mv": (3, 6), "trafo3w": 0.6})
    return net, profile


def set_limits(net, g):
    """realistic ratings: loadings spread around the limits so that some N-1 cases overload something"""
    st, _ = pf.try_run(pp.runpp, net)
    if st != "ok":
        return st
    if len(net.line):
        i0 = np.nan_to_num(net.res_line.i_ka.values)
        fac = g.rng.uniform(0.25, 1.0, len(net.line))
        lim = net.line.max_i_ka.values * net.line.df.values * net.line.parallel.values
        low = (i0 / np.maximum(lim, 1e-12)) < 0.05       # test-case lines with dummy ratings
        if low.any() and g.B(0.8):
            net.line.loc[low, "max_i_ka"] = (np.maximum(i0, 1e-3) / fac / net.line.df.values / net.line.parallel.values)[low]
    for el in BRANCH:
        if not len(net[el]):
            continue
        mode = g.C(["const", "rand", "rand", "tight"])
        n = len(net[el])
        if mode == "const":
            net[el]["max_loading_percent"] = float(g.C([60., 80., 100.]))
        elif mode == "rand":
            net[el]["max_loading_percent"] = g.rng.uniform(40, 130, n)
        else:
            ld = np.nan_to_num(net["res_" + el].loading_percent.values)
            net[el]["max_loading_percent"] = np.maximum(ld * g.rng.uniform(0.9, 1.6, n), 1.0)
        if g.B(0.25):
            net[el]["max_loading_percent_nminus1"] = net[el]["max_loading_percent"].values * g.rng.uniform(0.8, 1.5, n)
    # leave no results / internal state behind: the monitored call starts from a scrubbed net
    pp.clear_result_tables(net)
    net["_ppc"] = None
    return "ok"


def gen_cases(net, g, max_cases):
    """dict element -> list of indices (random subsets, permuted, random order of the element types)"""
    types = [el for el in BRANCH if len(net[el])]
    types = [types[int(i)] for i in g.rng.permutation(len(types))]
    cases = {}
    left = max_cases
    for el in types:
        if left <= 0 or (len(cases) and g.B(0.25)):
            continue
        idx = list(net[el].index)
        k = g.I(1, min(len(idx), left))
        pick = [int(i) for i in g.rng.choice(idx, size=k, replace=False)]
        cases[el] = pick
        left -= k
    return cases


def flat(cases):
    return [(el, int(i)) for el, v in cases.items() for i in v]


def reference(net, cases, kw0, kw1):
    """own N-1 loop on copies: returns (n0 dict or None, {case: {element: array} | None}) ; a case is None when it
    did not solve, and absent when the element is out of service (documented skip)"""
    n0net = copy.deepcopy(net)
    st, _ = pf.try_run(pp.runpp, n0net, **kw0)
    n0 = None
    if st == "ok":
        n0 = {el: n0net["res_" + el][v].values.copy() for el, v in VARS.items() if len(net[el])}
    per = {}
    for el, i in flat(cases):
        if not bool(net[el].at[i, "in_service"]) or (el, i) in per:
            continue
        c = copy.deepcopy(net)
        c[el].at[i, "in_service"] = False
        st, _ = pf.try_run(pp.runpp, c, **kw1)
        per[(el, i)] = None if st != "ok" else {e: c["res_" + e][v].values.copy() for e, v in VARS.items() if len(net[e])}
    return n0, per


def extremes(net, per):
    """{element: (max, min, valid[case -> mask])}: extremes over solved cases, excluding an element's own outage and
    elements that are out of service"""
    out = {}
    for el, var in VARS.items():
        if not len(net[el]):
            continue
        n = len(net[el])
        mx, mn = np.full(n, np.nan), np.full(n, np.nan)
        valid = {}
        ins = net[el].in_service.values.astype(bool)
        for case, res in per.items():
            if res is None:
                continue
            val = res[el]
            ok = ins & ~np.isnan(val)
            if case[0] == el:
                ok = ok & (net[el].index.values != case[1])
            valid[case] = ok
            mx = np.where(ok, np.fmax(mx, val), mx)
            mn = np.where(ok, np.fmin(mn, val), mn)
        out[el] = (mx, mn, valid)
    return out


def limits(net, el):
    col = "max_loading_percent_nminus1" if "max_loading_percent_nminus1" in net[el].columns else "max_loading_percent"
    return net[el][col].values.astype(float)


def overloading(net, per, tol=1e-6):
    """{case: True / False / None(ambiguous: some loading within tol of its limit)} for solved cases"""
    out = {}
    for case, res in per.items():
        if res is None:
            continue
        flag, amb = False, False
        for el in BRANCH:
            if not len(net[el]):
                continue
            lim, val = limits(net, el), res[el]
            with np.errstate(invalid="ignore"):
                flag |= bool(np.any(val > lim + tol))
                amb |= bool(np.any(np.abs(val - lim) <= tol))
        out[case] = True if flag else (None if amb else False)
    return out


# ---------------------------------------------------------------------------------------------------------------------
# C15: schedule perturbation + aggregation models

LOG_ENV, DSEED_ENV = "PV_C15_LOG", "PV_C15_DSEED"


def oos_signature(net):
    return [[el, [int(i) for i in net[el].index[~net[el].in_service.values.astype(bool)]]] for el in BRANCH if len(net[el])]


def delayed_runpp(net, **kw):
    """picklable evaluation function: sleeps a seeded 0-30 ms (keyed by the outage pattern, not by wall clock), runs runpp and
    appends (outage pattern, pid, t_done) to the log named in the environment"""
    import hashlib
    import json
    import os
    import time
    sig = oos_signature(net)
    h = hashlib.sha256((os.environ.get(DSEED_ENV, "0") + json.dumps(sig)).encode()).digest()
    time.sleep((h[0] % 31) / 1000.0)
    ok = False
    try:
        pp.runpp(net, **kw)
        ok = True
    finally:
        path = os.environ.get(LOG_ENV)
        if path:
            line = json.dumps({"sig": sig, "pid": os.getpid(), "t": time.monotonic(), "ok": ok}) + "\n"
            fd = os.open(path, os.O_WRONLY | os.O_APPEND | os.O_CREAT, 0o644)
            try:
                os.write(fd, line.encode())
            finally:
                os.close(fd)


def simulate_aggregation(net, per, order, n0, rule):
    """what run_contingency's aggregation loop yields for the solved cases in `order`.
    rule 'in_service': a value counts where the element is in service during that case (documented behaviour);
    rule 'not_nan': every non-NaN value counts (model of the parallel path that drops the in_service mask)."""
    out = {}
    solved = [c for c in order if per.get(c) is not None]
    for el, var in VARS.items():
        if not len(net[el]):
            continue
        n = len(net[el])
        r = {"index": net[el].index.values, var: n0[el]}
        if el != "bus":
            r.update({"causes_overloading": np.zeros(n, dtype=bool), "cause_element": np.full(n, None, dtype=object),
                      "cause_index": np.full(n, -1, dtype=np.int64)})
        out[el] = r
    for case in solved:
        res = per[case]
        for el, var in VARS.items():
            if el not in out:
                continue
            r, val = out[el], res[el]
            if el != "bus":
                with np.errstate(invalid="ignore"):
                    if np.any(val > limits(net, el)):
                        rc = out[case[0]]
                        rc["causes_overloading"][rc["index"] == case[1]] = True
                    mask = val > r.get("max_" + var, np.full(len(val), -1.0))
                r["cause_index"][mask] = case[1]
                r["cause_element"][mask] = case[0]
            ok = ~np.isnan(val)
            if rule == "in_service":
                ok &= net[el].in_service.values.astype(bool)
                if case[0] == el:
                    ok &= net[el].index.values != case[1]
            for key, f in (("max_" + var, np.fmax), ("min_" + var, np.fmin)):
                cur = r.setdefault(key, np.full(len(val), np.nan))
                r[key] = np.where(ok, f(val, cur), cur)
    return out


def dict_diff(a, b, tol=1e-9):
    """differences between two contingency result dicts (NaN == NaN, cause_index only where a cause was assigned)"""
    out = []
    for el in sorted(set(a) | set(b)):
        if el not in a or el not in b:
            out.append((el, None, "element missing in one result"))
            continue
        for key in sorted(set(a[el]) | set(b[el])):
            if key not in a[el] or key not in b[el]:
                out.append((el, key, "key missing in one result"))
                continue
            x, y = np.asarray(a[el][key]), np.asarray(b[el][key])
            if x.shape != y.shape:
                out.append((el, key, "shape %s vs %s" % (x.shape, y.shape)))
            elif key == "cause_element":
                bad = np.array([not (p == q or (p is None and q is None)) for p, q in zip(x, y)], dtype=bool)
                if bad.any():
                    out.append((el, key, "row %d: %r vs %r (%d rows)" % (np.flatnonzero(bad)[0], x[bad][0], y[bad][0], bad.sum())))
            elif key == "cause_index":
                ok = np.array([isinstance(p, str) for p in a[el]["cause_element"]], dtype=bool) & \
                     np.array([isinstance(p, str) for p in b[el]["cause_element"]], dtype=bool)
                bad = ok & (x != y)
                if bad.any():
                    out.append((el, key, "row %d: %r vs %r (%d rows)" % (np.flatnonzero(bad)[0], x[bad][0], y[bad][0], bad.sum())))
            elif x.dtype.kind in "fc":
                with np.errstate(invalid="ignore"):
                    bad = ~((np.abs(x - y) <= tol) | (np.isnan(x) & np.isnan(y)))
                if bad.any():
                    out.append((el, key, "row %d: %r vs %r (%d rows)" % (np.flatnonzero(bad)[0], float(x[bad][0]), float(y[bad][0]), bad.sum())))
            else:
                bad = x != y
                if bad.any():
                    out.append((el, key, "row %d: %r vs %r (%d rows)" % (np.flatnonzero(bad)[0], x[bad][0], y[bad][0], bad.sum())))
    return out
