"""Independent DC optimal power flow reference (own B-matrix model from the element tables, scipy solvers).

Model (lossless DC approximation, angles in rad, powers in MW):
    branch flow   P_ft = (theta_f - theta_t - shift) / (x_pu * tap) * sn_mva
    line          x_pu = x_ohm_per_km * length / parallel / (vn_from^2 / sn_mva),  tap = 1
    transformer   x_pu = sqrt(vk^2 - vkr^2) / 100 * (vn_lv / vn_lv_bus)^2 * sn_mva / sn_trafo / parallel,
                  tap  = (vn_hv * n_tap / vn_hv_bus) / (vn_lv / vn_lv_bus)  (tap changer on the hv side; lv side: 1 / n_tap)
    bus balance   sum(gen) - sum(load) - p_shunt = sum of outgoing branch flows
The model is validated against rundcpp of the same network before it is used (see `validate`); networks it cannot
represent (three-winding transformers, impedances, phase shifting taps, ...) are reported as unsupported.
"""
import numpy as np
from scipy import optimize, sparse


class Unsupported(Exception):
    pass


class DCModel:
    def __init__(self, net):
        self.net = net
        sn = float(net.sn_mva)
        for el in ("trafo3w", "impedance", "xward", "ward", "tcsc", "svc", "ssc", "vsc", "motor", "asymmetric_load", "asymmetric_sgen"):
            if el in net and len(net[el]) and net[el].in_service.any():
                raise Unsupported(el)
        if len(net.switch) and ((net.switch.et != "b") & ~net.switch.closed).any():
            raise Unsupported("open branch switch")
        if len(net.switch) and ((net.switch.et == "b") & net.switch.closed & (net.switch.z_ohm > 0)).any():
            raise Unsupported("impedance switch")
        if not net.bus.in_service.all():
            raise Unsupported("out of service bus")
        # fused nodes
        parent = {int(b): int(b) for b in net.bus.index}

        def find(x):
            while parent[x] != x:
                parent[x] = parent[parent[x]]
                x = parent[x]
            return x
        if len(net.switch):
            for s in net.switch[(net.switch.et == "b") & net.switch.closed].itertuples():
                parent[find(int(s.bus))] = find(int(s.element))
        roots = sorted({find(b) for b in parent})
        pos = {r: i for i, r in enumerate(roots)}
        self.node = {b: pos[find(b)] for b in parent}
        self.n = len(roots)
        vn = net.bus.vn_kv
        br = []     # (kind, index, f, t, b_mw_per_rad, shift_rad, limit_mw)
        for li, r in net.line[net.line.in_service.values].iterrows():
            zb = float(vn.at[r.from_bus]) ** 2 / sn
            x = r.x_ohm_per_km * r.length_km / r.parallel / zb
            lim = np.inf
            if "max_loading_percent" in net.line and np.isfinite(r.get("max_loading_percent", np.nan)):
                lim = r.max_loading_percent / 100. * r.max_i_ka * r.df * r.parallel * np.sqrt(3) * float(vn.at[r.from_bus])
            br.append(("line", li, self.node[int(r.from_bus)], self.node[int(r.to_bus)], sn / x, 0., lim))
        for ti, r in net.trafo[net.trafo.in_service.values].iterrows():
            tct = r.get("tap_changer_type", None)
            moved = np.isfinite(r.get("tap_pos", np.nan)) and r.tap_pos != r.tap_neutral
            if isinstance(tct, str) and tct != "Ratio" and moved:
                raise Unsupported("tap changer type %s" % tct)
            n_tap = 1.
            if np.isfinite(r.get("tap_pos", np.nan)) and np.isfinite(r.get("tap_step_percent", np.nan)):
                if np.isfinite(r.get("tap_step_degree", np.nan)) and r.tap_step_degree != 0 and r.tap_pos != r.tap_neutral:
                    raise Unsupported("phase shifting tap")
                n_tap = 1. + (r.tap_pos - r.tap_neutral) * r.tap_step_percent / 100.
            vh, vl = r.vn_hv_kv, r.vn_lv_kv
            if r.get("tap_side", "hv") == "lv":
                vl = vl * n_tap
            else:
                vh = vh * n_tap
            x = np.sqrt(r.vk_percent ** 2 - r.vkr_percent ** 2) / 100. * (vl / float(vn.at[r.lv_bus])) ** 2 * sn / r.sn_mva / r.parallel
            tap = (vh / float(vn.at[r.hv_bus])) / (vl / float(vn.at[r.lv_bus]))
            lim = np.inf
            if "max_loading_percent" in net.trafo and np.isfinite(r.get("max_loading_percent", np.nan)):
                lim = r.max_loading_percent / 100. * r.sn_mva * r.df * r.parallel
            br.append(("trafo", ti, self.node[int(r.hv_bus)], self.node[int(r.lv_bus)], sn / (x * tap), np.deg2rad(r.shift_degree), lim))
        self.branches = br
        # reference node and angle
        eg = net.ext_grid[net.ext_grid.in_service.values]
        if len(eg) != 1:
            raise Unsupported("%d external grids" % len(eg))
        self.ref = self.node[int(eg.bus.iloc[0])]
        self.ref_angle = np.deg2rad(float(eg.va_degree.iloc[0]))
        # incidence
        m = len(br)
        self.A = sparse.lil_matrix((m, self.n))
        self.bvec = np.array([b[4] for b in br])
        self.shift = np.array([b[5] for b in br])
        self.limit = np.array([b[6] for b in br])
        for k, b in enumerate(br):
            self.A[k, b[2]] += 1
            self.A[k, b[3]] -= 1
        self.A = self.A.tocsr()
        # fixed consumption per node [MW]
        self.fixed = np.zeros(self.n)
        if len(net.shunt):
            for _, r in net.shunt[net.shunt.in_service.values].iterrows():
                self.fixed[self.node[int(r.bus)]] += r.p_mw * r.step * (float(vn.at[r.bus]) / r.vn_kv) ** 2

    def flows(self, theta):
        return self.bvec * (self.A @ theta - self.shift)

    def injection_from_flows(self, theta):
        return self.A.T @ self.flows(theta)

    def solve_pf(self, inj):
        """angles for net injections inj [MW] (reference node balances)"""
        Bf = sparse.diags(self.bvec) @ self.A
        Bbus = (self.A.T @ Bf).tocsr()
        rhs = inj + self.A.T @ (self.bvec * self.shift)
        keep = [i for i in range(self.n) if i != self.ref]
        theta = np.full(self.n, self.ref_angle)
        Br = Bbus[keep][:, keep].toarray()
        theta[keep] = np.linalg.solve(Br, rhs[keep] - Bbus[keep][:, [self.ref]].toarray().ravel() * self.ref_angle)
        return theta


def validate(model, net, tol=1e-7):
    """compares the model's DC power flow (injections of the rundcpp result tables) with net.res_bus.va_degree"""
    inj = -model.fixed.copy()
    for el, sgn in (("load", -1), ("sgen", 1), ("gen", 1), ("storage", -1)):
        if len(net[el]):
            for i, r in net[el].iterrows():
                p = net["res_" + el].p_mw.at[i]
                if np.isfinite(p):
                    inj[model.node[int(r.bus)]] += sgn * p
    if len(net.dcline):
        for i, r in net.dcline.iterrows():
            inj[model.node[int(r.from_bus)]] -= net.res_dcline.p_from_mw.at[i]
            inj[model.node[int(r.to_bus)]] -= net.res_dcline.p_to_mw.at[i]
    theta = model.solve_pf(inj)
    va = np.array([np.deg2rad(net.res_bus.va_degree.at[b]) for b in net.bus.index])
    mine = np.array([theta[model.node[int(b)]] for b in net.bus.index])
    return float(np.nanmax(np.abs(va - mine))) <= tol


# ---------------------------------------------------------------------------------------------------------------------
def solve(model, net, cost_fn_pieces):
    """minimise the user's cost over the DC-OPF feasible set.  Decision variables: theta (n) and one power per dispatchable
    element.  cost_fn_pieces(et, idx) -> ("poly", c2, c1, c0) or ("pwl", points) or None; returns (optimum, x, elements)"""
    n = model.n
    elems = []      # (et, idx, node, sign of injection, lo, hi)
    inj_fixed = -model.fixed.copy()
    delta = 0.
    fixed_cost = 0.

    def cost_at(et, i, p):
        c = cost_fn_pieces(et, i)
        if c is None:
            return 0.
        if c[0] == "poly":
            return c[1] * p * p + c[2] * p + c[3]
        pts = c[1]
        v = pts[0][0] * pts[0][2]
        for lo, hi, s_ in pts:
            if p > lo:
                v += (min(p, hi) - lo) * s_
        if p < pts[0][0]:
            v += (p - pts[0][0]) * pts[0][2]
        elif p > pts[-1][1]:
            v += (p - pts[-1][1]) * pts[-1][2]
        return v

    for et, sgn in (("ext_grid", 1), ("gen", 1), ("sgen", 1), ("load", -1), ("storage", -1)):
        tab = net[et]
        for i, r in tab.iterrows():
            if not r.in_service:
                continue
            node = model.node[int(r.bus)]
            ctrl = True if et == "ext_grid" else bool(r.get("controllable", et == "gen"))
            if et == "gen" and not ctrl:
                inj_fixed[node] += sgn * r.p_mw * r.get("scaling", 1.)
                fixed_cost += cost_at(et, i, r.p_mw * r.get("scaling", 1.))
            elif et in ("sgen", "load", "storage") and not ctrl:
                inj_fixed[node] += sgn * r.p_mw * r.scaling
                fixed_cost += cost_at(et, i, r.p_mw * r.scaling)
            else:
                elems.append((et, i, node, sgn, float(r.min_p_mw) - delta, float(r.max_p_mw) + delta))
    ne = len(elems)
    nv = n + ne
    # equality: A^T diag(b) A theta - sum(sign * p) = inj_fixed + A^T b shift
    Bbus = (model.A.T @ sparse.diags(model.bvec) @ model.A).toarray()
    Aeq = np.zeros((n + 1, nv))
    Aeq[:n, :n] = Bbus
    for k, e in enumerate(elems):
        Aeq[e[2], n + k] -= e[3]
    beq = np.concatenate([inj_fixed + model.A.T @ (model.bvec * model.shift), [model.ref_angle]])
    Aeq[n, model.ref] = 1.
    # branch limits
    lim = np.isfinite(model.limit)
    F = (sparse.diags(model.bvec) @ model.A).toarray()[lim]
    f0 = (model.bvec * model.shift)[lim]
    Aub = np.zeros((2 * lim.sum(), nv))
    Aub[:lim.sum(), :n] = F
    Aub[lim.sum():, :n] = -F
    bub = np.concatenate([model.limit[lim] + f0, model.limit[lim] - f0])
    bounds = [(None, None)] * n + [(e[4], e[5]) for e in elems]
    costs = [cost_fn_pieces(e[0], e[1]) for e in elems]
    quadratic = any(c is not None and c[0] == "poly" and c[1] != 0 for c in costs)
    const = sum(c[3] for c in costs if c is not None and c[0] == "poly") + fixed_cost
    if not quadratic:
        # LP with epigraph variables for multi-segment pwl costs
        cvec = np.zeros(nv)
        extra_rows, extra_b, n_epi = [], [], 0
        epi_cols = []
        for k, c in enumerate(costs):
            if c is None:
                continue
            if c[0] == "poly":
                cvec[n + k] += c[2]
            else:
                pts = c[1]
                if len(pts) == 1:
                    cvec[n + k] += pts[0][2]
                else:
                    epi_cols.append((k, pts))
        nv2 = nv + len(epi_cols)
        cvec = np.concatenate([cvec, np.ones(len(epi_cols))])
        Aeq2 = np.hstack([Aeq, np.zeros((Aeq.shape[0], len(epi_cols)))])
        Aub2 = np.hstack([Aub, np.zeros((Aub.shape[0], len(epi_cols)))])
        rows, rhs = [], []
        for j, (k, pts) in enumerate(epi_cols):
            # convex pwl f(p) = max over segments of the segment's line (through (p_lo, f_lo) with its slope)
            f_lo = pts[0][0] * pts[0][2]
            for lo, hi, s in pts:
                row = np.zeros(nv2)
                row[n + k] = s
                row[nv + j] = -1.
                rows.append(row)
                rhs.append(s * lo - f_lo)
                f_lo += (hi - lo) * s
        if rows:
            Aub2 = np.vstack([Aub2, np.array(rows)])
            bub = np.concatenate([bub, np.array(rhs)])
        bounds2 = bounds + [(None, None)] * len(epi_cols)
        res = optimize.linprog(cvec, A_ub=Aub2 if len(Aub2) else None, b_ub=bub if len(Aub2) else None, A_eq=Aeq2, b_eq=beq,
                               bounds=bounds2, method="highs")
        if res.status != 0:
            return None, res.message, elems
        return float(res.fun + const), res.x, elems
    # convex QP: eliminate nothing, use trust-constr with exact derivatives
    c1 = np.zeros(nv)
    c2 = np.zeros(nv)
    for k, c in enumerate(costs):
        if c is None:
            continue
        if c[0] != "poly":
            raise Unsupported("pwl mixed with quadratic")
        c2[n + k], c1[n + k] = c[1], c[2]
    scale = max(1., np.abs(c1).max())

    def f(x):
        return float((c2 * x * x + c1 * x).sum()) / scale

    def grad(x):
        return (2 * c2 * x + c1) / scale

    lin = [optimize.LinearConstraint(Aeq, beq, beq)]
    if len(Aub):
        lin.append(optimize.LinearConstraint(Aub, -np.inf, bub))
    lb = np.array([-np.inf if b[0] is None else b[0] for b in bounds])
    ub = np.array([np.inf if b[1] is None else b[1] for b in bounds])
    # feasible start from the LP with the linear part only
    lp = optimize.linprog(c1, A_ub=Aub if len(Aub) else None, b_ub=bub if len(Aub) else None, A_eq=Aeq, b_eq=beq,
                          bounds=bounds, method="highs")
    if lp.status != 0:
        return None, lp.message, elems
    res = optimize.minimize(f, lp.x, jac=grad, hess=lambda x: np.diag(2 * c2 / scale), method="trust-constr",
                            constraints=lin, bounds=optimize.Bounds(lb, ub),
                            options=dict(gtol=1e-10, xtol=1e-12, maxiter=3000, barrier_tol=1e-12))
    return float(res.fun * scale + const), res.x, elems
