"""Nodal power balance computed from the *reported* result tables only (no _ppc, no lookups).

Sign convention: consumption positive.  For every bus group (buses fused by closed zero-impedance bus-bus switches with
both buses in service):   sum(bus element consumption) + sum(branch power flowing out of the bus into branches) == 0.
"""
import numpy as np
import pandas as pd

# element, sign (+1 consumption / -1 generation)
BUS_EL = [("load", 1), ("sgen", -1), ("gen", -1), ("ext_grid", -1), ("storage", 1), ("motor", 1), ("shunt", 1),
          ("ward", 1), ("xward", 1), ("asymmetric_load", 1), ("asymmetric_sgen", -1), ("svc", 1), ("ssc", 1)]
BR_EL = [("line", [("from_bus", "p_from_mw", "q_from_mvar"), ("to_bus", "p_to_mw", "q_to_mvar")]),
         ("trafo", [("hv_bus", "p_hv_mw", "q_hv_mvar"), ("lv_bus", "p_lv_mw", "q_lv_mvar")]),
         ("trafo3w", [("hv_bus", "p_hv_mw", "q_hv_mvar"), ("mv_bus", "p_mv_mw", "q_mv_mvar"), ("lv_bus", "p_lv_mw", "q_lv_mvar")]),
         ("impedance", [("from_bus", "p_from_mw", "q_from_mvar"), ("to_bus", "p_to_mw", "q_to_mvar")]),
         ("tcsc", [("from_bus", "p_from_mw", "q_from_mvar"), ("to_bus", "p_to_mw", "q_to_mvar")]),
         ("dcline", [("from_bus", "p_from_mw", "q_from_mvar"), ("to_bus", "p_to_mw", "q_to_mvar")])]


def _add(acc, pos, buses, p, q):
    idx = pos.reindex(buses).values
    ok = ~np.isnan(idx)
    np.add.at(acc, idx[ok].astype(int), (np.nan_to_num(p) + 1j * np.nan_to_num(q))[ok])


def element_consumption(net, ac=True, with_dcline=False):
    """complex consumption per bus (Series over net.bus.index) and the set of element kinds present per bus"""
    pos = pd.Series(np.arange(len(net.bus)), index=net.bus.index)
    acc = np.zeros(len(net.bus), dtype=complex)
    kinds = [set() for _ in range(len(net.bus))]
    for el, sign in BUS_EL:
        if el in net and len(net[el]):
            r = net.get("res_" + el)
            if r is None or len(r) != len(net[el]):
                raise ValueError("res_%s missing or wrong length" % el)
            p = r["p_mw"].values.astype(float)
            q = r["q_mvar"].values.astype(float) if (ac and "q_mvar" in r) else np.zeros(len(p))
            _add(acc, pos, net[el].bus.values, sign * p, sign * q)
            isv = net[el].in_service.values.astype(bool)
            for b in net[el].bus.values[isv]:
                if b in pos.index:
                    kinds[int(pos[b])].add(el)
    if with_dcline and len(net.dcline):
        r = net.res_dcline
        for bcol, pc, qc in BR_EL[-1][1]:
            q = r[qc].values.astype(float) if ac else np.zeros(len(r))
            _add(acc, pos, net.dcline[bcol].values, r[pc].values.astype(float), q)
    return pd.Series(acc, index=net.bus.index), kinds


def branch_outflow(net, ac=True):
    pos = pd.Series(np.arange(len(net.bus)), index=net.bus.index)
    acc = np.zeros(len(net.bus), dtype=complex)
    mag = np.zeros(len(net.bus))
    for el, sides in BR_EL:
        if el in net and len(net[el]):
            r = net.get("res_" + el)
            if r is None or len(r) != len(net[el]):
                raise ValueError("res_%s missing or wrong length" % el)
            for bcol, pc, qc in sides:
                p = r[pc].values.astype(float)
                q = r[qc].values.astype(float) if ac else np.zeros(len(p))
                _add(acc, pos, net[el][bcol].values, p, q)
                idx = pos.reindex(net[el][bcol].values).values
                ok = ~np.isnan(idx)
                np.add.at(mag, idx[ok].astype(int), np.abs(np.nan_to_num(p) + 1j * np.nan_to_num(q))[ok])
    if len(net.switch) and "res_switch" in net and len(net.res_switch) and "p_from_mw" in net.res_switch:
        sw = net.switch[net.switch.et.values == "b"]
        if len(sw):
            r = net.res_switch.loc[sw.index]
            for bcol, pc, qc in [("bus", "p_from_mw", "q_from_mvar"), ("element", "p_to_mw", "q_to_mvar")]:
                p = r[pc].values.astype(float)
                q = r[qc].values.astype(float) if ac else np.zeros(len(p))
                _add(acc, pos, sw[bcol].values, p, q)
    return pd.Series(acc, index=net.bus.index), pd.Series(mag, index=net.bus.index)


def fused_groups(net):
    """union-find over closed bus-bus switches without impedance whose both buses are in service"""
    parent = {b: b for b in net.bus.index}

    def find(x):
        while parent[x] != x:
            parent[x] = parent[parent[x]]
            x = parent[x]
        return x

    if len(net.switch):
        z = net.switch.z_ohm.values if "z_ohm" in net.switch else np.zeros(len(net.switch))
        sel = (net.switch.et.values == "b") & net.switch.closed.values.astype(bool) & ~(np.nan_to_num(z) > 0)
        ins = net.bus.in_service
        for a, b in zip(net.switch.bus.values[sel], net.switch.element.values[sel]):
            if a in parent and b in parent and ins.at[a] and ins.at[b]:
                ra, rb = find(a), find(b)
                if ra != rb:
                    parent[ra] = rb
    groups = {}
    for b in net.bus.index:
        groups.setdefault(find(b), []).append(b)
    return list(groups.values())


def nodal_mismatch(net, ac=True):
    """returns list of (group, mismatch complex, scale, kinds) for energized groups"""
    cons, kinds = element_consumption(net, ac)
    out, mag = branch_outflow(net, ac)
    tot = cons + out
    pos = {b: i for i, b in enumerate(net.bus.index)}
    vm = net.res_bus.vm_pu if ac else net.res_bus.va_degree
    res = []
    for grp in fused_groups(net):
        if vm.loc[grp].isna().all():
            energized = False
        else:
            energized = True
        m = complex(tot.loc[grp].sum())
        scale = float(np.abs(cons.loc[grp]).sum() + mag.loc[grp].sum())
        k = set()
        for b in grp:
            k |= kinds[pos[b]]
        res.append((grp, m, scale, k, energized))
    return res, cons
