"""Independent element models in physical units (kV, Ohm, S, MVA), evaluated at the *reported* bus voltages.

Nothing here touches net._ppc, per-unit bases of the solver, bus lookups or wye-delta formulas.  Each function returns the
terminal complex powers (MVA) and currents (kA) the documented equivalent circuit yields for the reported complex bus
voltages  V_b = vm_pu * vn_kv * exp(j va)  (line-to-line kV).
"""
import numpy as np
import pandas as pd

SQ3 = np.sqrt(3.0)


def cvolt(net, b):
    vm = net.res_bus.vm_pu.at[b]
    va = net.res_bus.va_degree.at[b]
    return vm * net.bus.vn_kv.at[b] * np.exp(1j * np.deg2rad(va))


# ----------------------------------------------------------------------------------------------------------- line
def line_model(net, i):
    l = net.line.loc[i]
    Z = (l.r_ohm_per_km + 1j * l.x_ohm_per_km) * l.length_km / l.parallel
    g = l.g_us_per_km if "g_us_per_km" in l and not pd.isna(l.g_us_per_km) else 0.
    Y = (g * 1e-6 + 1j * 2 * np.pi * net.f_hz * l.c_nf_per_km * 1e-9) * l.length_km * l.parallel
    vf, vt = cvolt(net, l.from_bus), cvolt(net, l.to_bus)
    i_f = (vf - vt) / Z + vf * Y / 2
    i_t = (vt - vf) / Z + vt * Y / 2
    s_f, s_t = vf * np.conj(i_f), vt * np.conj(i_t)
    ika_f, ika_t = abs(i_f) / SQ3, abs(i_t) / SQ3
    loading = max(ika_f, ika_t) / (l.max_i_ka * l.df * l.parallel) * 100.
    return dict(p_from_mw=s_f.real, q_from_mvar=s_f.imag, p_to_mw=s_t.real, q_to_mvar=s_t.imag, i_from_ka=ika_f, i_to_ka=ika_t,
                i_ka=max(ika_f, ika_t), loading_percent=loading, pl_mw=(s_f + s_t).real, ql_mvar=(s_f + s_t).imag)


# ----------------------------------------------------------------------------------------------------------- trafo
def _table_row(net, cid, step):
    tab = net.trafo_characteristic_table
    r = tab[(tab.id_characteristic == cid) & (tab.step == step)]
    if len(r) != 1:
        raise LookupError("trafo_characteristic_table row (%s, %s) not unique/found" % (cid, step))
    return r.iloc[0]


def tap_voltages(net, t, calc_angles=True):
    """tapped rated voltages (kV), total phase shift (deg) and the short-circuit voltages to use"""
    vnh, vnl = float(t.vn_hv_kv), float(t.vn_lv_kv)
    shift = float(t.shift_degree) if calc_angles else 0.
    vk, vkr = float(t.vk_percent), float(t.vkr_percent)
    tct = t.get("tap_changer_type", None)
    if tct is None or (isinstance(tct, float) and np.isnan(tct)) or pd.isna(t.tap_pos):
        return vnh, vnl, shift, vk, vkr
    side = t.tap_side
    direction = 1 if side == "hv" else -1
    if bool(t.get("tap_dependency_table", False)) and not pd.isna(t.get("id_characteristic_table", np.nan)):
        row = _table_row(net, int(t.id_characteristic_table), int(t.tap_pos))
        if side == "hv":
            vnh *= float(row.voltage_ratio)
        else:
            vnl *= float(row.voltage_ratio)
        if not pd.isna(row.angle_deg):
            shift += direction * float(row.angle_deg)
        if not pd.isna(row.vk_percent):
            vk = float(row.vk_percent)
        if not pd.isna(row.vkr_percent):
            vkr = float(row.vkr_percent)
        return vnh, vnl, shift, vk, vkr
    d = float(t.tap_pos) - float(t.tap_neutral)
    sp = 0. if pd.isna(t.tap_step_percent) else float(t.tap_step_percent)
    sd = 0. if pd.isna(t.tap_step_degree) else float(t.tap_step_degree)
    if tct == "Ideal":
        # phase shifts produced by the tap changer are kept also with calculate_voltage_angles=False (only the vector group
        # shift_degree is neglected then) - behaviour of the unchanged tree taken as the documented one
        if sd != 0:
            shift += direction * d * sd
        else:
            shift += direction * 2 * np.rad2deg(np.arcsin(d * sp / 100 / 2))
    elif tct in ("Ratio", "Symmetrical"):
        u1 = vnh if side == "hv" else vnl
        du = u1 * sp * d / 100 * np.exp(1j * np.deg2rad(sd))
        u = u1 + du
        if side == "hv":
            vnh = abs(u)
        else:
            vnl = abs(u)
        shift += np.rad2deg(np.arctan(direction * du.imag / (u1 + du.real)))
    return vnh, vnl, shift, vk, vkr


def trafo_Y(net, t, model="t", calc_angles=True):
    """2x2 nodal admittance matrix in S referred to (hv bus, lv bus) line-to-line kV"""
    vnh, vnl, shift, vk, vkr = tap_voltages(net, t, calc_angles)
    par = float(t.parallel)
    zk = vk / 100 * vnl ** 2 / t.sn_mva
    rk = vkr / 100 * vnl ** 2 / t.sn_mva
    xk = np.sign(zk) * np.sqrt(max(zk ** 2 - rk ** 2, 0.))
    Z = (rk + 1j * xk) / par
    ym_mva = t.i0_percent / 100 * t.sn_mva
    pfe = t.pfe_kw * 1e-3
    Ym = (pfe - 1j * np.sqrt(max(ym_mva ** 2 - pfe ** 2, 0))) / vnl ** 2 * par
    N = vnh / vnl * np.exp(1j * np.deg2rad(shift))
    if model == "pi" or Ym == 0:
        ys = 1 / Z
        Y = np.array([[ys + Ym / 2, -ys], [-ys, ys + Ym / 2]])
    else:
        rr = t.get("leakage_resistance_ratio_hv", 0.5)
        xr = t.get("leakage_reactance_ratio_hv", 0.5)
        rr = 0.5 if pd.isna(rr) else float(rr)
        xr = 0.5 if pd.isna(xr) else float(xr)
        za = Z.real * rr + 1j * Z.imag * xr
        zb = Z - za
        ya, yb = 1 / za, 1 / zb
        Y3 = np.array([[ya, 0, -ya], [0, yb, -yb], [-ya, -yb, ya + yb + Ym]])
        Y = Y3[:2, :2] - np.outer(Y3[:2, 2], Y3[2, :2]) / Y3[2, 2]     # Kron elimination of the star node
    return np.array([[Y[0, 0] / abs(N) ** 2, Y[0, 1] / np.conj(N)], [Y[1, 0] / N, Y[1, 1]]])


def trafo_model(net, i, model="t", calc_angles=True, loading="current"):
    t = net.trafo.loc[i]
    Y = trafo_Y(net, t, model, calc_angles)
    v = np.array([cvolt(net, t.hv_bus), cvolt(net, t.lv_bus)])
    I = Y @ v
    S = v * np.conj(I)
    ih, il = abs(I[0]) / SQ3, abs(I[1]) / SQ3
    if loading == "current":
        ld = max(ih * t.vn_hv_kv, il * t.vn_lv_kv) * SQ3 / t.sn_mva * 100.
    else:
        ld = max(abs(S[0]), abs(S[1])) / t.sn_mva * 100.
    ld = ld / t.parallel / t.df
    return dict(p_hv_mw=S[0].real, q_hv_mvar=S[0].imag, p_lv_mw=S[1].real, q_lv_mvar=S[1].imag, i_hv_ka=ih, i_lv_ka=il,
                loading_percent=ld, pl_mw=(S[0] + S[1]).real, ql_mvar=(S[0] + S[1]).imag)


# ----------------------------------------------------------------------------------------------------------- trafo3w
def _two_port(vnh, vnl, shift, vk, vkr, sn, pfe_kw, i0, model):
    """2x2 nodal admittance matrix (S) of one equivalent two-winding transformer; (vnh, vnl) already tapped"""
    zk = vk / 100 * vnl ** 2 / sn
    rk = vkr / 100 * vnl ** 2 / sn
    xk = np.sign(zk) * np.sqrt(max(zk ** 2 - rk ** 2, 0.))
    Z = rk + 1j * xk
    ym = i0 / 100 * sn
    pfe = pfe_kw * 1e-3
    Ym = (pfe - 1j * np.sqrt(max(ym ** 2 - pfe ** 2, 0))) / vnl ** 2
    N = vnh / vnl * np.exp(1j * np.deg2rad(shift))
    if model == "pi" or Ym == 0:
        ys = 1 / Z
        Y = np.array([[ys + Ym / 2, -ys], [-ys, ys + Ym / 2]])
    else:
        za = Z / 2
        ya = 1 / za
        Y3 = np.array([[ya, 0, -ya], [0, ya, -ya], [-ya, -ya, 2 * ya + Ym]])
        Y = Y3[:2, :2] - np.outer(Y3[:2, 2], Y3[2, :2]) / Y3[2, 2]
    return np.array([[Y[0, 0] / abs(N) ** 2, Y[0, 1] / np.conj(N)], [Y[1, 0] / N, Y[1, 1]]])


def _complex_tap(u1, d, sp, sd):
    du = u1 * sp * d / 100 * np.exp(1j * np.deg2rad(sd))
    return abs(u1 + du), du


def trafo3w_model(net, i, model="t", loss_side="hv"):
    """three two-winding equivalents in Y connection around the internal (star) bus, documented conversion of doc/elements/trafo3w.rst;
    the star bus voltage is taken from res_trafo3w.vm_internal_pu / va_internal_degree. Returns terminal powers/currents and the
    current balance at the star bus (must be ~0)."""
    t = net.trafo3w.loc[i]
    r = net.res_trafo3w.loc[i]
    sn = {"hv": t.sn_hv_mva, "mv": t.sn_mv_mva, "lv": t.sn_lv_mva}

    def star(a_hm, a_ml, a_lh):
        hm = a_hm * sn["hv"] / min(sn["hv"], sn["mv"])
        ml = a_ml * sn["hv"] / min(sn["mv"], sn["lv"])
        lh = a_lh * sn["hv"] / min(sn["hv"], sn["lv"])
        t1 = 0.5 * (hm + lh - ml)
        t2 = 0.5 * (ml + hm - lh) * sn["mv"] / sn["hv"]
        t3 = 0.5 * (ml + lh - hm) * sn["lv"] / sn["hv"]
        return {"hv": t1, "mv": t2, "lv": t3}
    # the delta -> star conversion is applied to the resistive and reactive parts separately (complex impedances); the
    # documentation shows it for the magnitudes only, which differs by O(1e-5) relative
    vkr = star(t.vkr_hv_percent, t.vkr_mv_percent, t.vkr_lv_percent)
    vkx = star(*[np.sqrt(max(a ** 2 - b ** 2, 0.)) for a, b in ((t.vk_hv_percent, t.vkr_hv_percent), (t.vk_mv_percent, t.vkr_mv_percent),
                                                                  (t.vk_lv_percent, t.vkr_lv_percent))])
    vk = {k: np.sign(vkx[k]) * np.hypot(vkx[k], vkr[k]) for k in vkx}
    vn = {"hv": float(t.vn_hv_kv), "mv": float(t.vn_mv_kv), "lv": float(t.vn_lv_kv)}
    shift = {"hv": 0., "mv": float(t.shift_mv_degree), "lv": float(t.shift_lv_degree)}
    # rated voltages of the three equivalents: (star side, terminal side); T1 is hv terminal -> star
    volt = {"hv": [vn["hv"], vn["hv"]], "mv": [vn["hv"], vn["mv"]], "lv": [vn["hv"], vn["lv"]]}   # [from, to]
    extra_shift = {"hv": 0., "mv": 0., "lv": 0.}
    tct = t.get("tap_changer_type", None)
    if not (tct is None or (isinstance(tct, float) and np.isnan(tct)) or pd.isna(t.tap_pos)) and tct in ("Ratio", "Symmetrical"):
        side = t.tap_side
        d = float(t.tap_pos) - float(t.tap_neutral)
        sp = 0. if pd.isna(t.tap_step_percent) else float(t.tap_step_percent)
        sd = 0. if pd.isna(t.tap_step_degree) else float(t.tap_step_degree)
        at_star = bool(t.tap_at_star_point)
        # index of the tapped winding inside `volt[side]`: hv terminal is the 'from' side of T1, mv/lv terminals the 'to' side
        term = 0 if side == "hv" else 1
        if not at_star:
            k, direction = term, (1 if term == 0 else -1)
        else:
            k, direction = 1 - term, (1 if (1 - term) == 0 else -1)
            tc = 100 * sp * np.exp(1j * np.deg2rad(sd)) / (100 + sp * np.exp(1j * np.deg2rad(sd)) * d)
            sp, sd = abs(tc), np.rad2deg(np.angle(tc)) - 180
        u1 = volt[side][k]
        newu, du = _complex_tap(u1, d, sp, sd)
        volt[side][k] = newu
        extra_shift[side] = np.rad2deg(np.arctan(direction * du.imag / (u1 + du.real)))
    vb = {s: cvolt(net, t[s + "_bus"]) for s in ("hv", "mv", "lv")}
    vstar = r.vm_internal_pu * net.bus.vn_kv.at[t.hv_bus] * np.exp(1j * np.deg2rad(r.va_internal_degree))
    out, istar = {}, 0j
    for s in ("hv", "mv", "lv"):
        pfe = float(t.pfe_kw) if loss_side == s else 0.
        i0 = float(t.i0_percent) if loss_side == s else 0.
        Y = _two_port(volt[s][0], volt[s][1], shift[s] + extra_shift[s], vk[s], vkr[s], sn[s], pfe, i0, model)
        v = np.array([vb["hv"], vstar]) if s == "hv" else np.array([vstar, vb[s]])
        I = Y @ v
        S = v * np.conj(I)
        kterm, kstar = (0, 1) if s == "hv" else (1, 0)
        out["p_%s_mw" % s] = S[kterm].real
        out["q_%s_mvar" % s] = S[kterm].imag
        out["i_%s_ka" % s] = abs(I[kterm]) / SQ3
        istar += I[kstar]
    out["star_current_balance_ka"] = abs(istar) / SQ3
    return out


# ----------------------------------------------------------------------------------------------------------- impedance
def impedance_model(net, i):
    """per-unit element on its own base sn_mva and the rated voltages of its buses"""
    e = net.impedance.loc[i]
    vf = net.res_bus.vm_pu.at[e.from_bus] * np.exp(1j * np.deg2rad(net.res_bus.va_degree.at[e.from_bus]))
    vt = net.res_bus.vm_pu.at[e.to_bus] * np.exp(1j * np.deg2rad(net.res_bus.va_degree.at[e.to_bus]))
    zft = e.rft_pu + 1j * e.xft_pu
    ztf = e.rtf_pu + 1j * e.xtf_pu

    def g(c):
        return 0. if c not in e or pd.isna(e[c]) else float(e[c])
    yf = g("gf_pu") + 1j * g("bf_pu")
    yt = g("gt_pu") + 1j * g("bt_pu")
    i_f = (vf - vt) / zft + yf * vf
    i_t = (vt - vf) / ztf + yt * vt
    s_f = vf * np.conj(i_f) * e.sn_mva
    s_t = vt * np.conj(i_t) * e.sn_mva
    ika_f = abs(i_f) * e.sn_mva / (SQ3 * net.bus.vn_kv.at[e.from_bus])
    ika_t = abs(i_t) * e.sn_mva / (SQ3 * net.bus.vn_kv.at[e.to_bus])
    return dict(p_from_mw=s_f.real, q_from_mvar=s_f.imag, p_to_mw=s_t.real, q_to_mvar=s_t.imag, i_from_ka=ika_f, i_to_ka=ika_t,
                pl_mw=(s_f + s_t).real, ql_mvar=(s_f + s_t).imag)


# ----------------------------------------------------------------------------------------------------------- z-switch
def zswitch_model(net, i, switch_rx_ratio=2.0):
    s = net.switch.loc[i]
    rx = switch_rx_ratio
    Z = s.z_ohm * (rx / np.sqrt(1 + rx ** 2) + 1j / np.sqrt(1 + rx ** 2))
    vf, vt = cvolt(net, s.bus), cvolt(net, s.element)
    i_f = (vf - vt) / Z
    s_f, s_t = vf * np.conj(i_f), vt * np.conj(-i_f)
    return dict(p_from_mw=s_f.real, q_from_mvar=s_f.imag, p_to_mw=s_t.real, q_to_mvar=s_t.imag, i_ka=abs(i_f) / SQ3)


# ----------------------------------------------------------------------------------------------------------- xward
def xward_model(net, i):
    """ps + pz*v^2 + flow into the internal branch r_ohm + j x_ohm towards the internal voltage source"""
    x = net.xward.loc[i]
    r = net.res_xward.loc[i]
    v = net.res_bus.vm_pu.at[x.bus]
    vb = cvolt(net, x.bus)
    vi = r.vm_internal_pu * net.bus.vn_kv.at[x.bus] * np.exp(1j * np.deg2rad(r.va_internal_degree))
    s_br = vb * np.conj((vb - vi) / (x.r_ohm + 1j * x.x_ohm))
    return dict(p_mw=x.ps_mw + x.pz_mw * v ** 2 + s_br.real, q_mvar=x.qs_mvar + x.qz_mvar * v ** 2 + s_br.imag)


# ----------------------------------------------------------------------------------------------------------- DC model
def dc_line_flow(net, i):
    l = net.line.loc[i]
    x = l.x_ohm_per_km * l.length_km / l.parallel
    th = np.deg2rad(net.res_bus.va_degree)
    vn = net.bus.vn_kv.at[l.from_bus]
    return (th.at[l.from_bus] - th.at[l.to_bus]) / x * vn ** 2


def dc_trafo_flow(net, i, calc_angles=True, model="t"):
    """p_hv of the B-model: (theta_hv - theta_lv - shift) / x with x = series reactance of the tapped transformer referred to the
    hv-side network voltage, divided by the off-nominal ratio"""
    t = net.trafo.loc[i]
    vnh, vnl, shift, vk, vkr = tap_voltages(net, t, calc_angles)
    zk = vk / 100 * vnl ** 2 / t.sn_mva
    rk = vkr / 100 * vnl ** 2 / t.sn_mva
    xk = np.sign(zk) * np.sqrt(max(zk ** 2 - rk ** 2, 0.)) / t.parallel
    th = np.deg2rad(net.res_bus.va_degree)
    # off-nominal ratio between the transformer and the network voltage levels
    ratio = (vnh / vnl) / (net.bus.vn_kv.at[t.hv_bus] / net.bus.vn_kv.at[t.lv_bus])
    b = 1.0 / (xk / net.bus.vn_kv.at[t.lv_bus] ** 2) / ratio
    return (th.at[t.hv_bus] - th.at[t.lv_bus] - np.deg2rad(shift)) * b
