"""Referential-integrity oracles for pandapower nets (C22). Plain pandas / python, no pandapower code involved.

dangling(net)  -> list of reference records whose target row does not exist.
relations(net) -> dict key -> (raw, ident): for every reference whose referrer carries a unique id (column / attribute
                  "pv_uid" planted by pv.gen.richnet) the stored raw value and the identity (uid) of the row it points to
                  (None = dangling, "new" = target row without uid, "ambiguous" = duplicated target index).

record = dict(kind, table, row, col, target_table, target, rkey); kind is one of
  bus, bus_dc, switch_element, measurement_element, measurement_side, cost_element, group_member, controller_target,
  controller_characteristic, characteristic_table, res_index;  rkey = key of the same reference in relations() (or None).
"""
import numpy as np
import pandas as pd

UID = "pv_uid"
BUS_COLS = ("bus", "from_bus", "to_bus", "hv_bus", "mv_bus", "lv_bus")
DC_COLS = ("bus_dc", "from_bus_dc", "to_bus_dc", "bus_dc_plus", "bus_dc_minus")
SWITCH_TABLE = {"b": "bus", "l": "line", "t": "trafo", "t3": "trafo3w"}
CHAR_TABLES = (("trafo", "id_characteristic_table", "trafo_characteristic_table", "tap_dependency_table", "voltage_ratio"),
               ("trafo3w", "id_characteristic_table", "trafo_characteristic_table", "tap_dependency_table", "voltage_ratio"),
               ("shunt", "id_characteristic_table", "shunt_characteristic_table", "step_dependency_table", "q_mvar"))
SKIP = ("group", "controller", "characteristic")


def has(net, table):
    return isinstance(table, str) and table in net and isinstance(net[table], pd.DataFrame)


def _isnum(x):
    return isinstance(x, (int, float, np.integer, np.floating)) and not isinstance(x, (bool, np.bool_)) and not pd.isna(x)


def _py(x):
    return x.item() if isinstance(x, np.generic) else x


def _isnull(x):
    return x is None or (isinstance(x, float) and np.isnan(x)) or x is pd.NA


def controller_refs(obj):
    """[(attribute name, element table, [indices])] of a controller object (duck-typed on its attributes); references to a
    result table res_x are references to the rows of x"""
    d = getattr(obj, "__dict__", {})
    out = []
    for et_attr, ix_attr in (("element", "element_index"), ("input_element", "input_element_index"),
                             ("output_element", "output_element_index")):
        et, ix = d.get(et_attr), d.get(ix_attr)
        if isinstance(et, str) and ix is not None:
            ixs = [_py(i) for i in np.atleast_1d(np.asarray(ix, dtype=object)).tolist() if _isnum(i)]
            out.append((ix_attr, et[4:] if et.startswith("res_") else et, ixs))
    return out


def _members(m):
    return list(m) if hasattr(m, "__iter__") and not isinstance(m, str) else [m]


def _used_char_ids(df, col, flag):
    used = df[col].notna().values
    if flag in df.columns:
        used = used & df[flag].fillna(False).astype(bool).values
    return used


def _walk(net):
    """yields (kind, table, row position, row label, col, target_table, raw target value, referrer key part)"""
    for k in list(net.keys()):
        df = net[k]
        if not isinstance(df, pd.DataFrame) or k.startswith("_") or k.startswith("res_") or k in SKIP or not len(df):
            continue
        if k not in ("bus", "bus_dc"):
            for cols, tt, kind in ((BUS_COLS, "bus", "bus"), (DC_COLS, "bus_dc", "bus_dc")):
                for c in cols:
                    if c in df.columns:
                        for pos, v in enumerate(df[c].values):
                            yield kind, k, pos, c, tt, _py(v)
    sw = net.switch
    for pos, (et, el) in enumerate(zip(sw.et.values, sw.element.values)):
        yield "switch_element", "switch", pos, "element:%s" % et, SWITCH_TABLE.get(et), _py(el)
    ms = net.measurement
    for pos, (et, el, side) in enumerate(zip(ms.element_type.values, ms.element.values, ms.side.values)):
        yield "measurement_element", "measurement", pos, "element:%s" % et, et, _py(el)
        if _isnum(side):
            yield "measurement_side", "measurement", pos, "side", "bus", _py(side)
    for ct in ("poly_cost", "pwl_cost"):
        c = net[ct]
        for pos, (et, el) in enumerate(zip(c.et.values, c.element.values)):
            yield "cost_element", ct, pos, "element:%s" % et, et, _py(el)
    for el, col, tab, flag, _ in CHAR_TABLES:
        if has(net, el) and col in net[el].columns and len(net[el]):
            used = _used_char_ids(net[el], col, flag)
            for pos in np.flatnonzero(used):
                yield "characteristic_table", el, int(pos), col, tab, _py(net[el][col].values[pos])


def _uid_at(net, table, pos):
    df = net[table]
    if UID in df.columns:
        u = df[UID].values[pos]
        return u if isinstance(u, str) else None
    return None


def _rkey(kind, table, uid, col):
    if uid is None:
        return None
    if kind in ("bus", "bus_dc"):
        return ("bus", table, uid, col)
    if kind in ("cost_element", "characteristic_table"):
        return (kind, table, uid)
    return (kind, uid)


class _Targets:
    def __init__(self, net):
        self.net, self.idx, self.um, self.ids = net, {}, {}, {}

    def exists(self, table, v):
        if table in ("trafo_characteristic_table", "shunt_characteristic_table"):
            if table not in self.ids:
                self.ids[table] = set(self.net[table].id_characteristic.dropna().values) if has(self.net, table) else set()
            return v in self.ids[table]
        if table not in self.idx:
            self.idx[table] = set(self.net[table].index) if has(self.net, table) else None
        return self.idx[table] is not None and not _isnull(v) and v in self.idx[table]

    def uid(self, table, v):
        if table not in self.um:
            m = {}
            if has(self.net, table):
                df = self.net[table]
                vals = df[UID].values if UID in df.columns else [None] * len(df)
                for i, u in zip(df.index, vals):
                    m[i] = "ambiguous" if i in m else (u if isinstance(u, str) else "new")
            self.um[table] = m
        return None if _isnull(v) else self.um[table].get(v)


def dangling(net):
    out = []
    T = _Targets(net)

    def rec(kind, table, row, col, tt, target, rkey):
        out.append(dict(kind=kind, table=table, row=_py(row), col=col, target_table=tt, target=target, rkey=rkey))

    for kind, table, pos, col, tt, v in _walk(net):
        if not T.exists(tt, v):
            rec(kind, table, net[table].index[pos], col, tt, v, _rkey(kind, table, _uid_at(net, table, pos), col))
    gr = net.group
    for pos in range(len(gr)):
        gi, name, et, rc = gr.index[pos], gr.name.iat[pos], gr.element_type.iat[pos], gr.reference_column.iat[pos]
        col = "%s%s" % (et, "" if _isnull(rc) else "[%s]" % rc)
        if not has(net, et):
            rec("group_member", "group", gi, col, et, None, ("group_member", name, et))
            continue
        have = set(net[et].index) if _isnull(rc) else (set(net[et][rc].values) if rc in net[et].columns else set())
        for m in _members(gr.element_index.iat[pos]):
            if m not in have:
                rec("group_member", "group", gi, col, et, _py(m), ("group_member", name, et))
    if has(net, "controller"):
        for ci, obj in zip(net.controller.index, net.controller.object.values):
            u = getattr(obj, UID, None)
            for attr, et, ixs in controller_refs(obj):
                for i in ixs:
                    if not T.exists(et, i):
                        rec("controller_target", "controller", ci, attr, et, i, ("controller_target", u, attr) if u else None)
            chi = getattr(obj, "characteristic_index", None)
            if _isnum(chi) and not T.exists("characteristic", chi):
                rec("controller_characteristic", "controller", ci, "characteristic_index", "characteristic", _py(chi),
                    ("controller_characteristic", u) if u else None)
    for k in list(net.keys()):
        if k.startswith("res_") and isinstance(net[k], pd.DataFrame) and len(net[k]) and has(net, k[4:]):
            for i in net[k].index.difference(net[k[4:]].index):
                rec("res_index", k, i, "index", k[4:], _py(i), None)
    return out


def relations(net):
    rel = {}
    T = _Targets(net)
    chars = {}
    for kind, table, pos, col, tt, v in _walk(net):
        key = _rkey(kind, table, _uid_at(net, table, pos), col)
        if key is None:
            continue
        if kind == "characteristic_table":
            valcol = [c[4] for c in CHAR_TABLES if c[0] == table][0]
            if has(net, tt):
                t = net[tt]
                rows = t[(t.id_characteristic == v).fillna(False).values]
                ident = frozenset((float(s), round(float(x), 12)) for s, x in zip(rows.step.values, rows[valcol].values)) or None
            else:
                ident = None
            rel[key] = (v, ident)
        else:
            rel[key] = ((col.split(":")[-1], v) if ":" in col else v, T.uid(tt, v) if has(net, tt) else None)
    gr = net.group
    for pos in range(len(gr)):
        name, et, rc = gr.name.iat[pos], gr.element_type.iat[pos], gr.reference_column.iat[pos]
        members = _members(gr.element_index.iat[pos])
        if _isnull(rc):
            ident = frozenset(T.uid(et, m) for m in members)
        elif rc == UID:
            have = set(net[et][UID].values) if has(net, et) and UID in net[et].columns else set()
            ident = frozenset(m if m in have else None for m in members)
        else:
            continue
        rel[("group_member", name, et)] = ((None if _isnull(rc) else rc, tuple(_py(m) for m in members)), ident)
    if has(net, "controller"):
        if has(net, "characteristic"):
            chars = {i: getattr(o, UID, "new") for i, o in zip(net.characteristic.index, net.characteristic.object.values)}
        for obj in net.controller.object.values:
            u = getattr(obj, UID, None)
            if u is None:
                continue
            for attr, et, ixs in controller_refs(obj):
                rel[("controller_target", u, attr)] = ((et, tuple(ixs)), (et, frozenset(T.uid(et, i) for i in ixs)))
            chi = getattr(obj, "characteristic_index", None)
            if _isnum(chi):
                rel[("controller_characteristic", u)] = (_py(chi), chars.get(chi))
    return rel
