"""Independent energization model: plain union-find over the element tables (no pandapower.topology, no _ppc)."""
import numpy as np


class UF:
    def __init__(self, items):
        self.p = {i: i for i in items}

    def find(self, x):
        p = self.p
        while p[x] != x:
            p[x] = p[p[x]]
            x = p[x]
        return x

    def union(self, a, b):
        ra, rb = self.find(a), self.find(b)
        if ra != rb:
            self.p[ra] = rb


def open_switch_sets(net):
    """dict et -> set of (element, bus) pairs that are disconnected by an open switch"""
    out = {"l": set(), "t": set(), "t3": set()}
    sw = net.switch
    if len(sw):
        op = ~sw.closed.values.astype(bool)
        for et, el, b in zip(sw.et.values[op], sw.element.values[op], sw.bus.values[op]):
            if et in out:
                out[et].add((int(el), int(b)))
    return out


def energized_components(net):
    """returns (uf, in_service_buses). Buses are joined by in-service branches whose terminals are not opened by a switch and
    whose terminal buses are in service; closed bus-bus switches (any impedance) join in-service buses; dclines do not join."""
    bus_is = net.bus.in_service.values.astype(bool)
    isb = set(net.bus.index[bus_is])
    nodes = list(isb)
    uf = UF(nodes)
    osw = open_switch_sets(net)
    for i, r in zip(net.line.index, net.line[["from_bus", "to_bus", "in_service"]].values):
        f, t, s = int(r[0]), int(r[1]), bool(r[2])
        if s and f in isb and t in isb and (i, f) not in osw["l"] and (i, t) not in osw["l"]:
            uf.union(f, t)
    if len(net.impedance):
        for f, t, s in net.impedance[["from_bus", "to_bus", "in_service"]].values:
            if s and int(f) in isb and int(t) in isb:
                uf.union(int(f), int(t))
    for el in ("tcsc",):
        if el in net and len(net[el]):
            for f, t, s in net[el][["from_bus", "to_bus", "in_service"]].values:
                if s and int(f) in isb and int(t) in isb:
                    uf.union(int(f), int(t))
    for i, r in zip(net.trafo.index, net.trafo[["hv_bus", "lv_bus", "in_service"]].values):
        h, l, s = int(r[0]), int(r[1]), bool(r[2])
        if s and h in isb and l in isb and (i, h) not in osw["t"] and (i, l) not in osw["t"]:
            uf.union(h, l)
    for i, r in zip(net.trafo3w.index, net.trafo3w[["hv_bus", "mv_bus", "lv_bus", "in_service"]].values):
        if not bool(r[3]):
            continue
        legs = [int(b) for b in r[:3] if int(b) in isb and (i, int(b)) not in osw["t3"]]
        for a, b in zip(legs, legs[1:]):
            uf.union(a, b)
    sw = net.switch
    if len(sw):
        sel = (sw.et.values == "b") & sw.closed.values.astype(bool)
        for a, b in zip(sw.bus.values[sel], sw.element.values[sel]):
            if int(a) in isb and int(b) in isb:
                uf.union(int(a), int(b))
    return uf, isb


def slack_buses(net):
    s = set(int(b) for b in net.ext_grid.bus[net.ext_grid.in_service.values.astype(bool)].values)
    if len(net.gen):
        s |= set(int(b) for b in net.gen.bus[(net.gen.in_service & net.gen.slack).values.astype(bool)].values)
    return s


def supplied_buses(net):
    """set of in-service buses connected to an in-service slack at an in-service bus"""
    uf, isb = energized_components(net)
    roots = {uf.find(b) for b in slack_buses(net) if b in isb}
    return {b for b in isb if uf.find(b) in roots}, isb
