"""Independent IEC 60909 reference: Thevenin impedances of the positive-sequence short-circuit network in ohms.

Built from the element tables and the documented short-circuit models only (doc/shortcircuit/*.rst, IEC 60909-0:2016):
no ppc, no lookups, no per-unit system.  Every node carries its physical voltage level; transformers are ideal ratios
(rated voltages, tap changers ignored) with a series impedance on the low-voltage side.

    ext_grid  Z = c * Un^2 / S''k,  X = Z / sqrt(1 + (R/X)^2),  R = (R/X) * X          (c, S''k, R/X of the case)
    line      R = r * l / parallel * (1 + 0.004 * (endtemp - 20)) for case "min",  X = x * l / parallel
    trafo     Z_lv = (vkr + j sqrt(vk^2 - vkr^2)) / 100 * vn_lv^2 / sn * K_T / parallel,
              K_T = 0.95 * cmax(lv bus) / (1 + 0.6 * x_T)
    trafo3w   pairwise impedances (related to min(sn) of the pair, corrected with K_T(cmax = 1.1) before the delta-star
              conversion) -> star of three impedances around an internal node, ideal ratios vn_hv/vn_mv, vn_hv/vn_lv
    gen       Z = K_G * (R''d + j x''d * UrG^2 / SrG),  K_G = Un / (UrG * (1 + pG)) * cmax / (1 + x''d * sin(phi))
    impedance Z = (rft + j xft) * Un^2 / sn   (symmetric elements only)
    loads, shunts, sgens (current sources), storages: no impedance
"""
import numpy as np


def c_factor(vn_kv, case, lv_tol_percent=10):
    if case == "max":
        return (1.05 if lv_tol_percent == 6 else 1.10) if vn_kv < 1. else 1.10
    return 0.95 if vn_kv < 1. else 1.00


class Model:
    """nodal admittance matrix in siemens over 'nodes' (fused bus groups + trafo3w star points)"""

    def __init__(self, net, case="max", lv_tol_percent=10, peak=False, f_scale=1.0, kg_last_per_bus=False):
        """peak=True: generator resistance replaced by the fictitious R_Gf (for kappa); f_scale: factor on all reactances
        (equivalent frequency method: fc / f); kg_last_per_bus=True is the *defect model* of finding kg_shared_per_bus: every
        generator of a bus gets the correction factor K_G of the last in-service generator row at that bus"""
        self.net, self.case, self.tol, self.peak, self.fs = net, case, lv_tol_percent, peak, f_scale
        self.kg_last = kg_last_per_bus
        self._nodes()
        n = len(self.names)
        self.Y = np.zeros((n, n), dtype=complex)
        self.sources = np.zeros(n, dtype=bool)
        self._branches()
        self._sources()
        self._islands()

    # -- topology ------------------------------------------------------------------------------------------------------
    def _nodes(self):
        net = self.net
        parent = {int(b): int(b) for b in net.bus.index[net.bus.in_service.values]}

        def find(x):
            while parent[x] != x:
                parent[x] = parent[parent[x]]
                x = parent[x]
            return x
        sw = net.switch
        if len(sw):
            for s in sw[(sw.et == "b") & sw.closed].itertuples():
                a, b = int(s.bus), int(s.element)
                if a in parent and b in parent:
                    parent[find(a)] = find(b)
        roots = sorted({find(b) for b in parent})
        self.names = [("b", r) for r in roots]
        pos = {r: i for i, r in enumerate(roots)}
        self.node_of_bus = {b: pos[find(b)] for b in parent}
        self.open = set()
        if len(sw):
            self.open = {(s.et, int(s.element), int(s.bus)) for s in sw[~sw.closed & (sw.et != "b")].itertuples()}

    def _new_node(self, name):
        self.names.append(name)
        n = len(self.names)
        Y = np.zeros((n, n), dtype=complex)
        Y[:n - 1, :n - 1] = self.Y
        self.Y = Y
        self.sources = np.append(self.sources, False)
        return n - 1

    def _z(self, r, x):
        return complex(r, x * self.fs)

    def _stamp(self, a, b, z, t=1.0):
        """series impedance z (ohm, on the side of node b) behind an ideal transformer a : b with ratio t = Ua/Ub"""
        y = 1. / z
        self.Y[b, b] += y
        self.Y[a, a] += y / t ** 2
        self.Y[a, b] -= y / t
        self.Y[b, a] -= y / t

    def _kt(self, vk, vkr, cmax):
        xt = np.sqrt(vk ** 2 - vkr ** 2) / 100.
        return 0.95 * cmax / (1 + 0.6 * xt)

    def _branches(self):
        net, nb = self.net, self.node_of_bus
        for li, r in net.line[net.line.in_service.values].iterrows():
            f, t = int(r.from_bus), int(r.to_bus)
            if f not in nb or t not in nb or ("l", li, f) in self.open or ("l", li, t) in self.open:
                continue
            kl = 1 + 0.004 * (float(r.endtemp_degree) - 20.) if self.case == "min" else 1.
            z = self._z(r.r_ohm_per_km * r.length_km / r.parallel * kl, r.x_ohm_per_km * r.length_km / r.parallel)
            self._stamp(nb[f], nb[t], z)
        for ti, r in net.trafo[net.trafo.in_service.values].iterrows():
            h, l = int(r.hv_bus), int(r.lv_bus)
            if h not in nb or l not in nb or ("t", ti, h) in self.open or ("t", ti, l) in self.open:
                continue
            cmax = c_factor(float(net.bus.vn_kv.at[l]), "max", self.tol)
            kt = self._kt(r.vk_percent, r.vkr_percent, cmax)
            zb = r.vn_lv_kv ** 2 / r.sn_mva / 100. * kt / r.parallel
            z = self._z(r.vkr_percent * zb, np.sqrt(r.vk_percent ** 2 - r.vkr_percent ** 2) * zb)
            self._stamp(nb[h], nb[l], z, t=r.vn_hv_kv / r.vn_lv_kv)
        for ti, r in net.trafo3w[net.trafo3w.in_service.values].iterrows():
            sn = {"hm": min(r.sn_hv_mva, r.sn_mv_mva), "ml": min(r.sn_mv_mva, r.sn_lv_mva), "lh": min(r.sn_hv_mva, r.sn_lv_mva)}
            vk = {"hm": (r.vk_hv_percent, r.vkr_hv_percent), "ml": (r.vk_mv_percent, r.vkr_mv_percent),
                  "lh": (r.vk_lv_percent, r.vkr_lv_percent)}
            zp = {}
            for k in sn:      # pair impedances in ohm referred to the hv side, corrected
                kt = self._kt(vk[k][0], vk[k][1], 1.1)
                zb = r.vn_hv_kv ** 2 / sn[k] / 100. * kt
                zp[k] = complex(vk[k][1] * zb, np.sqrt(vk[k][0] ** 2 - vk[k][1] ** 2) * zb)
            zs = {"hv": .5 * (zp["hm"] + zp["lh"] - zp["ml"]), "mv": .5 * (zp["ml"] + zp["hm"] - zp["lh"]),
                  "lv": .5 * (zp["ml"] + zp["lh"] - zp["hm"])}
            star = None
            for side in ("hv", "mv", "lv"):
                b = int(r[side + "_bus"])
                if b not in nb or ("t3", ti, b) in self.open:
                    continue
                if star is None:
                    star = self._new_node(("star", ti))
                t = r.vn_hv_kv / r["vn_%s_kv" % side]       # star node lives on the hv voltage level
                z = self._z(zs[side].real, zs[side].imag) / t ** 2      # referred to the side of the terminal bus
                self._stamp(star, nb[b], z, t=t)
        if len(net.impedance):
            for ii, r in net.impedance[net.impedance.in_service.values].iterrows():
                f, t = int(r.from_bus), int(r.to_bus)
                if f not in nb or t not in nb:
                    continue
                zb = float(net.bus.vn_kv.at[f]) ** 2 / r.sn_mva
                self._stamp(nb[f], nb[t], self._z(r.rft_pu * zb, r.xft_pu * zb))

    def _sources(self):
        net, nb, case = self.net, self.node_of_bus, self.case
        for _, r in net.ext_grid[net.ext_grid.in_service.values].iterrows():
            b = int(r.bus)
            if b not in nb:
                continue
            un = float(net.bus.vn_kv.at[b])
            z = c_factor(un, case, self.tol) * un ** 2 / r["s_sc_%s_mva" % case]
            rx = r["rx_%s" % case]
            x = z / np.sqrt(1 + rx ** 2)
            self.Y[nb[b], nb[b]] += 1. / self._z(rx * x, x)
            self.sources[nb[b]] = True
        self.gen_nodes = set()
        gens = net.gen[net.gen.in_service.values]
        last = {nb[int(r.bus)]: r for _, r in gens.iterrows() if int(r.bus) in nb}      # per electrical node
        for _, r in gens.iterrows():
            b = int(r.bus)
            if b not in nb:
                continue
            un = float(net.bus.vn_kv.at[b])
            pg = 0. if not np.isfinite(r.get("pg_percent", np.nan)) else r.pg_percent / 100.
            sinphi = np.sqrt(max(0., 1 - r.cos_phi ** 2))
            kg = un / (r.vn_kv * (1 + pg)) * c_factor(un, "max", self.tol) / (1 + r.xdss_pu * sinphi)
            if self.kg_last:
                q = last[nb[b]]
                pgq = 0. if not np.isfinite(q.get("pg_percent", np.nan)) else q.pg_percent / 100.
                kg = un / (q.vn_kv * (1 + pgq)) * c_factor(un, "max", self.tol) / (1 + q.xdss_pu * np.sqrt(max(0., 1 - q.cos_phi ** 2)))
            x = r.xdss_pu * r.vn_kv ** 2 / r.sn_mva
            rr = r.rdss_ohm
            if self.peak:
                rr = (0.15 if r.vn_kv <= 1. else 0.07 if r.sn_mva < 100 else 0.05) * x
            self.Y[nb[b], nb[b]] += 1. / (kg * self._z(rr, x))
            self.gen_nodes.add(nb[b])
            self.sources[nb[b]] = True      # a generator alone also feeds a fault in its island

    def _islands(self):
        """nodes connected (through branches) to an external grid or a generator: only those are calculated"""
        n = len(self.names)
        adj = (np.abs(self.Y) > 0)
        seen = np.zeros(n, dtype=bool)
        stack = list(np.flatnonzero(self.sources))
        seen[stack] = True
        while stack:
            u = stack.pop()
            for v in np.flatnonzero(adj[u] & ~seen):
                seen[v] = True
                stack.append(v)
        self.live = seen

    # -- results -------------------------------------------------------------------------------------------------------
    def zbus(self):
        idx = np.flatnonzero(self.live)
        Z = np.full(self.Y.shape, np.nan, dtype=complex)
        if len(idx):
            Z[np.ix_(idx, idx)] = np.linalg.inv(self.Y[np.ix_(idx, idx)])
        return Z

    def thevenin(self):
        """dict bus -> Z_kk (ohm, complex) for every bus supplied by a voltage source"""
        Z = self.zbus()
        return {b: Z[n, n] for b, n in self.node_of_bus.items() if self.live[n]}
