"""Helper process of the C30 monitor:  python -m pv.oracles.diag_proc <job.json> <out.json>

The process imports pandapower once and never touches the diagnostic API itself ("zygote").  Every expectation job and the
history are executed in their own os.fork() child, so each of them starts from the pristine module state:

  job      {"key", "net", "default", "funcs": [[kind, argument_names, name], ...], "kwargs", "report_style", "warnings_only"}
           -> result of  d = Diagnostic(default); register funcs; d.diagnose_network(net, report_style, warnings_only, **kwargs)
  history  list of ops executed in ONE child: ["new", inst, default] / ["register", inst, kind, argument_names, name] /
           ["diagnose", inst, net, kwargs, report_style, warnings_only]
"""
import json
import os
import signal
import sys
import traceback


def canon(o, depth=0):
    """JSON-able canonical form of a diagnostic result"""
    import numpy as np
    import pandas as pd
    if depth > 12:
        return "<deep>"
    if isinstance(o, dict):
        return {"__dict__": sorted(([repr(k) if not isinstance(k, str) else k, canon(v, depth + 1)] for k, v in o.items()),
                                   key=lambda kv: str(kv[0]))}
    if isinstance(o, (list, tuple)):
        return [canon(v, depth + 1) for v in o]
    if isinstance(o, (set, frozenset)):
        return {"__set__": sorted((canon(v, depth + 1) for v in o), key=repr)}
    if isinstance(o, (bool, np.bool_)):
        return bool(o)
    if isinstance(o, (int, np.integer)):
        return int(o)
    if isinstance(o, (float, np.floating)):
        return None if o != o else float("%.10g" % float(o))
    if isinstance(o, np.ndarray):
        return canon(o.tolist(), depth + 1)
    if isinstance(o, (pd.Series, pd.Index)):
        return canon(list(o), depth + 1)
    if isinstance(o, pd.DataFrame):
        return canon(o.to_dict(orient="list"), depth + 1)
    if isinstance(o, BaseException):
        return {"__exc__": type(o).__name__, "msg": str(o)[:200]}
    if o is None or isinstance(o, str):
        return o
    return "<%s>" % type(o).__name__


def _probes():
    from pandapower.diagnostic.diagnostic_helpers import DiagnosticFunction

    class EchoKwargs(DiagnosticFunction):
        """reports the keyword arguments it was called with (makes the argument flow observable)"""

        def diagnostic(self, net, **kwargs):
            return {"n_bus": len(net.bus), "kwargs": sorted((k, repr(v)) for k, v in kwargs.items())}

        def report(self, error, results):
            return None

    class CountOpenSwitches(DiagnosticFunction):
        def diagnostic(self, net, **kwargs):
            n = int((~net.switch.closed).sum())
            return {"open": n} if n else None

        def report(self, error, results):
            return None
    return {"echo": EchoKwargs, "open_switches": CountOpenSwitches}


def _quiet():
    import logging
    import warnings
    import numpy as np
    warnings.filterwarnings("ignore")
    logging.disable(logging.CRITICAL)
    np.seterr(all="ignore")


def _load_nets(spec):
    from pandapower.file_io import from_json_string
    return {k: from_json_string(v) for k, v in spec.items()}


def _state(d):
    return {"kwargs": canon(dict(d.kwargs)), "functions": [f[0] for f in d._functions]}


def _diagnose(d, net, kwargs, report_style, warnings_only):
    import copy
    from pv.probe import snapshot
    net = copy.deepcopy(net)   # every call sees the original network, also after a call that failed to restore it
    snap = snapshot.snapshot(net)
    try:
        res = d.diagnose_network(net, report_style=report_style, warnings_only=warnings_only, **kwargs)
        out = {"result": canon(res), "errors": canon({k: v for k, v in d.diag_errors.items()})}
    except Exception as e:  # noqa
        out = {"raised": canon(e)}
    out["net_diff"] = [x for x in snapshot.diff(snap, net) if not x.startswith(("converged", "OPF_converged"))]
    return out


def run_job(job, nets):
    from pandapower.diagnostic import Diagnostic
    P = _probes()
    d = Diagnostic(add_default_functions=job["default"])
    out = {"fresh_state": _state(d)}
    for kind, argn, name in job["funcs"]:
        d.register_function(P[kind](), argn, name)
    out.update(_diagnose(d, nets[job["net"]], job["kwargs"], job["report_style"], job["warnings_only"]))
    return out


def run_history(ops, nets):
    from pandapower.diagnostic import Diagnostic
    P = _probes()
    inst, obs = {}, []
    for op in ops:
        if op[0] == "new":
            inst[op[1]] = Diagnostic(add_default_functions=op[2])
            obs.append(_state(inst[op[1]]))
        elif op[0] == "register":
            inst[op[1]].register_function(P[op[2]](), op[3], op[4])
            obs.append({})
        elif op[0] == "diagnose":
            o = _diagnose(inst[op[1]], nets[op[2]], op[3], op[4], op[5])
            o["state_after"] = _state(inst[op[1]])
            obs.append(o)
    return obs


def in_child(fn, path, timeout=240):
    """run fn() in a forked child, its JSON result goes to `path`"""
    pid = os.fork()
    if pid == 0:
        code = 0
        try:
            signal.alarm(timeout)
            res = {"ok": fn()}
        except BaseException:  # noqa
            res = {"crash": traceback.format_exc()[-2000:]}
            code = 1
        try:
            with open(path, "w") as f:
                json.dump(res, f)
        finally:
            os._exit(code)
    _, status = os.waitpid(pid, 0)
    if os.path.exists(path):
        with open(path) as f:
            return json.load(f)
    return {"crash": "child died with status %d" % status}


def main(argv):
    jobfile, outfile = argv
    with open(jobfile) as f:
        spec = json.load(f)
    _quiet()
    import pandapower  # noqa
    import pandapower.diagnostic  # noqa - imported, never used in this process
    import pv.probe.snapshot  # noqa
    nets = _load_nets(spec["nets"])
    # compile / load the numba power flow kernels once for the shapes of these nets; the children inherit them
    # (plain power flows only - the diagnostic API stays untouched in this process)
    import copy
    for n in nets.values():
        for kw in ({}, {"calculate_voltage_angles": False}):
            try:
                pandapower.runpp(copy.deepcopy(n), **kw)
            except Exception:  # noqa
                pass
    out = {"expect": {}, "history": None}
    tmp = outfile + ".part"
    for job in spec["jobs"]:
        out["expect"][job["key"]] = in_child(lambda: run_job(job, nets), tmp)
        if os.path.exists(tmp):
            os.remove(tmp)
    out["history"] = in_child(lambda: run_history(spec["history"], nets), tmp, timeout=480)
    if os.path.exists(tmp):
        os.remove(tmp)
    with open(outfile, "w") as f:
        json.dump(out, f)
    return 0


if __name__ == "__main__":
    sys.exit(main(sys.argv[1:]))
