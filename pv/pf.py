"""Helpers to run pandapower calculations and classify the outcome."""
import pandapower as pp
from pandapower.auxiliary import LoadflowNotConverged


def try_run(fn, net, **kw):
    """returns (status, exception). status in ok / notconv / refused:<Type> / error:<Type>"""
    try:
        fn(net, **kw)
    except LoadflowNotConverged as e:
        return "notconv", e
    except NotImplementedError as e:
        return "refused:NotImplementedError", e
    except Exception as e:  # noqa
        return "error:" + type(e).__name__, e
    if "converged" in net and not net.converged and fn in (pp.runpp, pp.rundcpp):
        return "notconv", None
    return "ok", None


def rnd_pf_options(g, net, allow_alg=True, allow_ds=True, allow_qlim=True):
    """random option vector for runpp; g is a netgen.G"""
    o = {}
    if g.B(0.5):
        o["trafo_model"] = g.C(["t", "pi"])
    if g.B(0.6):
        o["calculate_voltage_angles"] = g.B(0.6)
    if g.B(0.8):
        o["voltage_depend_loads"] = g.B(0.8)
    if allow_qlim and g.B(0.3):
        o["enforce_q_lims"] = True
    if g.B(0.25):
        o["numba"] = False
    if g.B(0.3):
        o["trafo_loading"] = g.C(["current", "power"])
    if g.B(0.2):
        o["init"] = g.C(["flat", "dc"])
    if allow_alg and g.B(0.25):
        o["algorithm"] = g.C(["iwamoto_nr", "iwamoto_nr", "gs", "fdbx", "fdxb"])
        if o["algorithm"] in ("gs",):
            o["max_iteration"] = 10000
        if o["algorithm"] in ("fdbx", "fdxb"):
            o["max_iteration"] = 200
    if allow_ds and g.B(0.15) and "algorithm" not in o and not o.get("enforce_q_lims"):
        o["distributed_slack"] = True
    if g.B(0.15):
        o["switch_rx_ratio"] = g.R(0.5, 5)
    return o
