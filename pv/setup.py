"""MANIFEST.setup_cmd: offline set-up (installs icontract/deal from the wheelhouse into .deps, creates work dirs)."""
import os
import sys

from . import common, check


def main():
    for d in (common.WORK, common.EVIDENCE, common.REPLAYS):
        os.makedirs(d, exist_ok=True)
    check.ensure_deps()
    common.setup_paths()
    import pandapower  # noqa: F401  (fails loudly if /repo is not importable)
    print("pv setup ok; pandapower", pandapower.__version__, "from", os.path.dirname(pandapower.__file__))
    return 0


if __name__ == "__main__":
    sys.exit(main())
