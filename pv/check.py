"""CLI of the runtime monitors.

    /venv/bin/python -m pv.check C01 --tier quick
    /venv/bin/python -m pv.check C01 --replay replays/C01/<file>.json

Exit 0: property held on everything observed and every coverage floor was met (KNOWN-FINDING lines may be printed).
Exit 1: a violation not listed in known_findings.json was observed (VIOLATION lines).
Exit 3: inconclusive (shard crashed/timed out, harness error, coverage floor not met).
"""
import argparse
import collections
import importlib
import json
import os
import shutil
import subprocess
import sys
import time

from . import common


def load_known():
    p = os.path.join(common.VERIF, "known_findings.json")
    if not os.path.exists(p):
        return []
    with open(p) as f:
        return json.load(f)["findings"]


def ensure_deps():
    """icontract/deal live in .deps (git-ignored); install from the offline wheelhouse when missing."""
    if os.path.isdir(os.path.join(common.DEPS, "icontract")):
        return
    subprocess.run([common.PY, "-m", "pip", "install", "-q", "--no-index", "--find-links", "/opt/veriftools/wheels",
                    "--target", common.DEPS, "icontract", "deal"], stdout=subprocess.DEVNULL, stderr=subprocess.DEVNULL)


def run_shards(prop, tier, mod, ncases, nshards, budget, shard_timeout):
    wd = os.path.join(common.WORK, prop, tier)
    shutil.rmtree(wd, ignore_errors=True)
    os.makedirs(wd, exist_ok=True)
    env = dict(os.environ)
    env["PYTHONHASHSEED"] = "0"
    env["PYTHONPATH"] = common.VERIF + os.pathsep + common.REPO + os.pathsep + env.get("PYTHONPATH", "")
    env["OMP_NUM_THREADS"] = env["OPENBLAS_NUM_THREADS"] = env["MKL_NUM_THREADS"] = "1"
    env["NUMBA_NUM_THREADS"] = "1"
    env[common.GUARD] = "1"
    procs = []
    for s in range(nshards):
        out = os.path.join(wd, "shard%02d.jsonl" % s)
        cmd = [common.PY, "-m", "pv.worker", prop, tier, str(s), str(nshards), out, "--cases", str(ncases),
               "--budget", str(budget), "--case-timeout", str(getattr(mod, "CASE_TIMEOUT", 120))]
        log = open(os.path.join(wd, "shard%02d.log" % s), "w")
        procs.append((s, out, subprocess.Popen(cmd, cwd=common.VERIF, env=env, stdout=log, stderr=subprocess.STDOUT), log))
    t0 = time.time()
    status = {}
    for s, out, p, log in procs:
        left = max(1.0, shard_timeout - (time.time() - t0))
        try:
            rc = p.wait(timeout=left)
            status[s] = "ok" if rc == 0 else "exit%d" % rc
        except subprocess.TimeoutExpired:
            p.kill()
            p.wait()
            status[s] = "watchdog"
        log.close()
    recs = []
    for s, out, p, log in procs:
        finished = False
        if os.path.exists(out):
            with open(out) as f:
                for line in f:
                    try:
                        r = json.loads(line)
                    except ValueError:
                        continue
                    if r.get("shard_done"):
                        finished = True
                        continue
                    r["shard"] = s
                    recs.append(r)
        if not finished and status[s] == "ok":
            status[s] = "incomplete"
    return recs, status, wd


def main(argv=None):
    ap = argparse.ArgumentParser()
    ap.add_argument("prop")
    ap.add_argument("--tier", default=os.environ.get("VERIF_TIER", "quick"), choices=["quick", "thorough"])
    ap.add_argument("--replay")
    ap.add_argument("--cases", type=int)
    ap.add_argument("--shards", type=int)
    ap.add_argument("--no-evidence", action="store_true")
    a = ap.parse_args(argv)
    prop = a.prop.upper()
    common.setup_paths()
    ensure_deps()
    common.setup_paths()

    if a.replay:
        return replay(prop, a.replay)

    common.quiet()
    mod = importlib.import_module("pv.monitors." + prop.lower())
    tier = a.tier
    ncases = a.cases or mod.CASES[tier]
    nshards = a.shards or getattr(mod, "SHARDS", {}).get(tier) or min(int(os.environ.get("PV_SHARDS", os.cpu_count() or 4)), ncases)
    budget = getattr(mod, "BUDGET", {"quick": 70, "thorough": 1500})[tier]
    shard_timeout = budget * 3 + 240
    t0 = time.time()
    recs, status, wd = run_shards(prop, tier, mod, ncases, nshards, budget, shard_timeout)
    wall = time.time() - t0
    return report(prop, tier, mod, recs, status, wall, ncases, write_evidence=not a.no_evidence)


def report(prop, tier, mod, recs, status, wall, ncases, write_evidence=True):
    known = [k for k in load_known() if k["property"] == prop]
    open_mech = {k["mechanism"]: k for k in known if k["status"] == "open"}
    errors = [r for r in recs if "error" in r]
    truncated = [r for r in recs if r.get("truncated")]
    cases = [r for r in recs if "digest" in r]
    tags = collections.Counter()
    skipped = collections.Counter()
    nontrivial = set()
    evals = 0
    new_viol, known_seen = [], collections.OrderedDict()
    extras = collections.Counter()
    for r in cases:
        evals += r.get("evals", 1)
        for t in r.get("tags", []):
            tags[t] += 1
        if r.get("skipped"):
            skipped[r["skipped"]] += 1
        if r.get("nontrivial") and not r.get("skipped"):
            nontrivial.add(r["digest"])
        if isinstance(r.get("extra"), dict):
            for k, v in r["extra"].items():
                if isinstance(v, (int, float)) and not isinstance(v, bool):
                    extras[k] += v
        for v in r.get("violations", []):
            m = v.get("mechanism")
            if m in open_mech:
                known_seen.setdefault(m, []).append((r, v))
            else:
                new_viol.append((r, v))
    lines = []
    rdir = os.path.join(common.REPLAYS, prop)
    vseed = common.verif_seed()
    for i, (r, v) in enumerate(new_viol[:10]):
        os.makedirs(rdir, exist_ok=True)
        path = os.path.join(rdir, "%s-s%d-c%d-%d.json" % (tier, vseed, r["case_no"], i))
        with open(path, "w") as f:
            f.write(common.dumps({"property": prop, "tier": tier, "verif_seed": vseed, "case_no": r["case_no"],
                                  "seed": r["seed"], "violation": v, "sample": r.get("sample")}, indent=1))
        lines.append("VIOLATION property=%s replay=%s" % (prop, os.path.relpath(path, common.VERIF)))
        lines.append("  what: %s" % (v.get("what"),))
    for m, lst in known_seen.items():
        r, v = lst[0]
        kdir = os.path.join(common.WORK, "replays", prop)
        os.makedirs(kdir, exist_ok=True)
        path = os.path.join(kdir, "%s-known-%s.json" % (tier, m))
        with open(path, "w") as f:
            f.write(common.dumps({"property": prop, "tier": tier, "verif_seed": vseed, "case_no": r["case_no"],
                                  "seed": r["seed"], "violation": v, "sample": r.get("sample")}, indent=1))
        lines.append("KNOWN-FINDING: property=%s %s (%s) observed in %d case(s), e.g. case %d: %s" % (
            prop, m, open_mech[m]["id"], len(lst), r["case_no"], v.get("what")))

    # coverage floors
    floors = getattr(mod, "FLOORS", {}).get(tier, {})
    # the floors written in the monitors are ~1/2 of the reach on an idle 16-core machine; a global factor keeps a loaded
    # machine (fewer cases inside the wall budget) from turning a healthy check inconclusive
    fs = float(os.environ.get("PV_FLOOR_SCALE", "0.6"))
    floors = {k: ({t: max(1, int(n * fs)) for t, n in v.items()} if isinstance(v, dict) else (max(2, int(v * fs)) if k == "nontrivial" else v))
              for k, v in floors.items()}
    unmet = []
    if len(nontrivial) < floors.get("nontrivial", 2):
        unmet.append("nontrivial %d < %d" % (len(nontrivial), floors.get("nontrivial", 2)))
    for t, n in floors.get("tags", {}).items():
        if tags.get(t, 0) < n:
            unmet.append("tag %s %d < %d" % (t, tags.get(t, 0), n))
    for t, n in floors.get("extras", {}).items():
        if extras.get(t, 0) < n:
            unmet.append("counter %s %d < %d" % (t, extras.get(t, 0), n))
    max_skip = floors.get("max_skip_frac", 0.6)
    nsk = sum(skipped.values())
    if cases and nsk / len(cases) > max_skip:
        unmet.append("skipped fraction %.2f > %.2f" % (nsk / len(cases), max_skip))
    bad_shards = {s: st for s, st in status.items() if st != "ok"}

    inconclusive = []
    if errors:
        inconclusive.append("%d harness error(s), first: %s" % (len(errors), errors[0]["error"].strip().splitlines()[-1]))
    if bad_shards:
        inconclusive.append("shards not completed: %s" % bad_shards)
    if unmet:
        inconclusive.append("coverage floors not met: " + "; ".join(unmet))

    samples = []
    for r in cases:
        if r.get("sample") is not None and r.get("nontrivial") and not r.get("skipped"):
            samples.append({"case_no": r["case_no"], "tags": r.get("tags"), "case": r["sample"]})
            if len(samples) >= 3:
                break
    if not samples:
        samples = [{"case_no": r.get("case_no"), "case": r.get("sample"), "skipped": r.get("skipped")} for r in cases[:2]] or [{"none": True}]
    cov = {
        "evaluations": max(evals, 0),
        "cases_run": len(cases),
        "cases_planned": ncases,
        "distinct_nontrivial": len(nontrivial),
        "rule": getattr(mod, "RULE", ""),
        "samples": samples,
        "tags": dict(sorted(tags.items())),
        "counters": {k: (int(v) if float(v).is_integer() else v) for k, v in sorted(extras.items())},
        "skipped": dict(skipped),
        "shards": {"n": len(status), "not_ok": bad_shards, "truncated_by_budget": len(truncated)},
        "known_findings_observed": {m: len(l) for m, l in known_seen.items()},
        "unlisted_violations": len(new_viol),
        "harness_errors": len(errors),
        "floors": floors,
        "floors_unmet": unmet,
        "verdict": "violated" if new_viol else ("inconclusive" if inconclusive else "held_on_observed"),
        "exhaustive": bool(getattr(mod, "EXHAUSTIVE", False)),
    }
    ev = {"property_id": prop, "tier": tier, "seed": vseed, "level": getattr(mod, "LEVEL", "exploration"),
          "coverage": cov, "assumptions": getattr(mod, "ASSUMPTIONS", []), "wall_s": round(wall, 2),
          "violations": len(new_viol)}
    if write_evidence:
        os.makedirs(common.EVIDENCE, exist_ok=True)
        with open(os.path.join(common.EVIDENCE, prop + ".json"), "w") as f:
            f.write(common.dumps(ev, indent=1) + "\n")
    print("%s tier=%s seed=%d cases=%d/%d evals=%d distinct_nontrivial=%d skipped=%s wall=%.1fs" % (
        prop, tier, vseed, len(cases), ncases, evals, len(nontrivial), dict(skipped), wall))
    print("  tags: " + ", ".join("%s=%d" % kv for kv in sorted(tags.items())))
    if extras:
        print("  counters: " + ", ".join("%s=%g" % kv for kv in sorted(extras.items())))
    for l in lines:
        print(l)
    if new_viol:
        print("%s: %d unlisted violation(s)" % (prop, len(new_viol)))
        return 1
    if inconclusive:
        for m in inconclusive:
            print("INCONCLUSIVE property=%s %s" % (prop, m))
        return 3
    print("%s: held on everything observed" % prop)
    return 0


def replay(prop, path):
    common.quiet()
    os.environ[common.GUARD] = "1"
    with open(path) as f:
        rp = json.load(f)
    os.environ["VERIF_SEED"] = str(rp.get("verif_seed", 0))
    mod = importlib.import_module("pv.monitors." + prop.lower())
    if hasattr(mod, "setup"):
        mod.setup(rp["tier"])
    rec = mod.run_case(rp["seed"], rp["tier"], rp["case_no"])
    print(common.dumps({"sample": rec.get("sample"), "skipped": rec.get("skipped"), "violations": rec.get("violations")}, indent=1))
    if rec.get("violations"):
        print("VIOLATION property=%s replay=%s" % (prop, path))
        return 1
    print("replay: no violation")
    return 0


if __name__ == "__main__":
    sys.exit(main())
