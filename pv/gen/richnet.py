"""Random networks that carry every kind of cross-table reference pandapower knows (used by C22).

rich_net(seed, tag) = netgen.rnd_net(...) plus switches of all four types, measurements (bus / branch / bus-element targets,
named and bus-index sides), poly and pwl costs, index- and reference-column groups, controllers (ConstControl, tap controllers,
CharacteristicControl + Characteristic objects), tabular tap changers for 2W/3W transformers, a shunt characteristic table,
optional FACTS / DC elements and (optionally) result tables of a power flow.

Every row of every element table gets a unique string in column UID ("pv_uid"), every controller / characteristic object an
attribute pv_uid: the reference oracles use them to follow the identity of referrers and targets through index changes.
"""
import numpy as np
import pandas as pd
import pandapower as pp
import pandapower.control as ctl
from pandapower.control.util.characteristic import Characteristic

from . import netgen

UID = "pv_uid"
NO_UID = ("group", "controller", "characteristic", "trafo_characteristic_table", "shunt_characteristic_table")
COST_ETS = ["gen", "sgen", "ext_grid", "load", "storage", "dcline"]
MEAS_BUS_ELEMENTS = ["load", "gen", "sgen", "shunt", "ward", "xward", "ext_grid"]
GROUP_ETS = ["bus", "line", "trafo", "trafo3w", "switch", "load", "sgen", "gen", "impedance", "ext_grid", "storage", "shunt",
             "ward", "xward", "dcline", "motor", "measurement"]
PROFILES = ["full_mix", "full_mix", "transmission", "multi_island", "weakly_meshed"]


def input_tables(net):
    for k in list(net.keys()):
        v = net[k]
        if isinstance(v, pd.DataFrame) and not k.startswith("res_") and not k.startswith("_") and k not in NO_UID:
            yield k, v


def stamp_uids(net, tag):
    """fill missing UIDs of all element tables and controller / characteristic objects with fresh unique strings"""
    cnt = net.get("_pv_uid_count", 0)
    for k, df in input_tables(net):
        if not len(df):
            continue
        if UID not in df.columns:
            df[UID] = pd.Series([None] * len(df), index=df.index, dtype=object)
        miss = df[UID].isnull().values
        if miss.any():
            vals = df[UID].values.copy()
            for i in np.flatnonzero(miss):
                vals[i] = "%s:%s:%d" % (tag, k, cnt)
                cnt += 1
            df[UID] = vals
    for tab in ("controller", "characteristic"):
        if tab in net and isinstance(net[tab], pd.DataFrame):
            for o in net[tab].object.values:
                if getattr(o, UID, None) is None:
                    setattr(o, UID, "%s:%s:%d" % (tag, tab, cnt))
                    cnt += 1
    net["_pv_uid_count"] = cnt


def _pick(g, idx, k=1):
    idx = list(idx)
    if not idx:
        return []
    k = min(k, len(idx))
    return [int(i) for i in g.rng.choice(idx, size=k, replace=False)]


def add_switches(net, g):
    """make sure all four switch types are present"""
    have = set(net.switch.et.unique()) if len(net.switch) else set()
    if "l" not in have and len(net.line):
        li = _pick(g, net.line.index)[0]
        pp.create_switch(net, int(net.line.at[li, g.C(["from_bus", "to_bus"])]), li, "l", closed=g.B(0.7))
    if "t" not in have and len(net.trafo):
        ti = _pick(g, net.trafo.index)[0]
        pp.create_switch(net, int(net.trafo.at[ti, g.C(["hv_bus", "lv_bus"])]), ti, "t", closed=g.B(0.7))
    for ti in net.trafo3w.index:
        if "t3" not in have or g.B(0.3):
            pp.create_switch(net, int(net.trafo3w.at[ti, g.C(["hv_bus", "mv_bus", "lv_bus"])]), int(ti), "t3", closed=g.B(0.7))
            have.add("t3")
    if "b" not in have and len(net.bus) > 1:
        a, b = _pick(g, net.bus.index, 2)
        pp.create_switch(net, a, b, "b", closed=g.B(0.7))


def add_measurements(net, g, n):
    for _ in range(n):
        kind = g.C(["bus", "bus", "line", "trafo", "trafo3w", "el", "el"])
        try:
            if kind == "bus" and len(net.bus):
                pp.create_measurement(net, g.C(["v", "p", "q"]), "bus", g.R(0.9, 1.1), 0.01, _pick(g, net.bus.index)[0])
            elif kind == "line" and len(net.line):
                li = _pick(g, net.line.index)[0]
                side = g.C(["from", "to", int(net.line.at[li, "from_bus"]), int(net.line.at[li, "to_bus"])])
                pp.create_measurement(net, g.C(["p", "q", "i"]), "line", g.R(0, 1), 0.01, li, side=side)
            elif kind == "trafo" and len(net.trafo):
                ti = _pick(g, net.trafo.index)[0]
                side = g.C(["hv", "lv", int(net.trafo.at[ti, "hv_bus"]), int(net.trafo.at[ti, "lv_bus"])])
                pp.create_measurement(net, g.C(["p", "q", "i"]), "trafo", g.R(0, 1), 0.01, ti, side=side)
            elif kind == "trafo3w" and len(net.trafo3w):
                ti = _pick(g, net.trafo3w.index)[0]
                side = g.C(["hv", "mv", "lv", int(net.trafo3w.at[ti, "mv_bus"])])
                pp.create_measurement(net, g.C(["p", "q", "i"]), "trafo3w", g.R(0, 1), 0.01, ti, side=side)
            elif kind == "el":
                et = g.C([e for e in MEAS_BUS_ELEMENTS if len(net[e])] or ["bus"])
                if et != "bus":
                    pp.create_measurement(net, g.C(["p", "q"]), et, g.R(0, 1), 0.01, _pick(g, net[et].index)[0])
        except UserWarning:
            pass


def add_costs(net, g, n):
    for _ in range(n):
        et = g.C([e for e in COST_ETS if len(net[e])])
        el = _pick(g, net[et].index)[0]
        try:
            if g.B(0.6):
                pp.create_poly_cost(net, el, et, cp1_eur_per_mw=g.R(1, 50), cp2_eur_per_mw2=g.R(0, 1))
            else:
                pp.create_pwl_cost(net, el, et, [[0, 10, g.R(1, 20)], [10, 50, g.R(20, 40)]])
        except UserWarning:
            pass


def add_groups(net, g, n, tag):
    for k in range(n):
        ets = [e for e in GROUP_ETS if len(net[e])]
        if not ets:
            return
        ets = [ets[i] for i in g.rng.choice(len(ets), size=min(len(ets), g.I(1, 4)), replace=False)]
        refcol = g.B(0.35)
        members = []
        for et in ets:
            idx = _pick(g, net[et].index, g.I(1, 3))
            members.append(list(net[et].loc[idx, UID]) if refcol else idx)
        pp.create_group(net, ets, members, name="%s:grp%d" % (tag, len(set(net.group.index))),
                        reference_columns=UID if refcol else None)


def add_controllers(net, g, n):
    for _ in range(n):
        kind = g.C(["const", "const", "tap", "tap3", "char"])
        if kind == "const":
            et = g.C([e for e in ["load", "sgen", "gen", "storage"] if len(net[e])])
            idx = _pick(g, net[et].index, g.I(1, 3))
            ctl.ConstControl(net, et, "p_mw", element_index=idx if (len(idx) > 1 or g.B(0.5)) else idx[0])
        elif kind == "tap" and len(net.trafo):
            ti = _pick(g, net.trafo.index)[0]
            if pd.isna(net.trafo.at[ti, "tap_pos"]):
                continue
            if g.B(0.5):
                ctl.ContinuousTapControl(net, ti, vm_set_pu=g.R(0.98, 1.03), side="lv")
            else:
                ctl.DiscreteTapControl(net, ti, vm_lower_pu=0.98, vm_upper_pu=1.03, side="lv")
        elif kind == "tap3" and len(net.trafo3w):
            ti = _pick(g, net.trafo3w.index)[0]
            ctl.DiscreteTapControl(net, ti, vm_lower_pu=0.98, vm_upper_pu=1.03, side=g.C(["mv", "lv"]), element="trafo3w")
        elif kind == "char" and len(net.sgen):
            ch = Characteristic(net, [0.9, 1.0, 1.1], [g.R(0.1, 0.5), 0., -g.R(0.1, 0.5)])
            si = _pick(g, net.sgen.index)[0]
            ctl.CharacteristicControl(net, "sgen", "q_mvar", si, "res_bus", "vm_pu", int(net.sgen.at[si, "bus"]), ch.index)


def add_char_tables(net, g):
    """tabular tap changers for 2W and 3W transformers and a step table for shunts"""
    netgen.add_tap_table(net, g)
    rows = []
    if "trafo_characteristic_table" in net:
        tab = net["trafo_characteristic_table"]
        next_id = int(tab.id_characteristic.max()) + 1 if len(tab) else 0
    else:
        tab, next_id = None, 0
    if len(net.trafo3w):
        net.trafo3w["tap_dependency_table"] = False
        net.trafo3w["id_characteristic_table"] = pd.array([pd.NA] * len(net.trafo3w), dtype="Int64")
        for t in net.trafo3w.index:
            if not g.B(0.6):
                continue
            for step in range(-2, 3):
                rows.append(dict(id_characteristic=next_id, step=step, voltage_ratio=1 + g.R(0.004, 0.02) * step, angle_deg=0.,
                                 vk_percent=np.nan, vkr_percent=np.nan, vk_hv_percent=g.R(9, 11), vkr_hv_percent=g.R(0.2, 0.4),
                                 vk_mv_percent=g.R(9, 11), vkr_mv_percent=g.R(0.2, 0.4), vk_lv_percent=g.R(9, 11),
                                 vkr_lv_percent=g.R(0.2, 0.4)))
            net.trafo3w.at[t, "tap_dependency_table"] = True
            net.trafo3w.at[t, "id_characteristic_table"] = next_id
            next_id += 1
    if rows:
        new = pd.DataFrame(rows)
        net["trafo_characteristic_table"] = new if tab is None else pd.concat([tab, new], ignore_index=True)
    if len(net.shunt) and g.B(0.7):
        srows, sid = [], 0
        net.shunt["step_dependency_table"] = False
        net.shunt["id_characteristic_table"] = pd.array([pd.NA] * len(net.shunt), dtype="Int64")
        for s in net.shunt.index:
            if not g.B(0.7):
                continue
            for step in range(0, int(net.shunt.at[s, "max_step"]) + 1):
                srows.append(dict(id_characteristic=sid, step=step, q_mvar=g.R(-1, 1) * step, p_mw=g.R(0, 0.01) * step))
            net.shunt.at[s, "step_dependency_table"] = True
            net.shunt.at[s, "id_characteristic_table"] = sid
            sid += 1
        if srows:
            net["shunt_characteristic_table"] = pd.DataFrame(srows)


def add_facts_dc(net, g):
    """FACTS and DC elements: further tables that hold bus / bus_dc references"""
    mv = list(net.bus.index[net.bus.vn_kv == 20.])
    if len(mv) < 2:
        return
    a, b = _pick(g, mv, 2)
    if g.B(0.5):
        pp.create_svc(net, a, x_l_ohm=1., x_cvar_ohm=-10., set_vm_pu=1.0, thyristor_firing_angle_degree=120.)
    if g.B(0.4):
        pp.create_ssc(net, b, r_ohm=0.1, x_ohm=1., set_vm_pu=1.0)
    if g.B(0.4):
        pp.create_tcsc(net, a, b, x_l_ohm=1., x_cvar_ohm=-10., set_p_to_mw=0.5, thyristor_firing_angle_degree=140.)
    if g.B(0.4):
        d0, d1 = pp.create_bus_dc(net, 50.), pp.create_bus_dc(net, 50.)
        pp.create_line_dc_from_parameters(net, d0, d1, 10., r_ohm_per_km=0.1, max_i_ka=1.)
        pp.create_vsc(net, a, d0, r_ohm=0.01, x_ohm=0.1, r_dc_ohm=0.01, control_mode_ac="vm_pu", control_value_ac=1.,
                      control_mode_dc="vm_pu", control_value_dc=1.)
        pp.create_vsc(net, b, d1, r_ohm=0.01, x_ohm=0.1, r_dc_ohm=0.01, control_mode_ac="q_mvar", control_value_ac=0.,
                      control_mode_dc="p_mw", control_value_dc=1.)


def rich_net(seed, tag="A", small=False, facts=0.25, results=0.5):
    g = netgen.G(seed ^ 0x5EED)
    profile = g.C(PROFILES) if not small else "simple"
    ov = dict(trafo3w=0.9, bb_sw=0.9, imp=0.8, dcline=0.5, shunt=0.8, storage=0.6, ward=0.6, xward=0.6, gen=0.9)
    if small:
        ov.update(n_hv=(1, 2), n_mv=(2, 3), n_lv=(0, 1))
    net = netgen.rnd_net(seed, profile, ov)
    with_res = g.B(results)
    if with_res:
        import copy
        trial = copy.deepcopy(net)
        try:
            pp.runpp(trial)
            net = trial
        except Exception:  # noqa - result tables are optional decoration (a failed runpp may leave auxiliary rows behind)
            pass
    add_switches(net, g)
    add_char_tables(net, g)
    if g.B(facts):
        add_facts_dc(net, g)
    add_measurements(net, g, g.I(4, 10))
    add_costs(net, g, g.I(2, 6))
    stamp_uids(net, tag)
    add_groups(net, g, g.I(2, 4), tag)
    add_controllers(net, g, g.I(2, 5))
    stamp_uids(net, tag)
    return net, profile
