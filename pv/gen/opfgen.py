"""Seeded OPF problems that are feasible by construction (used by the C16 and C17 monitors).

A base network (bundled MATPOWER-style case or a small generated one) is extended by static generators, storages, an optional
DC line and controllable loads.  A power flow of the current set-points is solved first; all limits (bus voltages, branch
loadings, p/q ranges of the controllable elements, external grid ranges) are then wrapped around that solution, so the
power-flow point is a strictly feasible point of the OPF.  Costs are random polynomial or piecewise linear functions that are
convex in the element's own power (so DC-OPF is a convex programme).
"""
import numpy as np
import pandas as pd
import pandapower as pp
import pandapower.networks as pn

from . import netgen

BASES = ["case5", "case9", "case14", "case_ieee30", "case30", "gen_simple", "gen_simple", "gen_transmission", "case9", "case14"]
GEN_OVR = dict(zip_load=0., motor=0., asym=0., ward=0., xward=0., dcline=0., z_sw=0., imp=0., storage=0., slack_gen=0., oos=0.,
               open_sw=0., bb_sw=0.2, shunt=0.3, second_eg=0., ptap=0., trafo3w=0.3, n_lv=(0, 1), sn_choices=(1., 10., 100.))


def _base(g, seed, name):
    if name.startswith("gen_"):
        net = netgen.rnd_net(seed, name[4:], GEN_OVR)
        net.gen["scaling"] = 1.
        # generated nets carry hv/lv shifts that are loop-consistent; keep them
        return net
    net = getattr(pn, name)()
    for t in ("poly_cost", "pwl_cost"):
        net[t] = net[t].iloc[0:0]
    return net


def _wrap(lo, hi, g, rel=(0.1, 0.8), floor=0.05):
    """interval around [lo, hi] (lo <= hi) with random margins"""
    span = max(abs(lo), abs(hi), floor)
    return lo - g.R(*rel) * span, hi + g.R(*rel) * span


def build(seed, dc=False):
    """returns (net, info); info: base name, cost mode, controllable counts; None if the base power flow fails"""
    g = netgen.G(seed ^ 0x0F0F)
    R, B, C, I = g.R, g.B, g.C, g.I
    name = C(BASES)
    net = _base(g, seed, name)
    buses = [int(b) for b in net.bus.index[net.bus.in_service.values]]
    smax = max(1., float(net.load.p_mw.abs().max()) if len(net.load) else 1.)
    # ---- more element types
    for _ in range(I(0, 3)):
        pp.create_sgen(net, int(C(buses)), p_mw=R(0.05, 0.5) * smax, q_mvar=R(-0.1, 0.1) * smax)
    for _ in range(I(0, 2)):
        pp.create_storage(net, int(C(buses)), p_mw=R(-0.3, 0.3) * smax, max_e_mwh=10., q_mvar=R(-0.05, 0.05) * smax)
    for _ in range(I(0, 2)):
        pp.create_load(net, int(C(buses)), p_mw=R(0.05, 0.4) * smax, q_mvar=R(0., 0.1) * smax)
    has_dcline = False
    if B(0.25) and len(buses) >= 4:
        egb = set(net.ext_grid.bus.values) | set(net.gen.bus.values)
        cand = [b for b in buses if b not in egb]
        if len(cand) >= 2:
            a, b = g.rng.choice(cand, 2, replace=False)
            pp.create_dcline(net, int(a), int(b), p_mw=R(0.05, 0.3) * smax, loss_percent=R(0, 3), loss_mw=R(0, 0.01) * smax,
                             vm_from_pu=1.0, vm_to_pu=1.0, max_p_mw=smax, min_q_from_mvar=-smax, max_q_from_mvar=smax,
                             min_q_to_mvar=-smax, max_q_to_mvar=smax)
            has_dcline = True
    for el in ("load", "sgen", "storage"):
        net[el]["scaling"] = 1.
    # ---- base power flow
    try:
        if dc:
            pp.rundcpp(net)
        else:
            pp.runpp(net, calculate_voltage_angles=True)
    except Exception:  # noqa
        return None, {"base": name, "skip": "base_pf"}
    if not dc and (net.res_bus.vm_pu.min() < 0.85 or net.res_bus.vm_pu.max() > 1.15):
        return None, {"base": name, "skip": "base_pf_voltage"}
    # ---- limits wrapped around the power-flow point
    vm = net.res_bus.vm_pu.values if not dc else np.ones(len(net.bus))
    if B(0.5):
        net.bus["min_vm_pu"] = np.minimum(0.9, np.nanmin(vm) - 0.02)
        net.bus["max_vm_pu"] = np.maximum(1.1, np.nanmax(vm) + 0.02)
    else:
        net.bus["min_vm_pu"] = [float(v) - R(0.02, 0.1) if np.isfinite(v) else 0.9 for v in vm]
        net.bus["max_vm_pu"] = [float(v) + R(0.02, 0.1) if np.isfinite(v) else 1.1 for v in vm]
    tight = C([1.05, 1.3, 2.5])
    for el in ("line", "trafo", "trafo3w"):
        if len(net[el]):
            ld = np.nan_to_num(net["res_" + el].loading_percent.values)
            net[el]["max_loading_percent"] = [max(float(x) * R(tight, tight * 2), 10.) for x in ld]
    n_ctrl = {}
    for el in ("gen", "sgen", "load", "storage"):
        tab = net[el]
        if not len(tab):
            continue
        p = net["res_" + el].p_mw.values
        q = net["res_" + el].q_mvar.values if not dc else tab.get("q_mvar", pd.Series(0., index=tab.index)).values
        ctrl = np.array([B(0.75 if el == "gen" else 0.55) for _ in range(len(tab))]) & tab.in_service.values
        tab["controllable"] = ctrl
        lim = np.array([_wrap(min(float(pi), 0.) if el in ("gen", "sgen") else float(pi), float(pi), g) for pi in p])
        tab["min_p_mw"], tab["max_p_mw"] = lim[:, 0], lim[:, 1]
        if el in ("gen", "sgen"):
            tab["min_p_mw"] = np.minimum(np.maximum(tab.min_p_mw.values, 0.), p)       # generation stays >= 0
        if el == "load":
            tab["min_p_mw"] = np.minimum(np.maximum(tab.min_p_mw.values, 0.), p)
        limq = np.array([_wrap(float(qi), float(qi), g) for qi in np.nan_to_num(q)])
        if el == "load" and B(0.5):
            limq = np.array([[float(qi), float(qi)] for qi in np.nan_to_num(q)])      # fixed reactive demand
        tab["min_q_mvar"], tab["max_q_mvar"] = limq[:, 0], limq[:, 1]
        n_ctrl[el] = int(ctrl.sum())
    eg = net.ext_grid
    pe, qe = net.res_ext_grid.p_mw.values, (net.res_ext_grid.q_mvar.values if not dc else np.zeros(len(eg)))
    big = float(np.abs(net.res_bus.p_mw.values).sum() + 1.)
    eg["min_p_mw"], eg["max_p_mw"] = pe - big, pe + big
    eg["min_q_mvar"], eg["max_q_mvar"] = np.nan_to_num(qe) - big, np.nan_to_num(qe) + big
    if B(0.3):
        eg["controllable"] = [B(0.5) for _ in range(len(eg))]
    # ---- costs
    mode = C(["linear", "linear", "quadratic", "quadratic", "pwl", "pwl_and_linear"])
    q_costs = (not dc) and B(0.3) and mode in ("linear", "quadratic")
    n_cost = 0
    elements = [("ext_grid", i) for i in eg.index[eg.in_service.values]]
    elements += [("gen", i) for i in net.gen.index[net.gen.in_service.values]]
    for el in ("sgen", "load", "storage"):
        if len(net[el]):
            elements += [(el, i) for i in net[el].index[(net[el].controllable & net[el].in_service).values.astype(bool)]]
    if has_dcline:
        elements += [("dcline", i) for i in net.dcline.index]
    for et, i in elements:
        if not B(0.85 if et in ("gen", "ext_grid") else 0.7):
            continue
        if et == "dcline":
            lo, hi = 0., float(net.dcline.max_p_mw.at[i])
        else:
            lo, hi = float(net[et].min_p_mw.at[i]), float(net[et].max_p_mw.at[i])
        size = max(abs(lo), abs(hi), 1e-3)
        sign = -1. if et in ("load", "storage") and B(0.7) else 1.          # consumption usually earns money
        c1 = sign * R(5, 80) if et != "dcline" else R(0, 5)
        use_pwl = mode == "pwl" or (mode == "pwl_and_linear" and B(0.5))
        if use_pwl:
            nseg = 1 if et in ("load", "storage", "dcline") else I(1, 3)
            a, b = (lo - 0.1 * size, hi + 0.1 * size)
            knots = [a] + sorted(R(a, b) for _ in range(nseg - 1)) + [b]
            slopes = sorted(c1 + R(0, 30) * k for k in range(nseg))       # increasing slopes: convex
            pts = [[float(knots[k]), float(knots[k + 1]), float(slopes[k])] for k in range(nseg)]
            pp.create_pwl_cost(net, i, et, pts)
        else:
            kw = dict(cp1_eur_per_mw=c1)
            if mode == "quadratic" and B(0.7):
                kw["cp2_eur_per_mw2"] = R(0.02, 0.6) * abs(c1) / size + 1e-4
            if B(0.3):
                kw["cp0_eur"] = R(-50, 200)
            if q_costs and et != "dcline" and B(0.5):
                kw["cq1_eur_per_mvar"] = R(-5, 5)
                if mode == "quadratic" and B(0.6):
                    kw["cq2_eur_per_mvar2"] = R(0.01, 0.3) * 10 / size
                if B(0.2):
                    kw["cq0_eur"] = R(-10, 10)
            pp.create_poly_cost(net, i, et, **kw)
        n_cost += 1
    info = {"base": name, "cost_mode": mode, "q_costs": bool(q_costs), "n_cost": n_cost, "controllable": n_ctrl,
            "dcline": has_dcline, "net": netgen.describe(net)}
    return net, info


# -------------------------------------------------------------------------------------------------------------------------
def user_cost(net, per_element=False):
    """sum over all cost entries of the user's cost function at the element's own result power.
    pwl convention (create_pwl_cost): slope c_k between p_k and p_k+1, the first segment's line passes through the origin"""
    total, parts = 0., []

    def power(et, i, kind):
        if et == "dcline":
            return float(net.res_dcline["p_from_mw" if kind == "p" else "q_from_mvar"].at[i])
        return float(net["res_" + et]["p_mw" if kind == "p" else "q_mvar"].at[i])

    for _, c in net.poly_cost.iterrows():
        et, i = c.et, int(c.element)
        p, q = power(et, i, "p"), power(et, i, "q")
        if not np.isfinite(q):
            q = 0.
        v = c.cp2_eur_per_mw2 * p ** 2 + c.cp1_eur_per_mw * p + c.cp0_eur
        vq = c.cq2_eur_per_mvar2 * q ** 2 + c.cq1_eur_per_mvar * q + c.cq0_eur
        total += v + vq
        parts.append((et, i, "poly", float(v + vq)))
    for _, c in net.pwl_cost.iterrows():
        et, i = c.et, int(c.element)
        x = power(et, i, c.power_type)
        pts = c.points
        v = pts[0][0] * pts[0][2]
        for lo, hi, s in pts:
            if x > lo:
                v += (min(x, hi) - lo) * s
        if x < pts[0][0]:
            v += (x - pts[0][0]) * pts[0][2]
        elif x > pts[-1][1]:
            v += (x - pts[-1][1]) * pts[-1][2]
        total += v
        parts.append((et, i, "pwl", float(v)))
    return (total, parts) if per_element else total
