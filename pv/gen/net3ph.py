"""Seeded random networks for the three-phase power flow (runpp_3ph): lines and two-winding transformers with zero-sequence
data, an ext_grid with short-circuit data, symmetric loads / sgens and asymmetric (wye / delta) loads / sgens.

rnd_net3ph(seed, balanced) -> net.  Rules that keep the oracles sound:
* transformers only connect the root buses of two voltage levels (parallel units share vector group, shift and ratio), so
  every loop is shift-consistent;
* only the vector groups documented for runpp_3ph (Dyn, YNyn, Yzn) are generated;
* balanced=True gives asymmetric elements equal phase values (they are symmetric loads then).
"""
import pandapower as pp

from .netgen import G

LEVELS = {110.: dict(pmax=8., lmax=25., r=(0.03, 0.2), x=(0.1, 0.4), c=(5, 15), ssc=(1500, 8000)),
          20.: dict(pmax=0.8, lmax=4., r=(0.05, 0.5), x=(0.08, 0.4), c=(8, 300), ssc=(200, 2000)),
          10.: dict(pmax=0.5, lmax=3., r=(0.05, 0.5), x=(0.08, 0.4), c=(8, 300), ssc=(150, 1000)),
          0.4: dict(pmax=0.012, lmax=0.25, r=(0.1, 0.7), x=(0.06, 0.1), c=(0, 300), ssc=(5, 40))}
CHAINS = [(110., 20., 0.4), (20., 0.4), (110., 20.), (10., 0.4), (0.4,), (20.,), (110., 10.)]
TRAFO_SN = {(110., 20.): (16, 63), (110., 10.): (16, 63), (20., 0.4): (0.25, 1.0), (10., 0.4): (0.25, 1.0)}
SHIFTS = {"Dyn": [150., 30., -30., 150.], "YNyn": [0., 0., 180.], "Yzn": [150., 30., 150.]}


def _line(net, g, a, b, L):
    R = g.R
    r, x, c = R(*L["r"]), R(*L["x"]), R(*L["c"])
    pp.create_line_from_parameters(
        net, a, b, R(0.03, L["lmax"]), r_ohm_per_km=r, x_ohm_per_km=x, c_nf_per_km=c, max_i_ka=R(0.15, 0.8),
        r0_ohm_per_km=r * R(1, 4), x0_ohm_per_km=x * R(1, 4.5), c0_nf_per_km=c * R(0.3, 1.), parallel=g.I(1, 2) if g.B(0.25) else 1,
        df=R(0.6, 1.), g_us_per_km=0., g0_us_per_km=0.)


def rnd_net3ph(seed, balanced):
    g = G(seed)
    R, B, I, C = g.R, g.B, g.I, g.C
    chain = C(CHAINS)
    # sn_mva in the order of magnitude of the load, as users choose it (the stopping rules of runpp_3ph are per-unit quantities)
    sn = C({110.: [10., 100., 50.], 20.: [1., 10., 5.], 10.: [1., 10.], 0.4: [0.1, 1., 0.5]}[chain[0]])
    net = pp.create_empty_network(sn_mva=float(sn), f_hz=float(C([50., 50., 60.])))
    levels = []
    for vn in chain:
        n = I(1, 4) if len(chain) > 1 else I(2, 6)
        buses = [int(pp.create_bus(net, vn, name="%g_%d" % (vn, i))) for i in range(n)]
        L = LEVELS[vn]
        for i in range(1, n):
            _line(net, g, buses[I(0, i - 1)], buses[i], L)
        if n > 2 and B(0.4):
            a, b = g.rng.choice(n, 2, replace=False)
            _line(net, g, buses[int(a)], buses[int(b)], L)
        levels.append(buses)
    for k in range(len(chain) - 1):
        hv, lv = chain[k], chain[k + 1]
        vg = C(["Dyn", "Dyn", "YNyn", "Yzn"])
        shift = float(C(SHIFTS[vg]))
        sn = R(*TRAFO_SN[(hv, lv)])
        vk, vkr = R(4, 14), R(0.2, 1.4)
        kw = dict(sn_mva=sn, vn_hv_kv=hv * R(0.97, 1.05), vn_lv_kv=lv * R(0.98, 1.06), vk_percent=vk, vkr_percent=vkr,
                  pfe_kw=sn * R(0, 2.5), i0_percent=R(0.02, 0.4) if B(0.8) else 0., shift_degree=shift, vector_group=vg,
                  vk0_percent=vk * R(0.8, 1.2), vkr0_percent=vkr * R(0.8, 1.2), mag0_percent=float(C([100., R(10, 300)])),
                  mag0_rx=R(0, 0.5) if B(0.5) else 0., si0_hv_partial=R(0.3, 0.95), tap_side=C(["hv", "lv"]), tap_neutral=0,
                  tap_min=-4, tap_max=4, tap_step_percent=R(0.5, 2.5), tap_pos=I(-3, 3) if B(0.6) else 0,
                  tap_changer_type="Ratio", parallel=I(1, 2) if B(0.2) else 1)
        for _ in range(2 if B(0.2) else 1):
            pp.create_transformer_from_parameters(net, levels[k][0], levels[k + 1][0], **kw)
    L0 = LEVELS[chain[0]]
    rx = R(0.05, 0.6)
    z0 = dict(x0x_max=R(0.5, 3.), r0x0_max=R(0.05, 0.6)) if B(0.5) else dict(x0x_max=1., r0x0_max=rx)   # z0 != z2 / z0 == z2
    pp.create_ext_grid(net, levels[0][0], vm_pu=R(0.98, 1.05), va_degree=R(-20, 20) if B(0.3) else 0.,
                       s_sc_max_mva=R(*L0["ssc"]), rx_max=rx, **z0)
    if B(0.15) and len(levels[0]) > 1:
        pp.create_ext_grid(net, levels[0][-1], vm_pu=float(net.ext_grid.vm_pu.iloc[0]) + R(-0.01, 0.01),
                           va_degree=float(net.ext_grid.va_degree.iloc[0]) + R(-0.3, 0.3), s_sc_max_mva=R(*L0["ssc"]),
                           rx_max=rx, in_service=not B(0.3), **z0)

    def phases(s, lo, hi):
        if balanced:
            v = R(lo, hi) * s
            return [v, v, v]
        v = [R(lo, hi) * s for _ in range(3)]
        if B(0.2):
            v[I(0, 2)] = 0.
        return v

    for vn, buses in zip(chain, levels):
        s = LEVELS[vn]["pmax"]
        for b in buses:
            if b == levels[0][0] and not B(0.1):
                continue
            oos = lambda: not B(0.08)
            for _ in range(I(0, 2)):
                pp.create_load(net, b, R(0, 1) * s, R(-0.3, 0.5) * s, scaling=R(0.5, 1.5) if B(0.5) else 1., in_service=oos(),
                               type=C(["wye", "delta"]))
            if B(0.35):
                pp.create_sgen(net, b, R(0, 0.8) * s, R(-0.3, 0.3) * s, scaling=R(0.5, 1.5) if B(0.5) else 1., in_service=oos(),
                               type=C(["wye", "delta"]))
            for _ in range(I(0, 2) if B(0.6) else 0):
                pp.create_asymmetric_load(net, b, *phases(s, 0, 0.5), *phases(s, -0.15, 0.25), scaling=R(0.5, 1.5) if B(0.5) else 1.,
                                          in_service=oos(), type=C(["wye", "delta"]))
            if B(0.3):
                pp.create_asymmetric_sgen(net, b, *phases(s, 0, 0.4), *phases(s, -0.1, 0.1), scaling=R(0.5, 1.5) if B(0.5) else 1.,
                                          in_service=oos(), type=C(["wye", "delta"]))
    if B(0.15) and len(net.line) > 1:
        net.line.at[int(C(list(net.line.index))), "in_service"] = False
    if B(0.15) and len(net.line):
        li = int(C(list(net.line.index)))
        pp.create_switch(net, int(net.line.at[li, C(["from_bus", "to_bus"])]), li, "l", closed=B(0.4))
    return net
