"""Seeded random pandapower networks.

rnd_net(seed, profile) builds a 110/20/0.4 kV style network (plus an optional 10 kV tertiary level) with the element
mix requested by the profile.  Rules that only exist to keep the oracles sound (see DESIGN.md section 3):

* vector-group shifts are assigned per voltage-level pair, so every loop is shift-consistent;
* voltage-controlling elements that end up on the same (fused) bus get the same set-point;
* phase-shifting tap changers only get small angles.
"""
import numpy as np
import pandas as pd
import pandapower as pp

LINE_TYPES_LV = ["NAYY 4x50 SE", "NAYY 4x150 SE", "NAYY 4x120 SE"]
LINE_TYPES_MV = ["NA2XS2Y 1x95 RM/25 12/20 kV", "NA2XS2Y 1x240 RM/25 12/20 kV", "243-AL1/39-ST1A 20.0"]
LINE_TYPES_HV = ["149-AL1/24-ST1A 110.0", "243-AL1/39-ST1A 110.0", "N2XS(FL)2Y 1x240 RM/35 64/110 kV"]
TRAFO_HVMV = ["25 MVA 110/20 kV", "40 MVA 110/20 kV", "63 MVA 110/20 kV"]
TRAFO_MVLV = ["0.4 MVA 20/0.4 kV", "0.63 MVA 20/0.4 kV", "0.25 MVA 20/0.4 kV"]

PROFILES = {
    # probabilities of features
    "full_mix": dict(),
    "dist_radial": dict(mesh=0.0, second_eg=0.0, imp=0.0, gen=0.2, xward=0.1, ward=0.2, bb_sw=0.3, z_sw=0.0, open_sw=0.05,
                        oos=0.03, trafo3w=0.3, dcline=0.0),
    "weakly_meshed": dict(mesh=1.0, second_eg=0.0, imp=0.4, gen=0.3, open_sw=0.05, oos=0.03),
    "transmission": dict(n_hv=(4, 8), n_mv=(2, 4), n_lv=(0, 1), mesh=1.0, gen=1.0, second_eg=0.5, xward=0.6, ward=0.5, dcline=0.3,
                         shunt=0.7, oos=0.05, open_sw=0.05, n_gen=(2, 4)),
    "multi_island": dict(oos=0.25, open_sw=0.45, bb_sw=0.9, second_eg=0.6, gen=0.6, slack_gen=0.4, trafo3w=0.7, extra_island=0.7,
                         eg_oos=0.2),
    "passive": dict(neg_r=0.0),
    "simple": dict(zip_load=0.0, storage=0.0, motor=0.0, asym=0.0, ward=0.0, xward=0.0, shunt=0.3, imp=0.0, dcline=0.0,
                   trafo3w=0.3, z_sw=0.0, bb_sw=0.2, oos=0.0, open_sw=0.0, gen=0.5, second_eg=0.0, ptap=0.0),
}

DEFAULT_P = dict(zip_load=0.5, multi=0.6, oos=0.12, open_sw=0.15, bb_sw=0.5, trafo3w=0.5, imp=0.5, ward=0.4, xward=0.4,
                 shunt=0.5, gen=0.6, storage=0.4, motor=0.3, asym=0.2, dcline=0.15, mesh=0.5, tap=0.7, second_eg=0.3,
                 z_sw=0.3, slack_gen=0.15, extra_island=0.0, eg_oos=0.0, ptap=0.3, tabular=0.0, sw_at_oos_bus=True, co_slack=0.12,
                 n_hv=(2, 4), n_mv=(2, 6), n_lv=(0, 3), n_gen=(1, 2), sn_choices=(1., 10., 100., 37.5), f_hz=(50., 50., 60.))


class G:
    """helper carrying rng + shorthand"""

    def __init__(self, seed):
        self.rng = np.random.default_rng(seed)

    def R(self, a, b):
        return float(self.rng.uniform(a, b))

    def B(self, p):
        return bool(self.rng.random() < p)

    def I(self, a, b):
        """integer in [a, b]"""
        return int(self.rng.integers(a, b + 1))

    def C(self, seq):
        return seq[int(self.rng.integers(0, len(seq)))]


def params(profile="full_mix", overrides=None):
    P = dict(DEFAULT_P)
    P.update(PROFILES.get(profile, {}))
    if overrides:
        P.update(overrides)
    return P


def _scale(vn):
    return {110.: 20., 20.: 2., 10.: 2., 0.4: 0.05}[float(vn)]


def rnd_net(seed, profile="full_mix", overrides=None):
    g = G(seed)
    R, B, I, C = g.R, g.B, g.I, g.C
    P = params(profile, overrides)
    net = pp.create_empty_network(sn_mva=float(C(P["sn_choices"])), f_hz=float(C(P["f_hz"])))
    n_hv, n_mv, n_lv = I(*P["n_hv"]), I(*P["n_mv"]), I(*P["n_lv"])
    hv = [pp.create_bus(net, 110., name="hv%d" % i) for i in range(n_hv)]
    mv = [pp.create_bus(net, 20., name="mv%d" % i) for i in range(n_mv)]
    lv = [pp.create_bus(net, 0.4, name="lv%d" % i) for i in range(n_lv)]
    shift_hvmv = float(C([0., 0., 150., 30.]))
    shift_mvlv = float(C([0., 150., 30.]))
    # backbone trees
    for lvl, types, lmax in [(hv, LINE_TYPES_HV, 30), (mv, LINE_TYPES_MV, 5), (lv, LINE_TYPES_LV, 0.3)]:
        for i in range(1, len(lvl)):
            if lvl is lv and B(0.5):
                continue
            j = I(0, i - 1)
            if B(0.7):
                pp.create_line(net, lvl[j], lvl[i], R(0.05, lmax), C(types), parallel=I(1, 3) if B(0.3) else 1, df=R(0.5, 1))
            else:
                pp.create_line_from_parameters(net, lvl[j], lvl[i], R(0.05, lmax), r_ohm_per_km=R(0.03, 0.4),
                                               x_ohm_per_km=R(0.08, 0.4), c_nf_per_km=R(0, 300), g_us_per_km=R(0, 2) if B(0.5) else 0.,
                                               max_i_ka=R(0.2, 0.8), parallel=I(1, 2), df=R(0.6, 1))
        if lvl is not lv and len(lvl) > 2 and B(P["mesh"]):
            for _ in range(I(1, 2)):
                a, b = g.rng.choice(len(lvl), 2, replace=False)
                pp.create_line_from_parameters(net, lvl[int(a)], lvl[int(b)], R(0.5, lmax), r_ohm_per_km=R(0.05, 0.3),
                                               x_ohm_per_km=R(0.1, 0.4), c_nf_per_km=R(0, 300), g_us_per_km=R(0, 2) if B(0.5) else 0.,
                                               max_i_ka=R(0.2, 0.8))
    # hv-mv trafos
    t = pp.create_transformer(net, hv[0], mv[0], C(TRAFO_HVMV))
    net.trafo.at[t, "shift_degree"] = shift_hvmv
    if B(P["tap"]):
        net.trafo.at[t, "tap_pos"] = I(-9, 9)
    n_extra = I(0, 2) if B(0.6) else 0
    for _ in range(n_extra):
        a, b = (hv[I(0, n_hv - 1)], mv[I(0, n_mv - 1)])
        if not P["mesh"] and len(net.trafo) >= 1:
            # radial profile: parallel to the first one only
            a, b = hv[0], mv[0]
        tct = C(["Ratio", "Symmetrical", "Ideal", "Ratio"])
        ptap = B(P["ptap"])
        t = pp.create_transformer_from_parameters(
            net, a, b, sn_mva=R(10, 60), vn_hv_kv=R(105, 118), vn_lv_kv=R(19, 22), vk_percent=R(6, 16), vkr_percent=R(0.2, 1.),
            pfe_kw=R(0, 40), i0_percent=R(0.04, 0.3) if B(0.8) else 0., shift_degree=shift_hvmv, tap_side=C(["hv", "lv"]), tap_neutral=I(-1, 1),
            tap_min=-9, tap_max=9, tap_step_percent=R(0.5, 2), tap_step_degree=R(0, 40) if (ptap and tct != "Ideal") else 0.,
            tap_pos=I(-9, 9), tap_changer_type=tct, parallel=I(1, 2), df=R(0.5, 1))
        if tct == "Ideal":
            if B(0.5):
                net.trafo.at[t, "tap_step_percent"] = 0.
                net.trafo.at[t, "tap_step_degree"] = R(0.05, 0.4)
            else:
                net.trafo.at[t, "tap_step_percent"] = R(0.1, 0.6)
                net.trafo.at[t, "tap_step_degree"] = 0.
        if B(0.3):
            net.trafo.at[t, "leakage_resistance_ratio_hv"] = R(0.2, 0.8)
            net.trafo.at[t, "leakage_reactance_ratio_hv"] = R(0.2, 0.8)
    for c_ in ["leakage_resistance_ratio_hv", "leakage_reactance_ratio_hv"]:
        if c_ in net.trafo:
            net.trafo[c_] = net.trafo[c_].fillna(0.5)
    for b in lv:
        t = pp.create_transformer(net, mv[I(0, n_mv - 1)], b, C(TRAFO_MVLV))
        for c_ in ["leakage_resistance_ratio_hv", "leakage_reactance_ratio_hv"]:
            if c_ in net.trafo:
                net.trafo.at[t, c_] = 0.5
        net.trafo.at[t, "shift_degree"] = shift_mvlv
        if B(P["tap"]):
            net.trafo.at[t, "tap_pos"] = I(-2, 2)
    ter = []
    if B(P["trafo3w"]):
        shift3_lv = float(C([0., 150., 30.]))
        for _ in range(I(1, 2)):
            b3 = pp.create_bus(net, 10., name="ter%d" % len(ter))
            ter.append(b3)
            t3 = pp.create_transformer3w(net, hv[I(0, n_hv - 1)], mv[I(0, n_mv - 1)], b3, "63/25/38 MVA 110/20/10 kV",
                                         tap_pos=I(-9, 9), tap_at_star_point=B(0.3))
            net.trafo3w.at[t3, "shift_mv_degree"] = shift_hvmv
            net.trafo3w.at[t3, "shift_lv_degree"] = shift3_lv
            if B(0.4):
                net.trafo3w.at[t3, "tap_side"] = C(["hv", "mv", "lv"])
            if B(0.3):
                net.trafo3w.at[t3, "tap_changer_type"] = C(["Ratio", "Symmetrical"])
                if B(P["ptap"]):
                    net.trafo3w.at[t3, "tap_step_degree"] = R(0, 20)
    if B(P["imp"]) and n_mv >= 2:
        a, b = g.rng.choice(n_mv, 2, replace=False)
        sym = B(0.4)
        kw = dict(rft_pu=R(0.001, 0.05), xft_pu=R(0.01, 0.1), sn_mva=R(5, 50))
        if not sym:
            kw.update(rtf_pu=R(0.001, 0.05), xtf_pu=R(0.01, 0.1), gf_pu=R(0, 0.01), bf_pu=R(-0.01, 0.01), gt_pu=R(0, 0.01),
                      bt_pu=R(-0.01, 0.01))
        pp.create_impedance(net, mv[int(a)], mv[int(b)], **kw)
    # slack(s)
    vm_of = {}  # bus -> voltage set-point of voltage controlling elements
    eg_vm = R(0.98, 1.05)
    pp.create_ext_grid(net, hv[0], vm_pu=eg_vm, va_degree=R(-10, 10) if B(0.5) else 0., in_service=not B(P["eg_oos"]))
    vm_of[hv[0]] = eg_vm
    if B(P["second_eg"]) and n_hv > 1:
        vm2 = R(0.98, 1.05)
        pp.create_ext_grid(net, hv[-1], vm_pu=vm2, va_degree=float(net.ext_grid.va_degree.iloc[0]) + R(-2, 2))
        vm_of[hv[-1]] = vm2
    if B(P.get("co_slack", 0.12)):
        # a second slack machine on the slack bus itself or on a bus fused with it (same set-point)
        if B(0.5):
            pp.create_ext_grid(net, hv[0], vm_pu=eg_vm, va_degree=float(net.ext_grid.va_degree.iloc[0]), slack_weight=R(0.5, 2))
        else:
            bf = pp.create_bus(net, 110., name="slackfuse")
            pp.create_switch(net, hv[0], bf, "b", closed=True)
            if B(0.5):
                pp.create_ext_grid(net, bf, vm_pu=eg_vm, va_degree=float(net.ext_grid.va_degree.iloc[0]))
            else:
                pp.create_gen(net, bf, p_mw=R(0, 5), vm_pu=eg_vm, slack=True, slack_weight=R(0.5, 2))
            vm_of[bf] = eg_vm
    pq_b = mv + lv + ter
    for b in pq_b:
        s = _scale(net.bus.vn_kv.at[b])
        n = 1 + (I(0, 2) if B(P["multi"]) else 0)
        for _ in range(n):
            kw = {}
            if B(P["zip_load"]):
                zp = R(0, 100); ip = R(0, 100 - zp); zq = R(0, 100); iq = R(0, 100 - zq)
                kw = dict(const_z_p_percent=zp, const_i_p_percent=ip, const_z_q_percent=zq, const_i_q_percent=iq)
            pp.create_load(net, b, R(0, 1) * s, R(-0.3, 0.5) * s, scaling=R(0.5, 1.5), in_service=not B(P["oos"]), **kw)
        if B(0.5):
            pp.create_sgen(net, b, R(0, 1) * s, R(-0.3, 0.3) * s, scaling=R(0.5, 1.5), in_service=not B(P["oos"]))
        if B(P["storage"] * 0.4):
            pp.create_storage(net, b, R(-1, 1) * s, max_e_mwh=10, q_mvar=R(-0.2, 0.2) * s, scaling=R(0.5, 1.5),
                              in_service=not B(P["oos"]))
        if B(P["motor"] * 0.3):
            pp.create_motor(net, b, pn_mech_mw=R(0, 0.5) * s, cos_phi=R(0.7, 0.95), efficiency_percent=R(80, 98),
                            loading_percent=R(50, 110), scaling=R(0.5, 1.5), in_service=not B(P["oos"]))
        if B(P["shunt"] * 0.4):
            pp.create_shunt(net, b, q_mvar=R(-0.5, 0.5) * s, p_mw=R(0, 0.05) * s, step=I(0, 3), max_step=4,
                            vn_kv=float(net.bus.vn_kv.at[b]) * float(C([1., 1., 1.05, 0.9])), in_service=not B(P["oos"]))
        if B(P["ward"] * 0.3):
            pp.create_ward(net, b, ps_mw=R(-1, 1) * s, qs_mvar=R(-0.3, 0.3) * s, pz_mw=R(0, 0.5) * s, qz_mvar=R(-0.3, 0.3) * s,
                           in_service=not B(P["oos"]))
        if B(P["xward"] * 0.25) and b not in vm_of:
            zb = float(net.bus.vn_kv.at[b]) ** 2 / 10.
            pp.create_xward(net, b, ps_mw=R(-1, 1) * s, qs_mvar=R(-0.3, 0.3) * s, pz_mw=R(0, 0.5) * s, qz_mvar=R(-0.3, 0.3) * s,
                            r_ohm=R(0.01, 0.1) * zb, x_ohm=R(0.05, 0.3) * zb, vm_pu=R(0.98, 1.03), in_service=not B(P["oos"]))
        if B(P["asym"] * 0.3):
            pp.create_asymmetric_load(net, b, *[R(0, 0.3) * s for _ in range(3)], *[R(-0.1, 0.1) * s for _ in range(3)],
                                      scaling=R(0.5, 1.5), in_service=not B(P["oos"]))
        if B(P["asym"] * 0.3):
            pp.create_asymmetric_sgen(net, b, *[R(0, 0.3) * s for _ in range(3)], *[R(-0.1, 0.1) * s for _ in range(3)],
                                      scaling=R(0.5, 1.5), in_service=not B(P["oos"]))
    if B(P["gen"]):
        cand = hv[1:] + mv
        k = min(I(*P["n_gen"]), len(cand))
        for b in g.rng.choice(cand, size=k, replace=False) if k else []:
            b = int(b)
            s = _scale(net.bus.vn_kv.at[b])
            vm = vm_of.setdefault(b, R(0.99, 1.04))
            for _ in range(1 + int(B(0.3))):
                pp.create_gen(net, b, p_mw=R(0, 2) * s, vm_pu=vm, min_q_mvar=-R(0.1, 2) * s, max_q_mvar=R(0.1, 2) * s,
                              scaling=R(0.5, 1.5), in_service=not B(P["oos"]), slack=False)
    # bus-bus switches with satellite buses
    if B(P["bb_sw"]) and n_mv:
        for _ in range(I(1, 2)):
            b2 = pp.create_bus(net, 20., name="sat")
            pp.create_switch(net, mv[I(0, n_mv - 1)], b2, "b", closed=not B(P["open_sw"]), z_ohm=R(0.01, 0.5) if B(P["z_sw"]) else 0.)
            pp.create_load(net, b2, R(0, 1), R(0, 0.3))
            if B(0.5):
                b3 = pp.create_bus(net, 20., name="sat2")
                pp.create_switch(net, b2, b3, "b", closed=not B(P["open_sw"]))
                if B(0.5):
                    pp.create_sgen(net, b3, R(0, 1), R(0, 0.3))
                if B(0.3):
                    pp.create_switch(net, b3, mv[I(0, n_mv - 1)], "b", closed=not B(P["open_sw"]), z_ohm=R(0.01, 0.5) if B(P["z_sw"]) else 0.)
    # an extra island (own slack or none)
    if B(P["extra_island"]):
        ib = [pp.create_bus(net, 20., name="isl%d" % i) for i in range(I(2, 3))]
        for i in range(1, len(ib)):
            pp.create_line(net, ib[i - 1], ib[i], R(0.5, 3), C(LINE_TYPES_MV))
        pp.create_load(net, ib[-1], R(0, 2), R(0, 0.5))
        kind = C(["eg", "slackgen", "none", "gen_only"])
        if kind == "eg":
            pp.create_ext_grid(net, ib[0], vm_pu=R(0.98, 1.04))
        elif kind == "slackgen":
            pp.create_gen(net, ib[0], p_mw=R(0, 1), vm_pu=R(0.99, 1.03), slack=True)
        elif kind == "gen_only":
            pp.create_gen(net, ib[0], p_mw=R(0, 1), vm_pu=R(0.99, 1.03))
        if B(0.4):
            # a normally open tie to the main grid
            li = pp.create_line(net, mv[0], ib[0], R(0.5, 3), C(LINE_TYPES_MV))
            pp.create_switch(net, ib[0], li, "l", closed=B(0.3))
    if B(P["slack_gen"]) and n_hv > 1 and hv[1] not in vm_of:
        vm = R(0.99, 1.03)
        vm_of[hv[1]] = vm
        pp.create_gen(net, hv[1], p_mw=R(0, 20), vm_pu=vm, slack=True, slack_weight=R(0.5, 2))
    # branch switches
    for li in net.line.index:
        if B(0.3):
            side = C(["from_bus", "to_bus"])
            pp.create_switch(net, int(net.line.at[li, side]), li, "l", closed=not B(P["open_sw"]))
    for ti in net.trafo.index:
        if B(0.3):
            side = C(["hv_bus", "lv_bus"])
            pp.create_switch(net, int(net.trafo.at[ti, side]), ti, "t", closed=not B(P["open_sw"]))
    for ti in net.trafo3w.index:
        if B(0.5):
            side = C(["hv_bus", "mv_bus", "lv_bus"])
            pp.create_switch(net, int(net.trafo3w.at[ti, side]), ti, "t3", closed=not B(P["open_sw"]))
    for tab in ["line", "trafo", "trafo3w", "impedance"]:
        for i in net[tab].index:
            if B(P["oos"] * 0.5):
                net[tab].at[i, "in_service"] = False
    for b in net.bus.index:
        if b != hv[0] and B(P["oos"] * 0.3):
            net.bus.at[b, "in_service"] = False
    if B(P["dcline"]) and n_mv >= 2:
        a, b = g.rng.choice(n_mv, 2, replace=False)
        a, b = mv[int(a)], mv[int(b)]
        if a not in vm_of and b not in vm_of and net.bus.in_service.at[a] and net.bus.in_service.at[b]:
            va_, vb_ = R(0.99, 1.03), R(0.99, 1.03)
            vm_of[a], vm_of[b] = va_, vb_
            pp.create_dcline(net, a, b, p_mw=R(-2, 2), loss_percent=R(0, 3), loss_mw=R(0, 0.05), vm_from_pu=va_, vm_to_pu=vb_,
                             max_p_mw=5, min_q_from_mvar=-5, max_q_from_mvar=5, min_q_to_mvar=-5, max_q_to_mvar=5)
    if P["tabular"] and B(P["tabular"]):
        add_tap_table(net, g)
    if not P.get("sw_at_oos_bus", False) and len(net.switch):
        # an open bus-element switch located at an out-of-service bus makes pandapower build an in-service auxiliary bus for a
        # dead branch (finding F29, fixed in /repo by 05ea88b30); the filter is kept as an option only (default: off)
        sw = net.switch
        bad = (sw.et != "b") & ~sw.closed & ~net.bus.in_service.reindex(sw.bus).values
        net.switch.loc[bad, "closed"] = True
    # late additions drawn from their own stream (the networks of earlier rounds stay what they were apart from these elements):
    # P/Q elements - also voltage dependent ones - directly at a slack bus, and dc lines that are out of service
    r2 = np.random.default_rng([int(seed) & 0xFFFFFFFF, 20260922])
    if r2.random() < P.get("slack_bus_load", 0.3) and len(net.ext_grid):
        b = int(net.ext_grid.bus.iloc[0])
        s_ = _scale(net.bus.vn_kv.at[b])
        kw = {}
        if r2.random() < 0.6 and P["zip_load"] > 0:      # (callers that exclude voltage dependent loads get none here either)
            zp = r2.uniform(0, 100); zq = r2.uniform(0, 100)
            kw = dict(const_z_p_percent=zp, const_i_p_percent=r2.uniform(0, 100 - zp), const_z_q_percent=zq, const_i_q_percent=r2.uniform(0, 100 - zq))
        pp.create_load(net, b, r2.uniform(0, 1) * s_, r2.uniform(-0.3, 0.5) * s_, scaling=r2.uniform(0.5, 1.5), **kw)
        if r2.random() < 0.3:
            pp.create_sgen(net, b, r2.uniform(0, 1) * s_, r2.uniform(-0.3, 0.3) * s_)
    if len(net.dcline) and P["oos"] > 0 and r2.random() < P.get("dcline_oos", 0.3):
        net.dcline.loc[net.dcline.index[int(r2.integers(0, len(net.dcline)))], "in_service"] = False
    return net


def add_tap_table(net, g, share=0.5):
    """Give some 2W transformers a tabular tap changer (trafo_characteristic_table)."""
    rows = []
    idc = 0
    net.trafo["tap_dependency_table"] = False
    net.trafo["id_characteristic_table"] = pd.array([pd.NA] * len(net.trafo), dtype="Int64")
    prev = None
    for t in net.trafo.index:
        if not g.B(0.6) or pd.isna(net.trafo.at[t, "tap_pos"]):
            continue
        if prev is not None and g.B(share) and _same_tap_range(net, prev[0], t):
            cid = prev[1]
        else:
            cid = idc
            idc += 1
            vk, vkr = float(net.trafo.at[t, "vk_percent"]), float(net.trafo.at[t, "vkr_percent"])
            for step in range(int(net.trafo.at[t, "tap_min"]), int(net.trafo.at[t, "tap_max"]) + 1):
                rows.append(dict(id_characteristic=cid, step=step, voltage_ratio=1 + g.R(0.004, 0.02) * (step - net.trafo.at[t, "tap_neutral"]),
                                 angle_deg=g.R(-0.2, 0.2) * step if g.B(0.3) else 0., vk_percent=vk * g.R(0.9, 1.1),
                                 vkr_percent=vkr * g.R(0.9, 1.1), vk_hv_percent=np.nan, vkr_hv_percent=np.nan,
                                 vk_mv_percent=np.nan, vkr_mv_percent=np.nan, vk_lv_percent=np.nan, vkr_lv_percent=np.nan))
        net.trafo.at[t, "tap_dependency_table"] = True
        net.trafo.at[t, "id_characteristic_table"] = cid
        net.trafo.at[t, "tap_changer_type"] = "Tabular"
        prev = (t, cid)
    if rows:
        net["trafo_characteristic_table"] = pd.DataFrame(rows)
    return net


def _same_tap_range(net, a, b):
    return all(net.trafo.at[a, c] == net.trafo.at[b, c] for c in ["tap_min", "tap_max", "tap_neutral"])


def describe(net):
    """small human-readable descriptor for evidence samples"""
    d = {"sn_mva": float(net.sn_mva)}
    for k in ["bus", "line", "trafo", "trafo3w", "impedance", "switch", "ext_grid", "gen", "sgen", "load", "storage", "motor",
              "shunt", "ward", "xward", "asymmetric_load", "asymmetric_sgen", "dcline"]:
        if len(net[k]):
            d[k] = int(len(net[k]))
    return d
