#!/usr/bin/env python3
"""Run the repository's own test-suite with the verification guard OFF and compare with /root/.vp/BASELINE.json.

    python3 tools/baseline.py [-n WORKERS] [pytest args...]

Exit 0 iff every test in BASELINE.stable_pass passed.  With -n N the run is parallel (pytest-xdist); without it
this is exactly the BASELINE command.
"""
import json, os, subprocess, sys, tempfile, xml.etree.ElementTree as ET

def main():
    args = sys.argv[1:]
    n = None
    if args[:1] == ["-n"]:
        n = args[1]; args = args[2:]
    base = json.load(open("/root/.vp/BASELINE.json"))
    out = os.path.join("/var/tmp", "pv-baseline-%d.xml" % os.getpid())
    env = {k: v for k, v in os.environ.items() if k != "PANDAPOWER_VERIF"}
    cmd = ["/venv/bin/python", "-m", "pytest", "-q", "-p", "no:cacheprovider", "--timeout=900",
           "--continue-on-collection-errors", "--junitxml=" + out] + (["-n", n] if n else []) + args
    subprocess.run(cmd, cwd="/repo", env=env, stdout=subprocess.DEVNULL, stderr=subprocess.DEVNULL)
    passed, failed = set(), set()
    for tc in ET.parse(out).getroot().iter("testcase"):
        tid = (tc.get("classname") or "") + "::" + (tc.get("name") or "")
        if tc.find("failure") is not None or tc.find("error") is not None:
            failed.add(tid)
        elif tc.find("skipped") is None:
            passed.add(tid)
    os.remove(out)
    stable = set(base["stable_pass"])
    if args:
        # running a sub-path changes pytest's rootdir and thereby the classname prefix: match by suffix
        def norm(t):
            return t[len("pandapower.test."):] if t.startswith("pandapower.test.") else t
        passed = {norm(t) for t in passed}
        failed = {norm(t) for t in failed}
        stable = {norm(t) for t in stable}
        stable = {t for t in stable if t in passed or t in failed}
        base["stable_pass"] = list(stable | {norm(t) for t in base["stable_pass"]})
    missing = sorted(stable - passed)
    print("passed %d failed %d; baseline stable %d; stable not passed: %d" % (len(passed), len(failed), len(stable), len(missing)))
    for t in missing[:40]:
        print("  NOT PASSED:", t)
    newly = sorted(passed - set(base["stable_pass"]))
    if newly:
        print("  newly passing (not in baseline): %d e.g. %s" % (len(newly), newly[:5]))
    return 1 if missing else 0

if __name__ == "__main__":
    sys.exit(main())
