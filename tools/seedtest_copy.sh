#!/bin/bash
# tools/seedtest_copy.sh <seed dir> [PROP ...]   - like seedtest.sh but never touches /repo: the patch is applied to a scratch
# copy of /repo/pandapower under /var/tmp (removed afterwards); demo and quick check(s) run against that copy (PV_REPO).
D=$(readlink -f "$1"); shift
P=$(python3 -c "import json,sys; print(json.load(open('$D/meta.json'))['property'])")
CHECKS="${@:-$P}"
S=/var/tmp/pvseed-$$
mkdir -p $S && rsync -a --exclude '__pycache__/' /repo/pandapower $S/ && cp /repo/setup.py /repo/pyproject.toml $S/ 2>/dev/null
REPO_ROOT=/repo PYTHONPATH=/repo /venv/bin/python "$D/demo.py" /repo > /var/tmp/seed_demo_clean_$$.log 2>&1; c1=$?
( cd $S && git init -q . 2>/dev/null; git -C $S apply "$D/patch.diff" 2>/var/tmp/seed_apply_$$.log ) || { echo "$P: patch does not apply: $(head -2 /var/tmp/seed_apply_$$.log)"; rm -rf $S; exit 8; }
REPO_ROOT=$S PYTHONPATH=$S /venv/bin/python "$D/demo.py" $S > /var/tmp/seed_demo_patched_$$.log 2>&1; c2=$?
res=""
for c in $CHECKS; do
  (cd /verif && PV_REPO=$S VERIF_SEED=${VERIF_SEED:-1} /venv/bin/python -m pv.check $c --tier quick --no-evidence > .work/seed2_${P}_$c.log 2>&1); rc=$?
  nv=$(grep -c '^VIOLATION' /verif/.work/seed2_${P}_$c.log)
  res="$res $c:exit=$rc,violations=$nv"
done
rm -rf $S /var/tmp/seed_demo_clean_$$.log /var/tmp/seed_demo_patched_$$.log /var/tmp/seed_apply_$$.log
echo "$P demo_clean=$c1 demo_patched=$c2 checks:$res"
