#!/usr/bin/env python3
"""Run tools/seedtest.sh for every seeded defect (or the ids given) and record in seeded/<id>/meta.json what was run and what
it showed.  /repo must be clean; every patch is applied with `git -C /repo apply` and undone with `git -C /repo checkout -- .`."""
import json, os, re, subprocess, sys, time
os.chdir("/verif")
ids = sys.argv[1:] or sorted(d for d in os.listdir("seeded") if os.path.isdir(os.path.join("seeded", d)))
head = subprocess.run(["git", "-C", "/repo", "rev-parse", "--short", "HEAD"], capture_output=True, text=True).stdout.strip()
for i in ids:
    assert subprocess.run(["git", "-C", "/repo", "status", "--porcelain"], capture_output=True, text=True).stdout.strip() == "", "/repo dirty"
    t0 = time.time()
    out = subprocess.run(["tools/seedtest.sh", "seeded/" + i], capture_output=True, text=True).stdout.strip().splitlines()
    line = out[-1] if out else ""
    m = re.search(r"demo_clean=(\d+) demo_patched=(\d+) checks: (.*)", line)
    rec = {"repo_head": head, "date": time.strftime("%Y-%m-%d"), "command": "tools/seedtest.sh seeded/%s" % i, "raw": line,
           "wall_s": round(time.time() - t0)}
    if m:
        rec.update(demo_exit_clean_tree=int(m.group(1)), demo_exit_patched_tree=int(m.group(2)))
        rec["checks_on_patched_tree"] = {c.split(":")[0]: c.split(":")[1] for c in m.group(3).split()}
        rec["caught"] = any("exit=1" in v for v in rec["checks_on_patched_tree"].values())
    p = os.path.join("seeded", i, "meta.json")
    meta = json.load(open(p))
    meta["verified_by_builder"] = rec
    json.dump(meta, open(p, "w"), indent=1)
    print(i, line, flush=True)
