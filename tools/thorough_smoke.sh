#!/bin/bash
# smoke-run of the thorough tier with a reduced number of cases (different seeds than quick: the tier is part of the case seed)
cd /verif
for p in $(python3 -c "import json; print(' '.join(c['property_id'] for c in json.load(open('MANIFEST.json'))['checks']))"); do
  n=$(python3 - <<PY
import ast
src=open('pv/monitors/${p,,}.py').read()
import re
for node in ast.parse(src).body:
    if isinstance(node, ast.Assign) and getattr(node.targets[0],'id',None)=='CASES':
        print(ast.literal_eval(node.value)['quick']*3)
PY
)
  t0=$(date +%s)
  PV_FLOOR_SCALE=0.0001 /venv/bin/python -m pv.check $p --tier thorough --cases $n --shards 16 --no-evidence > .work/thorough_$p.log 2>&1
  echo "$p exit=$? cases=$n wall=$(( $(date +%s) - t0 ))s $(grep -c '^VIOLATION' .work/thorough_$p.log) violations; $(grep -m1 INCONCL .work/thorough_$p.log | cut -c1-120)"
done
