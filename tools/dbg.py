import sys, json; sys.path.insert(0,'/verif'); sys.path.insert(0,'/repo')
from pv import common; common.quiet()
import importlib
prop, tier, case_no = sys.argv[1], sys.argv[2], int(sys.argv[3])
mod = importlib.import_module("pv.monitors."+prop.lower())
seed = common.case_seed(prop.upper(), tier, case_no)
rec = mod.run_case(seed, tier, case_no)
print(common.dumps({k: rec[k] for k in ("sample","skipped","violations","tags")}, indent=1))
