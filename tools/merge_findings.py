#!/usr/bin/env python3
"""merge proposed known-findings (json file or a notes.md containing a ```json block with a list / {"findings": [...]}) into known_findings.json
   usage: merge_findings.py <file> [<file>...]   ids are renumbered Axx to stay unique"""
import json, re, sys
P = "/verif/known_findings.json"
d = json.load(open(P))
have = {(f["property"], f["mechanism"]) for f in d["findings"]}
n = 100 + sum(1 for f in d["findings"] if f["id"].startswith("A"))
for fn in sys.argv[1:]:
    txt = open(fn).read()
    cands = []
    if fn.endswith(".json"):
        cands = [txt]
    else:
        cands = re.findall(r"```json\s*(.*?)```", txt, re.S)
    for c in cands:
        try:
            j = json.loads(c)
        except ValueError as e:
            # one JSON object per line, comma separated
            j = []
            for line in c.splitlines():
                line = line.strip().rstrip(",")
                if line.startswith("{"):
                    try:
                        j.append(json.loads(line))
                    except ValueError:
                        print("skip line in", fn, line[:80])
        items = j["findings"] if isinstance(j, dict) else j
        for f in items:
            if not isinstance(f, dict) or "mechanism" not in f: continue
            key = (f["property"], f["mechanism"])
            if key in have: continue
            have.add(key)
            n += 1
            d["findings"].append({"id": "A%d" % n, "property": f["property"], "mechanism": f["mechanism"], "status": f.get("status", "open"),
                                  "description": f.get("description", "")})
            print("added", key)
json.dump(d, open(P, "w"), indent=1)
