#!/bin/bash
# run every claimed check (quick tier by default) sequentially, writing evidence; prints one status line per check
#   tools/runall.sh [tier] [ids...]
cd /verif
TIER=${1:-quick}; shift
IDS="$@"
[ -z "$IDS" ] && IDS=$(python3 -c "import json; print(' '.join(c['property_id'] for c in json.load(open('MANIFEST.json'))['checks']))")
for p in $IDS; do
  t0=$(date +%s)
  /venv/bin/python -m pv.check $p --tier $TIER > .work/runall_$p.log 2>&1
  rc=$?
  echo "$p exit=$rc wall=$(( $(date +%s) - t0 ))s $(grep -c '^KNOWN-FINDING' .work/runall_$p.log) known, $(grep -c '^VIOLATION' .work/runall_$p.log) violations $(grep INCONCL .work/runall_$p.log | head -1 | cut -c1-160)"
done
