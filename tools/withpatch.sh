#!/bin/bash
# Run checks against a patched scratch copy of /repo (never touches /repo).
#   tools/withpatch.sh <patch.diff> <PROP> [more pv.check args...]
# The patch must apply with `patch -p1` at the repository root. Evidence is not written. Exit code = exit code of the check.
set -u
PATCH=$(readlink -f "$1"); shift
D=/var/tmp/pvmut-$$
mkdir -p "$D"
rsync -a --exclude 'test/' --exclude '__pycache__/' /repo/pandapower "$D"/
# keep the test helper packages some modules import
mkdir -p "$D/pandapower/test" && rsync -a --exclude '__pycache__/' --include '*/' --include '*.py' --exclude '*' /repo/pandapower/test/ "$D/pandapower/test/" 2>/dev/null
( cd "$D" && patch -p1 -s < "$PATCH" ) || { echo "patch failed"; rm -rf "$D"; exit 2; }
cd /verif
PV_REPO="$D" /venv/bin/python -m pv.check "$@" --no-evidence
RC=$?
rm -rf "$D"
echo "withpatch exit=$RC"
exit $RC
