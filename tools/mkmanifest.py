#!/usr/bin/env python3
"""Regenerate /verif/MANIFEST.json from the monitor modules (pv/monitors/cXX.py) and properties.jsonl.

A property is claimed iff its monitor module exists and sets READY = True; every other property is listed under
not_applicable with the reason given in NOT_CLAIMED below (or 'monitor not built yet').
"""
import ast
import json
import os
import sys

V = os.path.dirname(os.path.dirname(os.path.abspath(__file__)))

NOT_CLAIMED = {}


def consts(path):
    """module-level constant assignments, without importing pandapower"""
    out = {}
    tree = ast.parse(open(path).read())
    for node in tree.body:
        if isinstance(node, ast.Assign) and len(node.targets) == 1 and isinstance(node.targets[0], ast.Name):
            try:
                out[node.targets[0].id] = ast.literal_eval(node.value)
            except Exception:
                pass
    return out


def main():
    props = [json.loads(l) for l in open(os.path.join(V, "properties.jsonl"))]
    checks, na = [], []
    for p in props:
        pid = p["id"]
        mp = os.path.join(V, "pv", "monitors", pid.lower() + ".py")
        c = consts(mp) if os.path.exists(mp) else {}
        approved = set(open(os.path.join(V, "tools", "approved.txt")).read().split())
        if not c.get("READY") or pid not in approved:
            na.append({"property_id": pid, "reason": NOT_CLAIMED.get(pid, c.get("NOT_READY_REASON", "monitor not built yet (work in progress, see DESIGN.md section 6)"))})
            continue
        checks.append({
            "property_id": pid,
            "quick_cmd": "/venv/bin/python -m pv.check %s --tier quick" % pid,
            "thorough_cmd": "/venv/bin/python -m pv.check %s --tier thorough" % pid,
            "evidence_file": "evidence/%s.json" % pid,
            "replay_cmd_template": "/venv/bin/python -m pv.check %s --replay {path}" % pid,
            "engine": "pv",
            "level_claimed": {"category": c.get("LEVEL", "exploration"), "text": c.get("LEVEL_TEXT", c.get("RULE", "")),
                              "design_ref": "DESIGN.md section 6, " + pid},
            "level_note": c.get("LEVEL_NOTE", "; ".join(c.get("ASSUMPTIONS", [])) or "oracle and generators of pv are trusted"),
            "technique": c.get("TECHNIQUE", "runtime monitoring: oracle over observed executions of the real code"),
        })
    man = {
        "version": 1,
        "setup_cmd": "/venv/bin/python -m pv.setup",
        "hooks": {"guard": "PANDAPOWER_VERIF",
                  "enable": "no source hooks: the monitors observe the unmodified /repo working tree from outside (sys.monitoring probes, "
                            "snapshots at the API boundary); PANDAPOWER_VERIF=1 is set for worker processes only and is not read by /repo",
                  "baseline_off_cmd": "cd /repo && /venv/bin/python -m pytest -ra -q -p no:cacheprovider --timeout=900 --continue-on-collection-errors",
                  "source_commits": [], "add_only": True},
        "engines": [{"name": "pv", "path": "pv", "serves_properties": [c["property_id"] for c in checks],
                     "kind_free_text": "python runtime-monitoring framework: seeded workload generators, boundary probes (sys.monitoring), "
                                       "independent reference oracles, shard runner, evidence writer"}],
        "checks": checks,
        "not_applicable": na,
        "notes": "All checks: exit 0 held / exit 1 VIOLATION / exit 3 inconclusive (coverage floor, shard crash). Known findings: known_findings.json.",
    }
    with open(os.path.join(V, "MANIFEST.json"), "w") as f:
        json.dump(man, f, indent=1)
        f.write("\n")
    print("claimed:", [c["property_id"] for c in checks])
    print("not claimed:", [n["property_id"] for n in na])


if __name__ == "__main__":
    sys.exit(main())
