#!/bin/bash
# tools/seedtest.sh <seed dir with patch.diff demo.py meta.json> [PROP ...]
# verifies a seeded defect against /repo: demo passes clean, patch applies, demo fails patched, then runs the quick check(s)
# of the property (or the listed ones) against the patched /repo and restores /repo afterwards.
D=$(readlink -f "$1"); shift
P=$(python3 -c "import json,sys; print(json.load(open('$D/meta.json'))['property'])")
CHECKS="${@:-$P}"
cd /repo
[ -n "$(git status --porcelain --untracked-files=no)" ] && { echo "REPO DIRTY"; exit 9; }
REPO_ROOT=/repo PYTHONPATH=/repo /venv/bin/python "$D/demo.py" /repo > /tmp/seed_demo_clean.log 2>&1; c1=$?
git apply --check "$D/patch.diff" 2>/tmp/seed_apply.log || { echo "$P: patch does not apply: $(head -2 /tmp/seed_apply.log)"; exit 8; }
git apply "$D/patch.diff"
REPO_ROOT=/repo PYTHONPATH=/repo /venv/bin/python "$D/demo.py" /repo > /tmp/seed_demo_patched.log 2>&1; c2=$?
res=""
for c in $CHECKS; do
  (cd /verif && VERIF_SEED=${VERIF_SEED:-0} /venv/bin/python -m pv.check $c --tier quick --no-evidence > .work/seed_${P}_$c.log 2>&1); rc=$?
  nv=$(grep -c '^VIOLATION' /verif/.work/seed_${P}_$c.log)
  res="$res $c:exit=$rc,violations=$nv"
done
git checkout -- . 
echo "$P demo_clean=$c1 demo_patched=$c2 checks:$res"
